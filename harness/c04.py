"""C04 — S(q) totals and partials (PyMatterSim.static.sq.sq, utils.wavevector.choosewavevector)
against spec/DensityModes.tla.

Direction A: TLC checks the C04 clauses (sum rule and correlation mass as integer identities,
non-negative diagonal for Gaussian-integer modes, default-set characterisation, grouping by exact
|q|) on every configuration of the MC_DensityModes scopes and emits, per configuration, the
wave-vector list (explicit or the documented default set decided from qrange with rational bounds
on pi), the integer circular correlations W_ab per vector and column, the normalisation and cosine
terms and the groups of equal |q|.  Each case is rebuilt as a Snapshots object and run through
sq(...).getresults(); every column of every group is compared (tolerance = the 1e-6 rounding the
library applies per vector).  The default sets are also compared directly with choosewavevector.
Direction B: seeded random configurations (N <= 16, K <= 6, M in {3,..,10}, 1-3 frames) go through
TLC's trace mode (same operators) and the real code.
"""
import json
import os
import random
import shutil
import tempfile

import numpy as np

from . import common
from .common import Check, run_tlc_sharded, require_model_ok
from .realeval import ev

INVS = ["InvDefaultSet", "InvSumRule", "InvDiagonal", "InvGrouping", "InvTypes"]
TOL = 6e-7   # per-vector values are rounded to 1e-6 before the average over a group


def opt_arg(o):
    return {"F": False, "T": True}.get(o, o)


def replay_wavevec(case):
    from PyMatterSim.utils.wavevector import choosewavevector
    d, h, o = case["d"], case["h"], case["opt"]
    out = []
    for numofq in (2 * h, 2 * h + 1):
        try:
            got = choosewavevector(d, numofq, opt_arg(o))
        except Exception as e:
            return ("violation", f"raises:{type(e).__name__}", dict(case, numofq=numofq, error=str(e)[:200]), True)
        got = sorted(tuple(int(x) for x in v) for v in np.asarray(got).reshape(-1, d))
        exp = sorted(tuple(v) for v in case["vecs"])
        if got != exp:
            return ("violation", "DefaultSetCharacterisation",
                    {"d": d, "numofq": numofq, "onlypositive": o, "missing": [v for v in exp if v not in got][:10],
                     "unexpected": [v for v in got if v not in exp][:10]}, True)
    return ("ok", None, None, len(case["vecs"]) > 0)


def large_default_sets(chk, tier, rng):
    """direction B for the default set at half-widths far beyond MC_DensityModes' scope: the rows the real
    choosewavevector returns are recorded and TraceWaveVec.tla decides membership and completeness in exact
    integer arithmetic (a float 'is the norm an integer' test can only go wrong for large components)."""
    from PyMatterSim.utils.wavevector import choosewavevector
    plan = [(2, 338 + rng.randrange(0, 40), "F"), (2, 452 + rng.randrange(0, 60), "T"), (2, 400 + rng.randrange(0, 200), "x"),
            (2, 300 + rng.randrange(0, 200), "y"), (3, 40 + rng.randrange(0, 20), "F"), (3, 60 + rng.randrange(0, 30), "T"),
            (3, 80 + rng.randrange(0, 40), "z")]
    if tier == "thorough":
        plan += [(2, 700 + rng.randrange(0, 100), "F"), (2, 1000 + rng.randrange(0, 200), "T"), (3, 100 + rng.randrange(0, 20), "F")]
    recs = []
    for d, numofq, o in plan:
        case = {"d": d, "numofq": numofq, "onlypositive": o}
        try:
            got = choosewavevector(d, numofq, opt_arg(o))
        except Exception as e:
            chk.violation(f"raises:{type(e).__name__}", dict(case, error=str(e)[:200]))
            continue
        got = np.asarray(got).reshape(-1, d)
        if not np.array_equal(got, np.rint(got)):
            chk.violation("DefaultSetCharacterisation:non-integer components", case)
            continue
        recs.append({"d": d, "numofq": numofq, "opt": o, "vecs": [[int(x) for x in v] for v in got]})
    res, rejects = common.validate_trace_all("TraceWaveVec", recs, timeout=1800)
    chk.add_tlc(res, "TraceWaveVec (default sets at large half-widths)")
    bad = dict(rejects)
    for i, rec in enumerate(recs):
        if i in bad:
            chk.violation("trace:DefaultSetCharacterisation:" + bad[i],
                          {"d": rec["d"], "numofq": rec["numofq"], "onlypositive": rec["opt"], "rows_returned": len(rec["vecs"])})
        else:
            chk.ok(("W", rec["d"], rec["numofq"], rec["opt"]), sample={"choosewavevector": [rec["d"], rec["numofq"], rec["opt"]],
                                                                      "rows": len(rec["vecs"])})


def replay(case):
    if case.get("m") == "WaveVectors":
        return replay_wavevec(case)
    import pandas as pd
    from PyMatterSim.static.sq import sq
    S, M = case["S"], case["M"]
    L = np.array(case["L"], dtype=float) / S
    d = len(L)
    detail = {k: case[k] for k in ("id", "L", "S", "M", "types", "frames", "sel", "tys")}
    if not case["decided"]:
        return ("tie", "numofq", None, False)
    vecs = np.array(case["vecs"], dtype=int).reshape(-1, d)
    if len(vecs) == 0:
        return ("tie", "empty-vector-set", None, False)
    frames = [np.array(f, dtype=float) * L[np.newaxis, :] / M for f in case["frames"]]
    tmp = tempfile.mkdtemp(prefix="verif_c04_")
    try:
        from PyMatterSim.reader.reader_utils import Snapshots
        ss = [common.make_snapshot(f, case["tys"][i], np.diag(L), i) for i, f in enumerate(frames)]
        snaps = Snapshots(nsnapshots=len(ss), snapshots=ss)
        csv = os.path.join(tmp, "sq.csv")
        sel = case["sel"]
        try:
            if sel["kind"] == "list":
                # an explicit list is used verbatim: qrange / onlypositive are documented to apply only without one
                extra = ({}, {"onlypositive": True}, {"qrange": 3.0, "onlypositive": "x"})[case.get("id", 0) % 3]
                obj = sq(snaps, qvector=vecs.copy(), outputfile=csv, **extra)
            else:
                obj = sq(snaps, qrange=sel["qn"] / sel["qd"], onlypositive=opt_arg(sel["opt"]), outputfile=csv)
            df = obj.getresults()
        except Exception as e:
            return ("violation", f"raises:{type(e).__name__}", dict(detail, error=str(e)[:200]), True)
        cols = list(df.columns)
        if cols != ["q"] + case["cols"]:
            return ("violation", "Columns", dict(detail, expected=["q"] + case["cols"], observed=cols), True)
        groups = case["groups"]
        qexp = [ev(g["q"]) for g in groups]
        # two distinct |q| that the library's rounding to 1e-6 could merge: not asserted
        if any(abs(a - b) < 5e-6 for a, b in zip(qexp, qexp[1:])):
            return ("tie", "close-q", None, False)
        if len(df) != len(groups):
            return ("violation", "GroupingByNorm", dict(detail, expected_groups=len(groups), observed=len(df)), True)
        cosv = [ev(t) for t in case["cos"]]
        nontrivial = False
        for gi, g in enumerate(groups):
            if abs(float(df["q"].iloc[gi]) - qexp[gi]) > TOL:
                return ("violation", "WaveNumber", dict(detail, group=gi, expected=qexp[gi], observed=float(df["q"].iloc[gi])), True)
            for qi, name in enumerate(case["cols"]):
                norm = ev(case["norm"][qi])
                vals = [sum(w * c for w, c in zip(case["w"][m - 1][qi], cosv)) / norm for m in g["members"]]
                exp = sum(vals) / len(vals)
                obs = float(df[name].iloc[gi])
                if abs(exp) > 1e-3:
                    nontrivial = True
                if abs(obs - exp) > TOL + 1e-9 * abs(exp):
                    return ("violation", f"Value:{name}", dict(detail, group=gi, members=[case["vecs"][m - 1] for m in g["members"]],
                                                              column=name, expected=exp, observed=obs), True)
        back = pd.read_csv(csv)
        if list(back.columns) != cols or len(back) != len(df) or not np.allclose(back.values, df.values, atol=5.1e-7, rtol=0):
            return ("violation", "CsvEqualsReturned", detail, True)
        return ("ok", None, None, nontrivial)
    finally:
        shutil.rmtree(tmp, ignore_errors=True)


def gen_records(rng, n):
    recs = []
    while len(recs) < n:
        d = rng.choice([2, 3])
        S = 2
        L = [rng.randint(10, 36) for _ in range(d)]
        M = rng.choice([3, 4, 5, 6, 8, 10])
        K = rng.randint(1, 6)
        N = rng.randint(max(K, 3), 16)
        types = list(range(1, K + 1)) + [rng.randint(1, K) for _ in range(N - K)]
        rng.shuffle(types)
        nf = rng.randint(1, 3)
        frames = [[[rng.randint(-M, 2 * M) for _ in range(d)] for _ in range(N)] for _ in range(nf)]
        if rng.random() < 0.5:
            nv = rng.randint(3, 14)
            vs = set()
            while len(vs) < nv:
                v = tuple(rng.randint(-3, 3) for _ in range(d))
                if any(v):
                    vs.add(v)
            sel = {"kind": "list", "vecs": [list(v) for v in sorted(vs)]}
        else:
            # qrange chosen so that numofq = int(qrange L_max / pi) lands in 2..12
            t = rng.randint(2, 12)
            qn = int((t + rng.random()) * 314.16 * S / max(L))
            sel = {"kind": "range", "qn": qn, "qd": 100, "opt": rng.choice(["F", "T", "x", "y", "z"])}
        rec = {"id": 100000 + len(recs), "L": L, "S": S, "M": M, "types": types, "frames": frames, "sel": sel}
        if nf > 1 and rng.random() < 0.4:      # species labels move between particles, composition fixed
            tys = [types]
            for _ in range(nf - 1):
                t = types[:]
                rng.shuffle(t)
                tys.append(t)
            rec["tys"] = tys
        recs.append(rec)
    return recs


def collect(chk, cases, label):
    results = common.pmap(replay, cases)
    for case, (verdict, clause, detail, nontrivial) in zip(cases, results):
        if verdict == "ok":
            key = (label, json.dumps({k: case.get(k) for k in ("d", "h", "opt", "L", "M", "types", "frames", "sel")})[:300])
            samp = None
            if case.get("m") == "DensityModes":
                samp = {"mode": label, "L": case["L"], "S": case["S"], "M": case["M"], "types": case["types"],
                        "frames": case["frames"][:1], "sel": case["sel"], "vecs": case["vecs"][:6], "cols": case["cols"],
                        "W_first_vector": case["w"][0] if case["w"] else []}
            chk.ok(key, nontrivial=nontrivial, sample=samp)
        elif verdict == "tie":
            chk.tie()
        else:
            chk.violation(clause, detail)


def run(tier, replay=None):
    common.import_lib()
    chk = Check("C04", tier)
    chk.rule = ("A: TLC enumerates MC_DensityModes (wavevec: d in {2,3} x h = 0..6 x 5 onlypositive options; grid: 3 particles on the "
                "quarter-box lattice of a 4x8 box x 4 species assignments x 24 vectors, exhaustive; hash: K = 1..6 x {2-D,3-D} x "
                "3 boxes with unequal edges x M in {3,4,5,6,8} x 1-2 frames x explicit lists and default sets), checks the C04 "
                "clauses as invariants, emits integer circular correlations per vector and column; every case is replayed into "
                "sq(...).getresults() / choosewavevector. B: seeded random configurations through TLC's trace mode and the real "
                "code; default sets for numofq in the hundreds (2-D) / up to 120 (3-D) recorded from choosewavevector and decided "
                "by TraceWaveVec.tla (membership and completeness in exact integers). "
                "Non-trivial = some expected value exceeds 1e-3 (for wave-vector cases: non-empty set).")
    chk.assumptions = ["tolerance 6e-7: the library rounds per-vector values to 1e-6 before averaging",
                       "numofq = int(qrange L_max / pi) is decided with 333/106 < pi < 355/113 and skipped when the bounds disagree",
                       "cases in which two distinct |q| are closer than 5e-6 are skipped (the library groups by rounded floats)"]
    if replay:
        print(json.dumps(common.load_replay(replay)["case"], indent=1)[:5000])
        return 0
    rng = random.Random(common.SEED * 7919 + 4)
    recs = gen_records(rng, 60 if tier == "quick" else 800)
    tmp = tempfile.mkdtemp(prefix="verif_c04_")
    try:
        path = os.path.join(tmp, "trace.ndjson")
        with open(path, "w") as f:
            for rec in recs:
                f.write(json.dumps(rec, separators=(",", ":")) + "\n")

        def tlc(mode):
            return run_tlc_sharded("MC_DensityModes",
                                   dict(constants={"Tier": tier, "Mode": mode, "Gen": True}, invariants=INVS + ["Emit"]),
                                   nshards=(4 if mode in ("wavevec", "nearq") else 8 if tier == "quick" else None),
                                   env=({"TRACE_FILE": path} if mode == "trace" else None))

        # the five models are independent: their TLC runs overlap (JVM start dominates in the quick tier)
        import concurrent.futures as cf
        modes = ("wavevec", "grid", "hash", "nearq", "trace")
        with cf.ThreadPoolExecutor(max_workers=(5 if tier == "quick" else 1)) as ex:
            results = dict(zip(modes, ex.map(tlc, modes)))
        for mode in modes:
            g = results[mode]
            require_model_ok(g, mode)
            chk.add_tlc(g, mode if mode != "trace" else "trace (direction B)")
            if not g.cases:
                raise common.MachineryError(f"no cases emitted in mode {mode}")
            cases = g.cases
            if mode == "grid" and tier == "quick":
                cases = common.sample(cases, 500, salt=4)
            if mode == "trace" and len(g.cases) != len(recs):
                raise common.MachineryError(f"trace mode: {len(g.cases)} cases for {len(recs)} records")
            collect(chk, cases, mode)
        large_default_sets(chk, tier, rng)
        chk.exhaustive = tier == "thorough"
    finally:
        shutil.rmtree(tmp, ignore_errors=True)
    return chk.finish()
