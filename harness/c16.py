"""C16 — coarse graining (PyMatterSim.utils.coarse_graining) against spec/CoarseGrain.tla.

Model (MC_CoarseGrain.tla, four modes): the loop nest of gaussian_blurring as a state
machine (one Visit per grid point, invariants FlatIndexIsBijection / XSlowest / WriteOnce),
the same machine on concrete configurations with the slot values stated as Real terms,
spatial_average as one action per frame with a cursor on the neighbour file, time_average
as one action per window.  The clauses of the property are TLC invariants.

Direction A: every case TLC prints is rendered (snapshots whose frames each carry their own
bounds and their own cell, two independent attributes; neighbour files with the rows in the
order the spec states; property arrays in one of several representations: float64 / int / bool /
float32 / read-only / strided / Fortran order; ngrids as int64 / int32 / read-only array; whole-number
sigma / cut-off / period as float / int / numpy scalar), the public routine is called, the
result is compared with the spec's expectation (rationals, admissible sets, evaluated terms).
Grid positions of every frame are projected to integers and handed to TraceCoarseGrain.tla,
which holds the frame cursor of the call and decides bijection / order / spanning THAT frame's
bounds (clause GridSpansFrameBounds:grid-of-another-frame when it is another frame's grid).
Direction B: seeded random scaled-integer inputs, larger than TLC's scope, are run through
the real code; TraceCoarseGrain.tla (with the file cursor as a spec variable) accepts or
rejects the discrete observations and prints the expected terms of the blurred values.
"""
import concurrent.futures as cf
import json
import math
import os
import random
import shutil
import zlib

import numpy as np

from . import common, realeval
from .common import Check, MachineryError, require_model_ok, run_tlc, run_tlc_sharded

GRID_INVS = ["InvWriteOnce", "InvFlatIndexIsBijection", "InvXSlowest", "InvSlotIsUnflat", "InvVisitOrder"]
BLUR_INVS = ["InvWriteOnce", "InvFlatIndexIsBijection", "InvXSlowest", "InvSlotIsUnflat", "InvImagesAreMinImage",
             "InvGridSpansFrameBounds", "InvBlurUnwrapInvariant", "InvBlurTranslationInvariant",
             "InvFrameGridFromItsBounds", "InvGridIsFunctionOfFrameBounds", "InvEquallySpaced"]
SPATIAL_INVS = ["InvCursorFollowsFrames", "InvSpatialMeanDefinition", "InvSpatialConvex", "InvSpatialConstant",
                "InvNoSelfCountedTwice", "InvRowOrderIrrelevant", "InvBoolIsFraction", "InvNmaxAboveCounts"]
WINDOW_INVS = ["InvWindowLenIsFloor", "InvExactMultiple", "InvWindowComplete", "InvWindowCentre",
               "InvWindowMeanDefinition", "InvRowsAtMostComplete", "InvWindowMeanIsRational", "InvUndefinedIsLocal"]
K = 840            # averages over n integers that are multiples of K are integers whenever n divides 840 (every n <= 8)
DIVISORS = [n for n in range(1, 841) if K % n == 0]
HEADER = "id     cn     neighborlist\n"


# --------------------------------------------------------------------------
# rendering of abstract inputs
# --------------------------------------------------------------------------

def snapshot(timestep, pos, H, bounds):
    from PyMatterSim.reader.reader_utils import SingleSnapshot
    pos = np.array(pos, dtype=float)
    H = np.array(H, dtype=float)
    return SingleSnapshot(timestep=int(timestep), nparticle=len(pos),
                          particle_type=np.ones(len(pos), dtype=np.int32), positions=pos,
                          boxlength=np.abs(np.diag(H)).astype(float), boxbounds=np.array(bounds, dtype=float),
                          realbounds=None, hmatrix=H)


def snapshots(frames):
    from PyMatterSim.reader.reader_utils import Snapshots
    return Snapshots(nsnapshots=len(frames), snapshots=list(frames))


def write_neighbor_file(path, frames):
    """frames[f][k] = [id, n1, n2, ...]: the k-th row of frame f as the specification states it
    (CoarseGrain!CgRows: rows in any order, 1-based ids)."""
    with open(path, "w") as f:
        for fr in frames:
            f.write(HEADER)
            for row in fr:
                f.write(" ".join([str(row[0]), str(len(row) - 1)] + [str(j) for j in row[1:]]) + "\n")


def rows_of(lists, order=None):
    """the rows of one frame for the abstract lists (lists[i] = listed ids of particle i+1), in row order `order`"""
    order = order or list(range(1, len(lists) + 1))
    return [[i] + list(lists[i - 1]) for i in order]


REAL_KINDS = ("float64", "int64", "int32", "float32", "readonly", "strided", "fortran")


def crc(*objs):
    return zlib.crc32(json.dumps(objs, default=str).encode())


def render(values, shape, kind):
    """integer-valued abstract data as an array of the given representation; returns (array, rtol).
    The values are the same in every representation (float32 carries small integers exactly)."""
    a = np.array(values, dtype=np.int64).reshape(shape)
    if kind == "bool":
        return a.astype(bool), 1e-9
    if kind in ("int64", "int32"):
        return a.astype(kind), 1e-9
    if kind == "float32":
        return a.astype(np.float32), 2e-6
    x = a.astype(float)
    if kind == "readonly":
        x.setflags(write=False)
    elif kind == "strided":
        big = np.full(tuple(2 * n for n in x.shape), 3.25)
        sl = tuple(slice(None, None, 2) for _ in x.shape)
        big[sl] = x
        x = big[sl]
    elif kind == "fortran":
        x = np.asfortranarray(x)
    return x, 1e-9


def count_kind(chk, what, kind):
    k = f"{what}_inputs_rendered_as_{kind}"
    chk.extra[k] = chk.extra.get(k, 0) + 1


def close_arr(obs, exp, atol=1e-9, rtol=1e-9):
    obs = np.asarray(obs)
    exp = np.asarray(exp)
    if obs.shape != exp.shape:
        try:
            exp = np.broadcast_to(exp, obs.shape)
        except ValueError:
            return False
    if not np.all(np.isfinite(obs)):
        return False
    return bool(np.all(np.abs(obs - exp) <= atol + rtol * np.abs(exp)))


def to_int(x, scale):
    """projection of floats to scaled integers with an exactness flag"""
    y = np.asarray(x, dtype=float) * scale
    r = np.rint(y)
    exact = bool(np.all(np.isfinite(y)) and np.all(np.abs(y - r) <= 1e-7 * (1 + np.abs(r))))
    r = np.where(np.isfinite(r), r, 0)
    return r.astype(np.int64), exact


# --------------------------------------------------------------------------
# gaussian_blurring
# --------------------------------------------------------------------------

def grid_scale(ng):
    M = 1
    for n in ng:
        M = math.lcm(M, max(int(n) - 1, 1))
    return M


def open_record(ng, bs):
    """a gaussian_blurring call: numbers of points and the (scaled-integer) bounds of every frame of the trajectory;
    the trace spec keeps them and the frame cursor"""
    return {"op": "blur_open", "ng": [int(n) for n in ng], "bs": bs}


def grid_record(ng, gp_frame, scale=1):
    """the grid returned for the next frame of the open call, projected to integers (unit 1 / (scale M))"""
    M = grid_scale(ng)
    obs, exact = to_int(gp_frame, scale * M)
    return {"op": "grid", "M": M, "obs": obs.tolist(), "exact": int(exact)}


BLUR_KINDS = ("float64", "float64", "int64", "bool", "float32", "readonly", "strided", "fortran")


def cond_array(rng, F, N, d, rank, kind="float64"):
    """a random particle property [F, N, (d, (d))] in one of the representations a caller may hold it in"""
    shape = (F, N) + (d,) * rank
    n = int(np.prod(shape))
    if kind == "int64":
        return np.array([rng.randint(-3, 3) for _ in range(n)], dtype=np.int64).reshape(shape)
    if kind == "bool":
        return np.array([rng.randint(0, 1) for _ in range(n)], dtype=bool).reshape(shape)
    x = np.array([rng.uniform(-2, 2) for _ in range(n)]).reshape(shape)
    if kind == "float32":
        return x.astype(np.float32)
    if kind == "readonly":
        x.setflags(write=False)
    elif kind == "strided":
        big = np.full(tuple(2 * m for m in shape), 9.5)
        sl = tuple(slice(None, None, 2) for _ in shape)
        big[sl] = x
        x = big[sl]
    elif kind == "fortran":
        x = np.asfortranarray(x)
    return x


NG_KINDS = ("int64 array", "int32 array", "read-only array")      # documented type: npt.NDArray of int (lists / tuples are not rendered)
PPP_KINDS = ("int64 array", "int32 array", "strided view", "read-only array")
NUM_KINDS = ("float", "int", "numpy.float64")


def render_ngrids(ng, ngkind):
    """the numbers of grid points as a caller may hold them (the documented type is an integer ndarray)"""
    ng = [int(n) for n in ng]
    nga = np.array(ng, dtype=np.int32) if ngkind == 1 else np.array(ng, dtype=np.int64)
    if ngkind == 2:
        nga.setflags(write=False)
    return nga


def render_mask(ppp, pkind, three=False):
    m = [int(x) for x in ppp] + ([1] if three and len(ppp) == 2 else [])   # a three-entry mask (the default's length) for 2-D
    if pkind == 1:
        return np.array(m, dtype=np.int32)
    if pkind == 2:
        big = np.full(2 * len(m), 7, dtype=np.int64)
        big[::2] = m
        return big[::2]
    pa = np.array(m, dtype=np.int64)
    if pkind == 3:
        pa.setflags(write=False)
    return pa


def render_number(q, nkind):
    """a rational argument (sigma, cut-off, time step, period) as a float - or, where it is a whole number, as the int
    or numpy scalar a caller may equally pass"""
    if q[1] == 1 and nkind == 1:
        return int(q[0])
    if nkind == 2:
        return np.float64(q[0] / q[1])
    return q[0] / q[1]


def frozen(ss, cond):
    """what a call must leave as it found it"""
    return [(sn.positions.copy(), np.array(sn.hmatrix, copy=True), np.array(sn.boxbounds, copy=True)) for sn in ss.snapshots], \
        np.array(cond, copy=True)


def unchanged(ss, cond, before):
    fr, c0 = before
    return all(np.array_equal(sn.positions, p) and np.array_equal(sn.hmatrix, h) and np.array_equal(sn.boxbounds, b)
               for sn, (p, h, b) in zip(ss.snapshots, fr)) and np.array_equal(np.asarray(cond), c0)


def blur_call(gaussian_blurring, ss, cond, ng, sig, ppp, cut, outputfile="", ngkind=0, pkind=0, nkind=0):
    """sig, cut: rationals [n, d].  Returns (grid positions, values, exception)."""
    try:
        nga = render_ngrids(ng, ngkind)
        if list(sig) == [2, 1] and list(cut) == [6, 1] and all(ppp) and not outputfile:
            gp, gv = gaussian_blurring(ss, cond, nga)        # documented defaults
        else:
            pa = render_mask(ppp, pkind, three=(ngkind == 1))
            gp, gv = gaussian_blurring(ss, cond, nga, sigma=render_number(sig, nkind), ppp=pa,
                                       gaussian_cut=render_number(cut, (nkind + 1) % 3), outputfile=outputfile)
        return np.asarray(gp), np.asarray(gv), None
    except Exception as e:  # the library failing on a valid input is a violation
        return None, None, e


def bump(chk, key, n=1):
    chk.extra[key] = chk.extra.get(key, 0) + n


def replay_blur(chk, case, lib, rng, trace, ranks, tmp=None):
    gaussian_blurring = lib["gaussian_blurring"]
    ng, Hs, bs = case["ng"], case["Hs"], case["bs"]
    d, F = len(ng), len(case["pos"])
    N = len(case["pos"][0])
    # every frame carries its own cell and its own box bounds (two independent attributes of a frame)
    ss = snapshots([snapshot(f, case["pos"][f], Hs[f], bs[f]) for f in range(F)])
    brief = {k: case[k] for k in ("m", "ng", "Hs", "bs", "ppp", "pos", "sig", "cut")}
    P = int(np.prod(ng))
    h = crc(brief)
    kinds = dict(ngkind=h % len(NG_KINDS), pkind=(h // 5) % len(PPP_KINDS), nkind=(h // 20) % len(NUM_KINDS))
    how = {"ngrids": NG_KINDS[kinds["ngkind"]], "ppp": PPP_KINDS[kinds["pkind"]], "sigma": NUM_KINDS[kinds["nkind"]]}
    for rank in ranks:
        kind = BLUR_KINDS[crc(brief, rank) % len(BLUR_KINDS)]
        cond = cond_array(rng, F, N, d, rank, kind)
        before = frozen(ss, cond)
        gp, gv, err = blur_call(gaussian_blurring, ss, cond, ng, case["sig"], case["ppp"], case["cut"], **kinds)
        if err is not None:
            chk.violation(f"raises:{type(err).__name__}", dict(brief, rank=rank, cond_kind=kind, rendered=how, error=str(err), full=case),
                          finding_key="gaussian_blurring:flat-index")
            return
        if gp.shape != (F, P, d) or gv.shape != (F, P) + (d,) * rank:
            chk.violation("GridShape", dict(brief, rank=rank, obs_shape=[list(gp.shape), list(gv.shape)], full=case))
            return
        if not unchanged(ss, cond, before):
            chk.violation("BlurInputUnchanged", dict(brief, rank=rank, cond_kind=kind, full=case))
            return
        bad = None
        nties = 0
        if rank == ranks[0]:
            # the returned grids go to the trace specification (frame cursor), which names what is wrong with them; where
            # a grid is not the one the model filed for the frame, the values (taken at other points) are not compared
            trace.append(dict(open_record(ng, bs), ctx=brief))
            grids_ok = True
            for f in range(F):
                rec = grid_record(ng, gp[f])
                rec["ctx"] = dict(brief, frame=f, bounds_of_the_frame=bs[f], rendered=how, full=case)
                trace.append(rec)
                grids_ok = grids_ok and rec["exact"] == 1 and rec["M"] == case["M"] and rec["obs"] == case["grids"][f]
            if not grids_ok:
                bump(chk, "blur_cases_left_to_the_trace_specification_because_of_their_grid")
                return
        for f in range(F):
            env = {j + 1: np.asarray(cond[f, j], dtype=float) for j in range(N)}
            for s in range(P):
                sl = case["slots"][s]
                fr = sl["fr"][f]
                if fr["amb"]:
                    nties += 1
                    continue
                lo = realeval.ev(fr["lo"], env)
                if close_arr(gv[f, s], lo):
                    continue
                if fr["nedge"]:
                    hi = realeval.ev(fr["hi"], env)
                    if close_arr(gv[f, s], hi):
                        continue
                    if not case["exactgrid"] or fr["nedge"] >= 2:
                        # a distance equal to the cut-off on an inexact grid is float-fragile; with several particles exactly
                        # on the cut-off the specification gives the two uniform outcomes (none / all of them inside) only, and
                        # a mixed outcome (the minimum image goes through the inexact inverse of a non-dyadic cell, which can
                        # nudge ONE of the distances) is admissible too: a tie, never a violation
                        nties += 1
                        continue
                bad = {"frame": f, "slot": s, "point": sl["pt"], "observed": np.asarray(gv[f, s]).tolist(),
                       "expected": np.asarray(lo).tolist() if np.ndim(lo) else float(lo), "n_inside": fr["nin"],
                       "n_on_cutoff": fr["nedge"], "cond_kind": kind, "rendered": how}
                break
            if bad:
                break
        for _ in range(nties):
            chk.tie()
        if bad:
            chk.violation("GaussianSum", dict(brief, rank=rank, **bad, full=case), finding_key="gaussian_blurring:flat-index")
            return
        count_kind(chk, "blur", kind)
    if tmp and sum(ng) % 4 == 0:      # the saved arrays are the returned arrays
        base = os.path.join(tmp, "blur")
        gp2, gv2, err = blur_call(gaussian_blurring, ss, cond, ng, case["sig"], case["ppp"], case["cut"], outputfile=base, **kinds)
        try:
            same = err is None and np.array_equal(np.load(base + "_positions.npy"), gp2) and \
                np.array_equal(np.load(base + "_properties.npy"), gv2) and np.array_equal(gp2, gp) and np.array_equal(gv2, gv)
        except Exception:
            same = False
        if not same:
            chk.violation("BlurOutputFile", dict(brief, error=str(err)))
            return
    for k, v in how.items():
        bump(chk, f"blur_{k}_rendered_as_{v.replace(' ', '_')}")
    for f in range(1, F):
        bump(chk, "blur_frame_transitions_cell_%s_bounds_%s" % (
            "same" if Hs[f] == Hs[f - 1] else "changed", "same" if bs[f] == bs[f - 1] else "changed"))
    chk.ok(("blur", str(brief)), sample={"gaussian_blurring": brief, "slots": P, "ranks": list(ranks), "rendered": how})
    bump(chk, "blur_slot_values_compared", P * F * len(ranks))


# --------------------------------------------------------------------------
# spatial_average
# --------------------------------------------------------------------------

def replay_spatial(chk, case, lib, tmp):
    spatial_average = lib["spatial_average"]
    F, N, rank, d = case["F"], case["N"], case["rank"], case["d"]
    shape = (F, N) + (d,) * rank
    # the representation of the property: 0/1 flags as a bool array, numbers in one of the real kinds
    kind = "bool" if case["kind"] == "bool" else REAL_KINDS[crc(case["file"], case["nmax"], rank, d) % len(REAL_KINDS)]
    prop, rtol = render(case["prop"], shape, kind)
    path = os.path.join(tmp, "nb.dat")
    write_neighbor_file(path, case["rows"])
    before = prop.copy()
    small = {k: v for k, v in case.items() if k != "exp"}
    small["dtype"] = kind
    try:
        if case["nmax"] == 30:
            out = spatial_average(prop, path)            # default Nmax
        else:
            out = spatial_average(prop, path, Nmax=case["nmax"])
    except Exception as e:
        chk.violation(f"raises:{type(e).__name__}", dict(small, error=str(e), full=case))
        return
    out = np.asarray(out)
    exp = np.array([[[q[0] / q[1] for q in pi] for pi in fr] for fr in case["exp"]]).reshape(shape)
    if out.shape != shape:
        chk.violation("SpatialShape", dict(small, obs_shape=list(out.shape), full=case))
        return
    if not np.array_equal(prop, before):
        chk.violation("SpatialInputUnchanged", dict(small, full=case))
        return
    for f in range(F):
        if not close_arr(out[f], exp[f], rtol=rtol, atol=rtol):
            chk.violation("SpatialMean", dict(small, frame=f, observed=out[f].tolist(), expected=exp[f].tolist(), full=case))
            return
    if rank == 0:                     # complex scalars (e.g. order parameters): the same rationals times 1 + 2i
        try:
            cprop = np.array(case["prop"], dtype=float).reshape(shape) * (1 + 2j)
            if kind == "float32":
                cprop = cprop.astype(np.complex64)
            outc = np.asarray(spatial_average(cprop, path, Nmax=case["nmax"]))
            okc = close_arr(outc, exp * (1 + 2j), rtol=rtol, atol=rtol)
        except Exception:
            okc = False
        if not okc:
            chk.violation("SpatialMean(complex)", dict(small, full=case))
            return
    if (N + F + rank) % 3 == 0:       # the saved array is the returned array
        outp = os.path.join(tmp, "sa_out.npy")
        try:
            out2 = spatial_average(prop, path, Nmax=case["nmax"], outputfile=outp)
            same = np.array_equal(np.load(outp), out2) and np.array_equal(out2, out)
        except Exception:
            same = False
        if not same:
            chk.violation("SpatialOutputFile", dict(small, full=case))
            return
    count_kind(chk, "spatial", kind)
    per = [max(len(r) for r in fr) for fr in case["file"][:F]]
    if len(set(per)) > 1:
        bump(chk, "spatial_calls_whose_frames_differ_in_largest_coordination_number")
    if 0 in per and F > 1:
        bump(chk, "spatial_calls_with_a_frame_that_lists_nothing")
    if any([r[0] for r in fr] != sorted(r[0] for r in fr) for fr in case["rows"]):
        chk.extra["spatial_files_with_rows_out_of_id_order"] = chk.extra.get("spatial_files_with_rows_out_of_id_order", 0) + 1
    chk.ok(("spatial", json.dumps(case["rows"]), case["nmax"], rank, d, case["kind"]),
           nontrivial=any(len(r) for fr in case["file"] for r in fr),
           sample={"spatial_average": {k: case[k] for k in ("N", "F", "nmax", "rank", "rows")}})


# --------------------------------------------------------------------------
# time_average
# --------------------------------------------------------------------------

WINDOW_REAL_KINDS = ("float64", "int64", "int32", "float32", "readonly", "strided", "fortran")


def window_inputs(case, kind=None):
    """returns (snapshots, property array, rtol); kind: representation of the property array"""
    T, N, C = case["T"], case["N"], case["C"]
    # the frames of the series differ in every attribute but the number of particles (positions, cell, bounds, timestep):
    # the window mean is a function of the property and the timesteps alone
    ss = snapshots([snapshot(case["ts"][f], [[0.25 * f + i, 0.5 * i - f] for i in range(N)], [[4 + f, 0], [f % 3 - 1, 5 + f % 2]],
                             [[-f, 4], [f % 2, 5 + f]]) for f in range(T)])
    if C == 2:
        p = np.array(case["prop"], dtype=float)          # [T, N, 2]: real and imaginary part
        prop = p[:, :, 0] + 1j * p[:, :, 1]
        if kind == "complex64":
            return ss, prop.astype(np.complex64), 2e-6
        return ss, prop, 1e-9
    vals = [[pi[0] for pi in fr] for fr in case["prop"]]
    prop, rtol = render(vals, (T, N), kind or "float64")
    return ss, prop, rtol


def has_undef(case):
    return any(u for fr in case.get("undef", []) for u in fr)


def window_kind(case):
    if case.get("kind") == "bool":
        return "bool"
    if has_undef(case):          # undefined entries are rendered as NaN: floating-point representations only
        return "complex128" if case["C"] == 2 else ("float64", "strided", "fortran")[crc(case["ts"], case["period"]) % 3]
    if case["C"] == 2:
        return ("complex128", "complex128", "complex64")[crc(case["ts"], case["period"]) % 3]
    return WINDOW_REAL_KINDS[crc(case["ts"], case["period"], case["N"]) % len(WINDOW_REAL_KINDS)]


def replay_window(chk, case, lib):
    time_average = lib["time_average"]
    kind = window_kind(case)
    ss, prop, rtol = window_inputs(case, kind)
    undef = has_undef(case)
    if undef:
        prop = np.array(prop, copy=True) if kind in ("float64", "complex128") else prop
        for f, fr in enumerate(case["undef"]):
            for i, u in enumerate(fr):
                if u:
                    prop[f, i] = np.nan
    nk = crc(case["ts"], case["period"]) % len(NUM_KINDS)
    period = render_number(case["period"], nk)           # whole numbers also as int / numpy scalar
    dt = render_number(case["dt"], (nk + 1) % len(NUM_KINDS))
    brief = {k: case[k] for k in ("m", "T", "N", "C", "kind", "ts", "dt", "period", "w")}
    brief["dtype"] = kind
    brief["period_rendered_as"] = type(period).__name__
    brief["undefined_entries"] = [[f, i + 1] for f, fr in enumerate(case.get("undef", [])) for i, u in enumerate(fr) if u]
    try:
        res, mid = time_average(ss, prop, time_period=period, dt=dt)
    except Exception as e:
        chk.violation(f"raises:{type(e).__name__}", dict(brief, error=str(e), full=case))
        return
    res, mid = np.asarray(res), np.asarray(mid)
    rows = res.shape[0]
    if rows not in case["rows"] or res.shape[1:] != (case["N"],) or mid.shape != (rows,):
        chk.violation("WindowLength", dict(brief, admissible_rows=case["rows"], obs_shape=list(res.shape),
                                           obs_index_shape=list(mid.shape), full=case))
        return
    for n in range(rows):
        e = case["exp"][n]
        if int(mid[n]) != mid[n] or int(mid[n]) not in e["centre"]:
            chk.violation("WindowCentre", dict(brief, n=n, admissible=e["centre"], observed=mid.tolist(), full=case),
                          finding_key="time_average:centre")
            return
        m = np.array([[q[0] / q[1] for q in pi] for pi in e["mean"]])
        expv = m[:, 0] + 1j * m[:, 1] if case["C"] == 2 else m[:, 0]
        dfn = np.array(e.get("def", [1] * case["N"]), dtype=bool)
        if undef:
            # a window is undefined (NaN) for a particle iff it contains one of its undefined frames
            if not np.array_equal(~np.isnan(np.asarray(res[n])), dfn):
                chk.violation("WindowMean:UndefinedIsLocal", dict(brief, n=n, defined_expected=dfn.astype(int).tolist(),
                                                                  observed=str(res[n].tolist()), full=case))
                return
        if not close_arr(np.asarray(res[n])[dfn], expv[dfn], rtol=rtol, atol=rtol):
            chk.violation("WindowMean", dict(brief, n=n, expected=str(expv.tolist()), observed=str(res[n].tolist()), full=case))
            return
    count_kind(chk, "window", kind)
    chk.ok(("window", json.dumps(brief)), sample={"time_average": brief, "rows": rows, "centres": mid.tolist()})


# --------------------------------------------------------------------------
# direction B: generators
# --------------------------------------------------------------------------

def bounding_box(H, lo):
    """box bounds of a LAMMPS box with cell H (lower triangular, scaled integers) and origin lo"""
    d = len(H)
    L = [H[i][i] for i in range(d)]
    if d == 2:
        xy = H[1][0]
        return [[lo[0] + min(0, xy), lo[0] + L[0] + max(0, xy)], [lo[1], lo[1] + L[1]]]
    xy, xz, yz = H[1][0], H[2][0], H[2][1]
    return [[lo[0] + min(0, xy, xz, xy + xz), lo[0] + L[0] + max(0, xy, xz, xy + xz)],
            [lo[1] + min(0, yz), lo[1] + L[1] + max(0, yz)], [lo[2], lo[2] + L[2]]]


def rand_cell(rng, d, S, lmin, lmax, tilt_p=0.5):
    L = [rng.randint(lmin * S, lmax * S) for _ in range(d)]
    H = [[0] * d for _ in range(d)]
    for i in range(d):
        H[i][i] = L[i]
    if rng.random() < tilt_p:
        for i in range(d):
            for j in range(i):
                H[i][j] = rng.randint(-(H[j][j] // 2), H[j][j] // 2)
    lo = [rng.randint(-3 * S, 3 * S) for _ in range(d)]
    return H, bounding_box(H, lo), lo


CELL_STEPS = ("same", "lengths", "tilt")
BOUNDS_STEPS = ("same", "shifted")


def next_frame(rng, d, S, prev, cstep, bstep):
    """the next frame of a trajectory: its cell and its bounds are chosen independently of each other.
    cstep: 'same' | 'lengths' (other edge lengths, same tilts) | 'tilt' (same lengths, other tilts) | 'new';
    bstep: 'same' (the previous bounds, verbatim) | 'shifted' (origin moved, same lengths) | 'box' (the bounding box
    of the new cell at a new origin, as LAMMPS writes it)"""
    H0, b0 = prev
    H = [row[:] for row in H0]
    if cstep == "lengths":
        while H == H0:
            for i in range(d):
                if rng.random() < 0.7:
                    H[i][i] = rng.randint(3 * S, 8 * S)
    elif cstep == "tilt":
        while H == H0:
            for i in range(d):
                for j in range(i):
                    H[i][j] = rng.randint(-(H[j][j] // 2), H[j][j] // 2)
    elif cstep == "new":
        H = rand_cell(rng, d, S, 3, 8)[0]
    if bstep == "same":
        b = [r[:] for r in b0]
    elif bstep == "shifted":
        t = [0] * d
        while not any(t):
            t = [rng.randint(-4 * S, 4 * S) for _ in range(d)]
        b = [[r[0] + t[k], r[1] + t[k]] for k, r in enumerate(b0)]
    elif bstep == "nudged":          # the origin creeps by one or two units (a box far from the origin: relative change ~1e-6)
        t = [0] * d
        while not any(t):
            t = [rng.randint(-2, 2) for _ in range(d)]
        b = [[r[0] + t[k], r[1] + t[k]] for k, r in enumerate(b0)]
    else:
        b = bounding_box(H, [rng.randint(-3 * S, 3 * S) for _ in range(d)])
    return H, b


def gen_blur(rng, lib, ncalls, trace, ctx, chk=None):
    """random scaled-integer trajectories -> real code.  Every frame has its own cell and its own bounds, two independent
    attributes: the first twelve calls go through (same cell | other lengths | other tilt) x (same bounds | origin shifted at
    the same lengths) in 2-D and 3-D, the others draw every step at random (incl. whole new boxes, gsd-style bounds =
    extent of the particles, and frames that repeat the previous positions).  'blur_open' / 'grid' records carry the
    discrete observation (the trace spec holds the frame cursor), 'blur' records ask it for the expected terms"""
    pending = {}
    plans = [(d, c, b) for d in (2, 3) for c in CELL_STEPS for b in BOUNDS_STEPS]
    for call in range(ncalls):
        if call < len(plans):
            d, c0, b0 = plans[call]
            F = 2 + (call % 3 == 1)
            steps = [(c0, b0)] + [(rng.choice(CELL_STEPS), rng.choice(BOUNDS_STEPS)) for _ in range(F - 2)]
            rng.shuffle(steps)
        else:
            d = rng.choice([2, 2, 3])
            F = rng.choice([1, 2, 2, 3])
            steps = [(rng.choice(CELL_STEPS + ("new", "new")), rng.choice(BOUNDS_STEPS + ("box", "box"))) for _ in range(F - 1)]
            if call % 5 == 2:
                # a box far from the origin whose bounds creep from frame to frame: nearly equal, never equal (a grid reused
                # under a TOLERANCE on the bounds would be the grid of another frame)
                F = 3
                steps = [("same", "nudged"), (rng.choice(("same", "tilt")), "nudged")]
        S = 10 if d == 2 else 2
        ng = [rng.randint(2, 7 if d == 2 else 5) for _ in range(d)]
        if rng.random() < 0.15:
            ng[rng.randrange(d)] = 1
        N = rng.randint(4, 14)
        H, b, _ = rand_cell(rng, d, S, 3, 8)
        if any(bs_ == "nudged" for _, bs_ in steps):
            far = [rng.choice([-1, 1]) * rng.randint(200000, 400000) for _ in range(d)]
            b = [[r[0] + far[k], r[1] + far[k]] for k, r in enumerate(b)]
        frames = [(H, b)]
        for cstep, bstep in steps:
            frames.append(next_frame(rng, d, S, frames[-1], cstep, bstep))
        pos = []
        for f, (H, b) in enumerate(frames):
            if f and call >= len(plans) and rng.random() < 0.25:
                pos.append([p[:] for p in pos[-1]])          # the particles did not move; the cell / the bounds may have
            else:
                pos.append([[b[k][0] + rng.randint(-S, (b[k][1] - b[k][0]) + S) for k in range(d)] for _ in range(N)])
        ppp = [rng.randint(0, 1) for _ in range(d)]
        if call % 2:           # unwrapped coordinates: particles displaced by -2..3 whole cell vectors along periodic axes
            for f in range(F):
                for p in pos[f]:
                    for k in range(d):
                        if ppp[k]:
                            n = rng.randint(-2, 3)
                            for x in range(d):
                                p[x] += n * frames[f][0][k][x]
        if call >= len(plans) and call % 4 == 0:       # (calls without unwrapped coordinates)
            # bounds as the gsd reader sets them: the extent of the particles of the frame (the cell is the box)
            ext = [[[min(p[k] for p in pos[f]), max(p[k] for p in pos[f])] for k in range(d)] for f in range(F)]
            if all(r[1] > r[0] for e in ext for r in e):
                frames = [(frames[f][0], ext[f]) for f in range(F)]
        sig = rng.choice([[1, 2], [1, 1], [3, 2], [2, 1]])
        cut = [rng.randint(2, 8), 2]
        cut = [cut[0] // 2, 1] if cut[0] % 2 == 0 else cut
        rank = rng.randint(0, 2)
        kind = rng.choice(BLUR_KINDS)
        cond = cond_array(rng, F, N, d, rank, kind)
        Hs, bs = [fr[0] for fr in frames], [fr[1] for fr in frames]
        ss = snapshots([snapshot(f, (np.array(pos[f], dtype=float) / S).tolist(), (np.array(Hs[f], dtype=float) / S).tolist(),
                                 (np.array(bs[f], dtype=float) / S).tolist()) for f in range(F)])
        kinds = dict(ngkind=call % len(NG_KINDS), pkind=(call // 2) % len(PPP_KINDS), nkind=call % len(NUM_KINDS))
        before = frozen(ss, cond)
        gp, gv, err = blur_call(lib["gaussian_blurring"], ss, cond, ng, sig, ppp, cut, **kinds)
        brief = {"ng": ng, "Hs": Hs, "bs": bs, "S": S, "ppp": ppp, "sig": sig, "cut": cut,
                 "N": N, "rank": rank, "cond_kind": kind,
                 "rendered": {"ngrids": NG_KINDS[kinds["ngkind"]], "ppp": PPP_KINDS[kinds["pkind"]], "sigma": NUM_KINDS[kinds["nkind"]]}}
        if err is not None:
            ctx.append(("raise", f"raises:{type(err).__name__}", dict(brief, pos=pos, error=str(err))))
            continue
        if gp.shape != (F, int(np.prod(ng)), d) or gv.shape != (F, int(np.prod(ng))) + (d,) * rank:
            ctx.append(("raise", "GridShape", dict(brief, obs_shape=[list(gp.shape), list(gv.shape)])))
            continue
        if not unchanged(ss, cond, before):
            ctx.append(("raise", "BlurInputUnchanged", dict(brief, pos=pos)))
            continue
        if chk is not None:
            for f in range(1, F):
                bump(chk, "blur_frame_transitions_cell_%s_bounds_%s" % (
                    "same" if Hs[f] == Hs[f - 1] else "changed", "same" if bs[f] == bs[f - 1] else "changed"))
        trace.append(dict(open_record(ng, bs), ctx=brief))
        for f in range(F):
            g = grid_record(ng, gp[f], scale=S)
            g["ctx"] = dict(brief, frame=f, bounds_of_the_frame=bs[f])
            trace.append(g)
            rid = len(pending) + 1
            trace.append({"op": "blur", "id": rid, "S": S, "H": Hs[f], "ppp": ppp,
                          "pos": pos[f], "sig": sig, "cut": cut, "ctx": dict(brief, frame=f)})
            pending[rid] = (gv[f], np.asarray(cond[f], dtype=float), dict(brief, pos=pos[f], frame=f))
    return pending


def gen_spatial(rng, lib, ncalls, trace, tmp, ctx, chk=None):
    for call in range(ncalls):
        F = rng.randint(1, 4)
        rank = rng.randint(0, 2)
        d = rng.choice([2, 3])
        long_lists = call % 4 == 3
        if long_lists:
            # cut-off style lists with more entries than the default Nmax = 30; counts and Nmax such that
            # 1 + (delivered count) divides 840 * 31 (the averages of multiples of 26040 are then integers)
            N = rng.randint(42, 48)
            cn_choices = [29, 34, 39, 41]
            nmax = rng.choice([30, 30, 200, 41, 39, 34, 29, 5])          # default, above all, at a count, between, far below
        else:
            N = rng.randint(4, 40)
            cnmax = rng.randint(1, 7)
            cn_choices = list(range(0, min(cnmax, N - 1) + 1))
            nmax = rng.choice([30, 30, 3, 5, 1, 7])
        file, lists = [], []
        for f in range(F + (1 if rng.random() < 0.2 else 0)):       # the file may hold more frames than the property
            fr = []
            # every frame has its own lists and its own largest coordination number (the reader's padded table changes
            # width from frame to frame); one frame in seven lists nothing at all
            if long_lists:
                frame_choices = rng.sample(cn_choices, rng.randint(1, len(cn_choices)))
            elif rng.random() < 0.15:
                frame_choices = [0]
            else:
                top = rng.randint(1, max(cn_choices))
                frame_choices = [c for c in cn_choices if c <= top]
            for i in range(N):
                cn = rng.choice(frame_choices)
                others = [j for j in range(1, N + 1) if j != i + 1]
                row = rng.sample(others, cn)
                if cn >= 2 and rng.random() < 0.05:
                    row[1] = row[0]            # a repeated entry counts twice
                fr.append(row)
            order = list(range(1, N + 1))
            if rng.random() < 0.6:
                rng.shuffle(order)             # rows of a frame in any order: the id column decides
            lists.append(fr)
            file.append(rows_of(fr, order))
        C = d ** rank
        shape = (F, N) + (d,) * rank
        kind = rng.choice(REAL_KINDS + ("bool",))
        if long_lists and kind in ("bool", "float32"):
            kind = "int64"
        oscale = K if kind == "bool" else 1       # 0/1 flags: the averages are fractions, recorded in units of 1/840
        if kind == "bool":
            vals = [[[rng.randint(0, 1) for _ in range(C)] for _ in range(N)] for _ in range(F)]
        elif long_lists:
            vals = [[[K * 31 * rng.randint(-20, 20) for _ in range(C)] for _ in range(N)] for _ in range(F)]
        else:
            vals = [[[K * rng.randint(-50, 50) for _ in range(C)] for _ in range(N)] for _ in range(F)]
        prop, _ = render(vals, shape, kind)
        path = os.path.join(tmp, f"nbB{call}.dat")
        write_neighbor_file(path, file)
        brief = {"N": N, "F": F, "nmax": nmax, "rank": rank, "d": d, "call": call, "dtype": kind,
                 "max_cn": max(len(r) for fr in lists for r in fr),
                 "max_cn_per_frame": [max(len(r) for r in fr) for fr in lists]}
        try:
            if nmax == 30 and call % 2:
                out = np.asarray(lib["spatial_average"](prop, path))          # documented default Nmax = 30
            else:
                out = np.asarray(lib["spatial_average"](prop, path, Nmax=nmax))
        except Exception as e:
            ctx.append(("raise", f"raises:{type(e).__name__}", dict(brief, file=file, error=str(e))))
            continue
        finally:
            os.unlink(path)
        if out.shape != shape:
            ctx.append(("raise", "SpatialShape", dict(brief, obs_shape=list(out.shape))))
            continue
        if chk is not None:
            count_kind(chk, "spatial", kind)
            per = brief["max_cn_per_frame"][:F]
            if len(set(per)) > 1:
                bump(chk, "spatial_calls_whose_frames_differ_in_largest_coordination_number")
            if 0 in per and F > 1:
                bump(chk, "spatial_calls_with_a_frame_that_lists_nothing")
            if brief["max_cn"] > 30:
                chk.extra["spatial_calls_with_more_than_30_listed_neighbours"] = \
                    chk.extra.get("spatial_calls_with_more_than_30_listed_neighbours", 0) + 1
        trace.append({"op": "sa_open", "nmax": nmax, "file": file, "ctx": brief})
        for f in range(F):
            obs, exact = to_int(out[f].reshape(N, C), oscale)
            trace.append({"op": "sa_frame", "nmax": nmax, "prop": vals[f], "obs": obs.tolist(), "oscale": oscale,
                          "exact": int(exact), "ctx": dict(brief, frame=f)})


def gen_window(rng, lib, ncalls, trace, ctx, chk=None):
    for call in range(ncalls):
        T = rng.randint(4, 30)
        N = rng.randint(1, 6)
        C = rng.choice([1, 2])
        dts = rng.choice([1, 2, 5, 100, 1000])
        dt = rng.choice([[1, 2], [1, 4], [1, 8], [3, 4], [1, 512], [5, 1]])
        if call % 3 == 2:      # decimal time steps (0.002, 0.001, 0.005 with dumps every 50..200 steps): the usual MD setting
            dts = rng.choice([50, 100, 200])
            dt = rng.choice([[1, 500], [1, 1000], [1, 200]])
        w_target = rng.randint(1, min(8, T - 1))
        m8 = 8 * w_target + (rng.choice([0, 0, 0, 0, 1, 4]) if call % 3 == 2 else rng.choice([0, 0, 1, 3, 4, 7]))
        num, den = dts * dt[0] * m8, dt[1] * 8
        g = math.gcd(num, den)
        period = [num // g, den // g]
        t0 = rng.randint(0, 5000)
        ts = [t0 + f * dts for f in range(T)]
        # int(period / interval) of a float quotient: where the exact quotient is an integer n, the window length n is
        # asserted only if the floating-point quotient of the rendered arguments is exactly n (DESIGN 3.3); a quotient
        # that lands just below n (0.3 / 0.1) is a float-fragile decision and is not asserted
        if m8 % 8 == 0:        # period = (m8 / 8) intervals
            qf = (period[0] / period[1]) / ((ts[1] - ts[0]) * (dt[0] / dt[1]))
            if qf != m8 // 8:
                ctx.append(("tie", "window-length-float-fragile", None))
                continue
        boolean = C == 1 and rng.random() < 0.25
        if boolean:            # 0/1 flags: means are fractions, recorded in units of 1/840 (w <= 8 divides 840)
            vals = [[[rng.randint(0, 1)] for _ in range(N)] for _ in range(T)]
        else:
            vals = [[[K * rng.randint(-50, 50) for _ in range(C)] for _ in range(N)] for _ in range(T)]
        oscale = K if boolean else 1
        case = {"T": T, "N": N, "C": C, "ts": ts, "prop": vals, "period": period, "kind": "bool" if boolean else "num"}
        kind = window_kind(case)
        ss, prop, _ = window_inputs(case, kind)
        brief = {"T": T, "N": N, "C": C, "ts": ts[:3], "dt": dt, "period": period, "dtype": kind}
        try:
            if dt == [1, 500]:     # the documented default time step
                res, mid = lib["time_average"](ss, prop, time_period=render_number(period, call % 3))
            else:
                res, mid = lib["time_average"](ss, prop, time_period=render_number(period, call % 3),
                                               dt=render_number(dt, (call // 3) % 3))
        except Exception as e:
            ctx.append(("raise", f"raises:{type(e).__name__}", dict(brief, error=str(e))))
            continue
        res, mid = np.asarray(res), np.asarray(mid)
        rows = int(res.shape[0])
        if res.ndim != 2 or res.shape[1] != N:
            ctx.append(("raise", "WindowLength", dict(brief, obs_shape=list(res.shape))))
            continue
        stacked = np.stack([res.real, res.imag], axis=-1)[:, :, :C] if rows else np.zeros((0, N, C))
        obs, exact = to_int(stacked, oscale)
        if C == 1 and rows and np.any(np.abs(res.imag) > 1e-9):
            exact = False
        if chk is not None:
            count_kind(chk, "window", kind)
        trace.append({"op": "window", "T": T, "ts": ts, "dt": dt, "period": period, "prop": vals, "rows": rows,
                      "centre": [int(x) for x in mid.tolist()], "obs": obs.tolist(), "oscale": oscale, "exact": int(exact),
                      "ctx": dict(brief, rows=rows, centres=[int(x) for x in mid.tolist()][:8])})


# --------------------------------------------------------------------------
# trace validation that resumes at the next call after a rejection
# --------------------------------------------------------------------------

def validate(chk, trace, label):
    """returns (rejections [(index, clause)], printed terms {id: exp})"""
    recs = [{k: v for k, v in r.items() if k != "ctx"} for r in trace]
    rejects, printed = [], {}
    offset = 0
    while offset < len(recs):
        r, rej = common.validate_trace("TraceCoarseGrain", recs[offset:])
        chk.add_tlc(r, f"TraceCoarseGrain {label}")
        for c in r.cases:
            printed[c["rec"]] = c["exp"]
        if rej is None:
            break
        idx, clause = rej
        if idx < 0:
            raise MachineryError("trace rejected without a record index")
        rejects.append((offset + idx, clause))
        if len(rejects) >= 12:
            break
        offset += idx + 1
        while offset < len(recs) and recs[offset]["op"] in ("sa_frame", "grid", "blur"):   # rest of the rejected call
            offset += 1
    return rejects, printed


def _lcm_den(rationals):
    m = 1
    for q in rationals:
        m = math.lcm(m, int(q[1]))
    return m


def spec_records(models):
    """Records written from the SPECIFICATION's own cases (what MC_CoarseGrain printed), not from anything the library
    returned: a two-frame trajectory whose frames have different bounds, a spatial case, a window case.  The binding
    self-test of the trace specification uses these only, so that it cannot be disturbed by a library that misbehaves."""
    out = {}
    for c in models["blur"].cases:
        if len(c["bs"]) == 2 and c["bs"][0] != c["bs"][1] and len(c["slots"]) >= 4 and min(c["ng"]) >= 2:
            out["blur"] = [open_record(c["ng"], c["bs"])] + \
                [{"op": "grid", "M": c["M"], "obs": c["grids"][f], "exact": 1} for f in range(2)]
            break
    for c in models["spatial"].cases:
        if c["F"] >= 2 and c["file"][0] != c["file"][1] and any(len(r) for r in c["file"][0]):
            recs = [{"op": "sa_open", "nmax": c["nmax"], "file": c["rows"]}]
            for f in range(c["F"]):
                k = _lcm_den([q for pi in c["exp"][f] for q in pi])
                recs.append({"op": "sa_frame", "nmax": c["nmax"], "prop": c["prop"][f], "oscale": k, "exact": 1,
                             "obs": [[q[0] * (k // q[1]) for q in pi] for pi in c["exp"][f]]})
            out.setdefault("spatial", []).append(recs)
            if len(out["spatial"]) >= 4:
                break
    for c in models["window"].cases:
        if c["w"] >= 2 and len(c["exp"]) >= 2 and c["rows"][0] >= 2:
            rows = c["rows"][0]
            k = _lcm_den([q for e in c["exp"][:rows] for pi in e["mean"] for q in pi])
            out["window"] = [{"op": "window", "T": c["T"], "ts": c["ts"], "dt": c["dt"], "period": c["period"], "prop": c["prop"],
                              "rows": rows, "centre": [e["centre"][0] for e in c["exp"][:rows]], "oscale": k, "exact": 1,
                              "obs": [[[q[0] * (k // q[1]) for q in pi] for pi in e["mean"]] for e in c["exp"][:rows]]}]
            break
    if set(out) != {"blur", "spatial", "window"}:
        raise MachineryError(f"self-test: the model printed no suitable case for {sorted({'blur', 'spatial', 'window'} - set(out))}")
    return out


def corrupt_one_field(chk, models):
    """Binding self-test of the trace specification, on records written from the specification's own cases: (1) the
    records as the specification states them must be accepted; (2) with one field changed, the spec must reject exactly
    that record with the matching clause.  Anything else is a machinery error - and because no record of this test comes
    from the library, a library regression can never turn up here (it is reported by the checks proper, exit 1)."""
    import copy
    base = spec_records(models)
    clean = base["blur"] + [r for recs in base["spatial"] for r in recs] + base["window"]
    runs = [("clean", clean, None, None)]
    g = copy.deepcopy(base["blur"])
    g[1]["obs"][1], g[1]["obs"][2] = g[1]["obs"][2], g[1]["obs"][1]
    runs.append(("grid:two-slots-swapped", g, 1, {"XSlowest"}))
    g = copy.deepcopy(base["blur"])
    g[2]["obs"] = g[1]["obs"]                         # the second frame delivered with the grid of the first frame's bounds
    runs.append(("grid:kept-from-the-previous-frame", g, 2, {"GridSpansFrameBounds:grid-of-another-frame"}))
    g = copy.deepcopy(base["blur"])
    g[1]["obs"] = [[x + 1 for x in pt] for pt in g[1]["obs"]]
    runs.append(("grid:translated", g, 1, {"EquallySpacedSpanningBounds"}))
    sa = copy.deepcopy(base["spatial"][0])
    sa[-1]["obs"][0][0] += 1
    runs.append(("spatial:one-mean-changed", sa, len(sa) - 1, {"SpatialMean", "NeighbourFrameCursor"}))
    # the second frame's result delivered first (the cursor out of step).  Two frames with different lists can still
    # have equal means for particular values, so several of the specification's cases are tried: one must be rejected
    alts = []
    for recs in base["spatial"]:
        sa = copy.deepcopy(recs)
        sa[1]["prop"], sa[1]["obs"], sa[1]["oscale"] = sa[2]["prop"], sa[2]["obs"], sa[2]["oscale"]
        alts.append(sa)
    runs.append(("spatial:frames-out-of-step", alts, 1, {"NeighbourFrameCursor"}))
    w = copy.deepcopy(base["window"])
    w[0]["centre"][-1] += 2
    runs.append(("window:centre-moved", w, 0, {"WindowCentre"}))
    w = copy.deepcopy(base["window"])
    w[0]["obs"][0][0][0] += 1
    runs.append(("window:one-mean-changed", w, 0, {"WindowMean"}))

    def one(run):
        name, recs, idx, want = run
        if recs and isinstance(recs[0], list):        # alternatives: one of them must be rejected as wanted
            rej = None
            for alt in recs:
                r, rej = common.validate_trace("TraceCoarseGrain", alt)
                if rej is not None and rej[0] == idx and rej[1] in want:
                    return None
            return (name, rej)
        r, rej = common.validate_trace("TraceCoarseGrain", recs)
        if idx is None:
            return None if rej is None else (name, rej)
        return None if (rej is not None and rej[0] == idx and rej[1] in want) else (name, rej)
    with cf.ThreadPoolExecutor(max_workers=4) as ex:
        bad = [b for b in ex.map(one, runs) if b]
    if bad:
        raise MachineryError(f"TraceCoarseGrain rejected its own records or accepted / misjudged a corrupted one: {bad}")
    chk.extra["corrupted_records_rejected"] = len(runs) - 1
    chk.extra["selftest_records_from"] = "the specification's own cases (never from the library)"


def finding_key_for(clause):
    if clause in ("FlatIndexIsBijection", "XSlowest", "GridShape"):
        return "gaussian_blurring:flat-index"
    if clause == "WindowCentre":
        return "time_average:centre"
    return None


def settle_trace(chk, trace, rejects, tag):
    rejected = {i for i, _ in rejects}
    for i, clause in rejects:
        rec = {k: v for k, v in trace[i].items() if k not in ("obs", "prop", "file")}
        full = rec.get("ctx", {}).get("full")
        if full is not None:          # a direction-A record: the case it came from is stored for --replay
            rec["ctx"] = {k: v for k, v in rec["ctx"].items() if k != "full"}
        chk.violation("trace:" + clause, dict({"record": rec, "observed": trace[i].get("obs", trace[i].get("centre"))},
                                              **({"full": full} if full is not None else {})),
                      finding_key=finding_key_for(clause))
    for i, rec in enumerate(trace):
        if i in rejected or rec["op"] in ("sa_open", "blur", "blur_open"):
            continue
        chk.ok((tag, rec["op"], i), sample=None)


def compare_blur_terms(chk, pending, printed):
    for rid, (gv, cond, brief) in pending.items():
        if rid not in printed:
            continue          # the trace stopped before this record (a rejection was reported)
        exp = printed[rid]
        env = {j + 1: cond[j] for j in range(cond.shape[0])}
        bad = None
        for s, e in enumerate(exp):
            if e["amb"] or e["nedge"]:
                chk.tie()
                continue
            v = realeval.ev(e["lo"], env)
            if not close_arr(gv[s], v):
                bad = {"slot": s, "observed": np.asarray(gv[s]).tolist(),
                       "expected": np.asarray(v).tolist() if np.ndim(v) else float(v), "n_inside": e["nin"]}
                break
        if bad:
            chk.violation("GaussianSum", dict(brief, **bad), finding_key="gaussian_blurring:flat-index")
        else:
            chk.ok(("B-blur", rid), nontrivial=any(e["nin"] for e in exp))
            chk.extra["blur_slot_values_compared"] = chk.extra.get("blur_slot_values_compared", 0) + len(exp)


# --------------------------------------------------------------------------

def load_lib():
    common.import_lib()
    from PyMatterSim.utils.coarse_graining import gaussian_blurring, spatial_average, time_average
    return {"gaussian_blurring": gaussian_blurring, "spatial_average": spatial_average, "time_average": time_average}


def run_models(tier):
    base = {"Tier": tier}
    jobs = {
        "grid": lambda: run_tlc_sharded("MC_CoarseGrain", dict(constants=dict(base, Mode="grid", Gen=False),
                                                              invariants=GRID_INVS), nshards=2 if tier == "quick" else 4),
        "blur": lambda: run_tlc_sharded("MC_CoarseGrain", dict(constants=dict(base, Mode="blur", Gen=True),
                                                              invariants=BLUR_INVS + ["Emit"]), nshards=6 if tier == "quick" else 12),
        "spatial": lambda: run_tlc_sharded("MC_CoarseGrain", dict(constants=dict(base, Mode="spatial", Gen=True),
                                                                 invariants=SPATIAL_INVS + ["Emit"]), nshards=2 if tier == "quick" else 6),
        "window": lambda: run_tlc_sharded("MC_CoarseGrain", dict(constants=dict(base, Mode="window", Gen=True),
                                                                invariants=WINDOW_INVS + ["Emit"]), nshards=1 if tier == "quick" else 4),
    }
    def retry(f):
        # one retry when a TLC process died without a verdict (killed under memory pressure on a shared machine)
        r = f()
        return f() if (r.error and not r.violated) else r

    out = {}
    with cf.ThreadPoolExecutor(max_workers=4) as ex:
        futs = {k: ex.submit(retry, f) for k, f in jobs.items()}
        for k, fu in futs.items():
            out[k] = fu.result()
    return out


def replay_one(chk, case, lib, tmp, rng, trace):
    kind = case["m"]
    if kind == "blur":
        replay_blur(chk, case, lib, rng, trace, ranks=(0, 1, 2), tmp=tmp)
    elif kind == "spatial":
        replay_spatial(chk, case, lib, tmp)
    elif kind == "window":
        replay_window(chk, case, lib)
    else:
        raise MachineryError(f"unknown case kind {kind}")


def run(tier, replay=None):
    lib = load_lib()
    chk = Check("C16", tier)
    chk.rule = ("A: TLC runs the Visit / NextFrame / AvgFrame / Window machines of MC_CoarseGrain over the whole scope (clauses = invariants) and "
                "prints one case per finished behaviour (trajectories whose frames each have their own bounds and their own cell - two "
                "independent attributes: every combination of same cell / other lengths / other tilt with same bounds / shifted origin over "
                "consecutive frames, 2-D and 3-D; neighbour files with rows in any order and per-frame lists; real / complex / bool "
                "properties); each is rendered (arrays as float64 / int / bool / float32 / read-only / strided / Fortran; ngrids as int64 / "
                "int32 / read-only array; masks as int64 / int32 / strided / read-only; whole-number sigma, cut-off, period as "
                "float / int / numpy scalar) and replayed into gaussian_blurring (ranks 0-2, every frame, inputs left unchanged), "
                "spatial_average, time_average (series whose frames differ in positions, cell and bounds). Returned grid positions go "
                "to TraceCoarseGrain, which holds the frame cursor and decides them against the bounds of that frame (a grid that belongs to "
                "another frame of the trajectory is named as such). "
                "B: seeded random scaled-integer inputs through the real code; TraceCoarseGrain (file cursor, frame cursor = spec variables) "
                "decides grid order, neighbour averages per frame, window length / centre / mean, and prints the expected blur terms. "
                "The binding self-test of the trace specification (records with one field changed must be rejected with the matching "
                "clause) uses records written from the specification's own cases only. "
                "distinct = replayed cases + accepted trace records with a non-empty selection / neighbour list.")
    # "each grid point exactly once, x slowest" for ALL grid shapes: GridIndexLemma.tla, discharged by Apalache over
    # unbounded integers (the index the library used before its repair must be refuted)
    common.apalache_lemmas(chk, "GridIndexLemma", ["InRange", "Injective", "XSlowest"], ["WrongInjective"])
    chk.assumptions = ["float comparison at 1e-9 of values the spec gives exactly or as terms",
                       "a distance exactly equal to the cut-off may be counted or not (the statement does not say)",
                       "minimum-image ties of tilted cells that change the distance are skipped",
                       "number of reported windows T-w (code) or T-w+1 (all complete windows) both accepted",
                       "window length asserted where the floating-point quotient period/interval of the rendered arguments is exact (dyadic steps, and decimal steps whose quotient lands exactly on the integer); otherwise counted as a tie",
                       "a neighbour id listed twice counts twice; truncation to Nmax as specified by C05",
                       "rows of a neighbour-file frame may come in any order (the id column decides, C05)",
                       "float32 / complex64 inputs are compared at 2e-6 (results carry the input precision)"]
    tmp = common.scratch_dir("verif_c16_")
    rng = random.Random(common.SEED * 104729 + 16)
    try:
        if replay:
            stored = common.load_replay(replay)["case"]
            case = stored.get("full") or stored.get("record", {}).get("ctx", {}).get("full") or stored
            if "m" not in case:
                print(json.dumps(stored, indent=1)[:4000])
                print("trace-record replay: re-run ./check C16 quick with the same VERIF_SEED")
                return 0
            trace = []
            replay_one(chk, case, lib, tmp, rng, trace)
            rejects, _ = validate(chk, trace, "replay") if trace else ([], {})
            settle_trace(chk, trace, rejects, "A")
            for clause, c in chk.violations:
                print("clause:", clause)
                print(json.dumps({k: v for k, v in c.items() if k != "full"}, indent=1, default=str)[:3000])
            return 1 if chk.violations else 0

        # ---- model checking of the clauses, emission
        models = run_models(tier)
        for k, r in models.items():
            require_model_ok(r, f"MC_CoarseGrain {k}")
            chk.add_tlc(r, f"MC_CoarseGrain {k}")
            if k != "grid" and not r.cases:
                raise MachineryError(f"no cases emitted in mode {k}")
        chk.exhaustive = True
        # binding self-test of the trace specification on the specification's own cases (independent of the library)
        corrupt_one_field(chk, models)

        # ---- direction A
        traceA = []
        for k in ("blur", "spatial", "window"):
            for case in models[k].cases:
                replay_one(chk, case, lib, tmp, rng, traceA)
        rejects, _ = validate(chk, traceA, "A-grids")
        settle_trace(chk, traceA, rejects, "A")

        # ---- direction B
        traceB, ctx = [], []
        nb, ns, nw = (18, 40, 120) if tier == "quick" else (120, 400, 1500)
        pending = gen_blur(rng, lib, nb, traceB, ctx, chk)
        gen_spatial(rng, lib, ns, traceB, tmp, ctx, chk)
        gen_window(rng, lib, nw, traceB, ctx, chk)
        for kind, clause, c in ctx:
            if kind == "tie":
                chk.tie()
                continue
            chk.violation(clause, c, finding_key="gaussian_blurring:flat-index" if "ng" in c else None)
        rejects, printed = validate(chk, traceB, "B")
        settle_trace(chk, traceB, rejects, "B")
        compare_blur_terms(chk, pending, printed)
        chk.samples.append({"trace_record": {k: v for k, v in traceB[-1].items() if k not in ("prop", "obs", "ctx")}})
        return chk.finish()
    finally:
        shutil.rmtree(tmp, ignore_errors=True)
