"""X01 — growth of the specification beyond the listed properties.

Routines: utils/geometry.py (triangle_area, triangle_angle, lines_intersection, LineWithinSquare),
utils/funcs.py (kronecker, nidealfac, areafac, alpha2factor, moment_of_inertia, grid_gaussian,
Legendre_polynomials, Wignerindex), utils/fft.py (Filon_COS), static/geometric.py
(packing_capability_2d), utils/fitting.py (fits: abscissa grid and exact-data recovery).
(writer/lammps_writer.py is already specified by AuxIO.tla / C19: nothing added.)

Model: spec/Geometry.tla + MC_Geometry.tla and spec/Misc.tla + MC_Misc.tla, one TLC state per input of
one routine; the clauses are INVARIANTs (a violated one is exit 2).
Direction A: every printed state is replayed into the public routine (one implementation test per state).
Direction B: seeded random scaled-integer inputs, larger than TLC's scopes, run through the real code;
TraceGeometry.tla / TraceMisc.tla accept or reject the discrete observations (exit edge of
LineWithinSquare, point-on-both-lines, index order of Wignerindex, layout and exact values of the inertia
tensor, raise / length behaviour of Filon_COS, neighbour-file cursor of packing_capability_2d) and print
the expected Real terms of the real-valued ones.
Python only renders inputs, calls the API, projects results, evaluates the generic term grammar, compares.
"""
import concurrent.futures as cf
import json
import math
import os
import random
import shutil
import warnings

import numpy as np

from . import common, realeval
from .common import Check, MachineryError, require_model_ok, run_tlc_sharded, validate_trace_all

ev = realeval.ev
close = realeval.close
HEADER = "id     cn     neighborlist\n"
KEY_START = "LineWithinSquare:start-corner"

KEY_FILON = "Filon_COS:step-rounded"

GEO_INVS = ["InvHeronIsCross", "InvRadicandOrtho", "InvClosesWithoutPbc", "InvTriPermutation",
            "InvCosInRange", "InvAnglesSumToPi", "InvRightAngle", "InvOnBothLines", "InvSwapSymmetric",
            "InvQuadConvex", "InvExitAdjacent", "InvExitSamePoint", "InvExitOnBoundaryAndRay", "InvOneWrapEdge",
            "InvAtanAgrees", "InvAtanDisagrees", "Emit"]
MISC_INVS = ["InvTables", "InvMoiSymmetric", "InvMoiTrace", "InvMoiAxisPerm", "InvMoiDiagonal", "InvMoiPointOrder",
             "InvLegIsP2", "InvWigIndex", "InvWigSymmetric", "InvWigOrthogonal", "InvFilZeroIsSimpson",
             "InvFilSimpsonExact", "InvFilEvenNeverRaises", "InvFilKindsRaise", "InvFilKeptOdd", "InvPkPairsOnce",
             "InvPkMutualSymmetric", "InvPkTouching", "InvPkTouchingNonVacuous", "Emit"]
# (module, Mode, shards quick, shards thorough); the kinds of a module are grouped so that few JVMs start
JOBS = [("MC_Geometry", "tri2", 4, 8), ("MC_Geometry", "tri3", 4, 16), ("MC_Geometry", "small", 2, 8),
        ("MC_Geometry", "sq", 3, 8), ("MC_Misc", "all", 4, 12)]


class Lib:
    pass


def load_lib():
    L = Lib()
    from PyMatterSim.utils import geometry, funcs, fft
    from PyMatterSim.static.geometric import packing_capability_2d
    from PyMatterSim.utils.fitting import fits
    L.geo, L.funcs, L.fft = geometry, funcs, fft
    L.packing = packing_capability_2d
    L.fits = fits
    return L


def quiet(fn, *a, **k):
    """call a library routine; numpy warnings (nan from arccos / sqrt) are part of the observable value"""
    with warnings.catch_warnings():
        warnings.simplefilter("ignore")
        with np.errstate(all="ignore"):
            return fn(*a, **k)


def rat(q):
    return q[0] / q[1]


def isnan(x):
    try:
        return bool(np.isnan(x))
    except TypeError:
        return False


def same(a, b):
    """bitwise-equal results of two identical calls (nan equals nan)"""
    a, b = np.asarray(a, dtype=float), np.asarray(b, dtype=float)
    return a.shape == b.shape and bool(np.all((a == b) | (np.isnan(a) & np.isnan(b))))


# --------------------------------------------------------------------------
# direction A: replay of the printed states
# --------------------------------------------------------------------------

def tri_check(obs, adm_vals):
    """adm_vals: list of (sign, expected or None, tol_zero).  -> 'ok' | 'tie' | 'bad'"""
    verdict = "bad"
    for sign, exp, ztol in adm_vals:
        if sign < 0:
            if isnan(obs):
                return "ok"
        elif sign == 0:
            if isnan(obs) or abs(obs) <= ztol:
                verdict = "tie"
        else:
            if not isnan(obs) and close(float(obs), exp):
                return "ok"
    return verdict


def replay_tri(chk, case, L, F):
    H = np.array(case["H"], dtype=float)
    P = np.array(case["P"], dtype=float)
    ppp = np.array(case["ppp"])
    d = H.shape[0]
    brief = {k: case[k] for k in ("m", "H", "ppp", "P")}
    res = "ok"
    for scale in (1, 4, 10):
        Hs, Ps = H / scale, P / scale
        h0, p0 = Hs.copy(), Ps.copy()
        try:
            obs = quiet(L.geo.triangle_area, Ps, Hs, ppp)
            again = quiet(L.geo.triangle_area, Ps, Hs, ppp)
        except Exception as e:
            chk.violation(f"raises:{type(e).__name__}", dict(brief, scale=scale, error=str(e)))
            return
        if not (np.array_equal(h0, Hs) and np.array_equal(p0, Ps)) or not same(obs, again):
            chk.violation("tri:Purity", dict(brief, scale=scale))
            return
        vals = []
        for a in case["adm"]:
            env = {"s1": a["s2"][0], "s2": a["s2"][1], "s3": a["s2"][2], "S": scale}
            pmax = sum(math.sqrt(x) for x in a["s2"]) / scale
            vals.append((a["sign"], ev(F["tri_area"], env) if a["sign"] > 0 else None, 1e-6 * (1 + pmax * pmax)))
        v = tri_check(obs, vals)
        if v == "bad":
            chk.violation("tri:HeronOnWrappedSides", dict(brief, scale=scale, observed=float(obs), admissible=case["adm"],
                                                          expected=[x[1] for x in vals]))
            return
        if v == "tie":
            res = "tie"
        if d == 2 and list(case["ppp"]) == [1, 1] and scale == 1:      # documented default mask
            o2 = quiet(L.geo.triangle_area, Ps, Hs)
            if not same(o2, obs):
                chk.violation("tri:DefaultMask", dict(brief, observed=[float(obs), float(o2)]))
                return
    # relation on the code's own outputs: the order of the points is irrelevant (off ties, non-degenerate)
    if not case["tie"] and all(a["sign"] > 0 for a in case["adm"]):
        base = float(quiet(L.geo.triangle_area, P, H, ppp))
        for perm in ((1, 0, 2), (2, 1, 0), (1, 2, 0)):
            o = float(quiet(L.geo.triangle_area, P[list(perm)], H, ppp))
            if not close(o, base):
                chk.violation("tri:PermutationInvariant", dict(brief, perm=perm, observed=[base, o]))
                return
    if res == "tie":
        chk.tie()
    else:
        chk.ok(("tri", str(case["H"]), str(case["ppp"]), str(case["P"])), nontrivial=any(a["sign"] > 0 for a in case["adm"]),
               sample=dict(brief, adm=case["adm"]))


def replay_ang(chk, case, L, F):
    a, b, c = case["a"], case["b"], case["c"]
    brief = {"m": "ang", "a": a, "b": b, "c": c}
    fragile = False
    for S in (1, 3, 10):
        sides = {"a": a / S, "b": b / S, "c": c / S}
        calls = ((sides["b"], sides["c"], sides["a"]), (sides["a"], sides["c"], sides["b"]), (sides["a"], sides["b"], sides["c"]))
        obs = []
        for k, (x, y, z) in enumerate(calls):
            try:
                o = float(quiet(L.geo.triangle_angle, x, y, z))
            except Exception as e:
                chk.violation(f"raises:{type(e).__name__}", dict(brief, S=S, error=str(e)))
                return
            exp = ev(F["angle"], {"a": x, "b": y, "c": z})
            cf_ = case["closed"][k]
            degenerate = cf_ in ("flat", "zero")
            if degenerate and S != 1:
                fragile = True          # arccos at +-1 of an inexact quotient: nan or 1e-8, not asserted
                obs.append(None)
                continue
            if isnan(o) or not close(o, exp):
                chk.violation("ang:LawOfCosines", dict(brief, S=S, which="ABC"[k], observed=o, expected=exp))
                return
            if cf_ and not close(o, ev(F["closed"][cf_])):
                chk.violation("ang:ClosedForm", dict(brief, S=S, which="ABC"[k], observed=o, closed=cf_))
                return
            obs.append(o)
        if None not in obs and not close(sum(obs), ev(F["pi"])):
            chk.violation("ang:AnglesSumToPi", dict(brief, S=S, observed=obs))
            return
    if isinstance(a, int):      # integer arguments, as in the documented example
        o = float(quiet(L.geo.triangle_angle, a=a, b=b, c=c))
        if not close(o, ev(F["angle"], {"a": a, "b": b, "c": c})):
            chk.violation("ang:LawOfCosines", dict(brief, S="int", observed=o))
            return
    if fragile:
        chk.tie()
    chk.ok(("ang", a, b, c), sample=dict(brief, cos=case["cos"]))


def replay_lin(chk, case, L):
    A, B, C, E = (np.array(case[k]) for k in "ABCE")
    exp = [rat(case["pt"][0]), rat(case["pt"][1])]
    brief = {k: case[k] for k in ("m", "A", "B", "C", "E")}
    for scale, off in ((1, 0.0), (4, 0.0), (1, 2.5)):
        pts = [(X.astype(float) + off) / scale for X in (A, B, C, E)]
        before = [p.copy() for p in pts]
        try:
            o = np.asarray(quiet(L.geo.lines_intersection, *pts), dtype=float)
            o2 = np.asarray(quiet(L.geo.lines_intersection, *pts), dtype=float)
        except Exception as e:
            chk.violation(f"raises:{type(e).__name__}", dict(brief, scale=scale, error=str(e)))
            return
        if any(not np.array_equal(x, y) for x, y in zip(before, pts)) or not same(o, o2):
            chk.violation("lin:Purity", dict(brief, scale=scale))
            return
        e = [(exp[0] + off) / scale, (exp[1] + off) / scale]
        if o.shape != (2,) or not (close(o[0], e[0]) and close(o[1], e[1])):
            chk.violation("lin:CramerIntersection", dict(brief, scale=scale, offset=off, observed=o.tolist(), expected=e))
            return
    # integer arrays (as in the documented example) and the swap symmetries on the code's own outputs
    oi = np.asarray(quiet(L.geo.lines_intersection, A, B, C, E), dtype=float)
    if not (close(oi[0], exp[0]) and close(oi[1], exp[1])):
        chk.violation("lin:CramerIntersection", dict(brief, scale="int", observed=oi.tolist(), expected=exp))
        return
    for args in ((C, E, A, B), (B, A, C, E), (A, B, E, C)):
        os_ = np.asarray(quiet(L.geo.lines_intersection, *[x.astype(float) for x in args]), dtype=float)
        if not (close(os_[0], exp[0]) and close(os_[1], exp[1])):
            chk.violation("lin:SwapSymmetric", dict(brief, observed=os_.tolist(), expected=exp))
            return
    chk.ok(("lin", str(brief)), sample=dict(brief, pt=case["pt"]))


def sq_vectors(u):
    """renderings of vector = -u: float array (with both signs of a zero y component, which select
    arctan2 = +pi / -pi for a ray along -x) and an integer array"""
    out = [("float", np.array([-float(u[0]), -float(u[1])]))]
    if u[1] == 0:
        out.append(("float+0", np.array([-float(u[0]), 0.0])))
        out.append(("float-0", np.array([-float(u[0]), -0.0])))
    out.append(("int", np.array([-u[0], -u[1]])))
    return out


def replay_sq(chk, case, L):
    Q = [np.array(p, dtype=float) for p in case["Q"]]
    R0 = np.array(case["R0"], dtype=float)
    exp = [rat(case["pt"][0]), rat(case["pt"][1])]
    brief = {k: case[k] for k in ("m", "Q", "s", "R0", "u", "edges", "wrap")}
    key = KEY_START if case["wrap"] != [4] else None
    for scale in (1, 4):
        for name, vec in sq_vectors(case["u"]):
            P = [q / scale for q in Q]
            r0 = R0 / scale
            v = vec / scale if vec.dtype.kind == "f" else vec
            if vec.dtype.kind != "f" and scale != 1:
                continue
            before = [x.copy() for x in P] + [r0.copy(), v.copy()]
            try:
                o = np.asarray(quiet(L.geo.LineWithinSquare, P[0], P[1], P[2], P[3], r0, v), dtype=float)
                o2 = np.asarray(quiet(L.geo.LineWithinSquare, P[0], P[1], P[2], P[3], r0, v), dtype=float)
            except Exception as e:
                chk.violation(f"raises:{type(e).__name__}", dict(brief, scale=scale, error=str(e)), finding_key=key)
                return
            if any(not np.array_equal(x, y) for x, y in zip(before, P + [r0, v])) or not same(o, o2):
                chk.violation("sq:Purity", dict(brief, scale=scale, vector=name))
                return
            e = [exp[0] / scale, exp[1] / scale]
            if o.shape != (2,) or not np.all(np.isfinite(o)) or not (close(o[0], e[0]) and close(o[1], e[1])):
                chk.violation("sq:ExitPointOnBoundaryAndRay",
                              dict(brief, scale=scale, vector=name, vector_value=[float(x) for x in v],
                                   observed=o.tolist(), expected=e, atan_edges=case["atan"],
                                   note="ray leaves through edge(s) %s (edge k = P_k -> P_k+1)" % case["edges"]),
                              finding_key=key)
                return
    chk.ok(("sq", str(case["Q"]), str(case["R0"]), str(case["u"])), sample=dict(brief, pt=case["pt"]))


def replay_tab(chk, case, L):
    d = case["d"]
    for name in ("nidealfac", "areafac", "alpha2factor"):
        fn = getattr(L.funcs, name)
        want = case[name]
        try:
            o = fn(d)
            got = {"val": o}
        except ValueError:
            got = {"raises": "ValueError"}
        except Exception as e:
            got = {"raises": type(e).__name__}
        if "raises" in want:
            if got.get("raises") != want["raises"]:
                chk.violation(f"tab:{name}:ValueErrorOutsideTable", {"ndim": d, "observed": str(got)})
                return
        else:
            if "val" not in got or not close(float(got["val"]), rat(want["val"]), atol=1e-15, rtol=1e-15):
                chk.violation(f"tab:{name}", {"ndim": d, "observed": str(got), "expected": want["val"]})
                return
            if d == 3 and fn() != got["val"]:
                chk.violation(f"tab:{name}:DefaultIs3", {"observed": fn()})
                return
    for j, e in enumerate(case["kron"]):
        o = L.funcs.kronecker(d, j)
        if o != e or not isinstance(o, int):
            chk.violation("tab:kronecker", {"i": d, "j": j, "observed": o})
            return
    chk.ok(("tab", d), sample=case)


def replay_moi(chk, case, L):
    P = np.array(case["P"], dtype=float)
    m = case["mass"]
    brief = {"m": "moi", "P": case["P"], "mass": m}
    for scale in (1, 4):
        Ps = P / scale
        p0 = Ps.copy()
        try:
            flat = np.asarray(L.funcs.moment_of_inertia(Ps, m=m), dtype=float)
            mat = np.asarray(L.funcs.moment_of_inertia(Ps, m=m, matrix=True), dtype=float)
            flat2 = np.asarray(L.funcs.moment_of_inertia(Ps, m, False), dtype=float)
        except Exception as e:
            chk.violation(f"raises:{type(e).__name__}", dict(brief, error=str(e)))
            return
        if not np.array_equal(p0, Ps) or not same(flat, flat2):
            chk.violation("moi:Purity", brief)
            return
        ef = np.array([rat(q) for q in case["flat"]]) / scale ** 2
        em = np.array([[rat(q) for q in row] for row in case["matrix"]]) / scale ** 2
        if flat.shape != (6,) or not np.allclose(flat, ef, atol=1e-9, rtol=1e-9):
            chk.violation("moi:FlatLayout", dict(brief, scale=scale, observed=flat.tolist(), expected=ef.tolist()))
            return
        if mat.shape != (3, 3) or not np.allclose(mat, em, atol=1e-9, rtol=1e-9):
            chk.violation("moi:Matrix", dict(brief, scale=scale, observed=mat.tolist(), expected=em.tolist()))
            return
        if m == 1 and not same(L.funcs.moment_of_inertia(Ps), flat):
            chk.violation("moi:DefaultMass", brief)
            return
    chk.ok(("moi", str(case["P"]), m), nontrivial=bool(np.any(P)), sample=dict(brief, flat=case["flat"]))


def replay_gauss(chk, case, L):
    d = case["d"] / case["dd"]
    sg = rat(case["sg"])
    arr = np.array([d, -d, 0.0])
    a0 = arr.copy()
    o = np.asarray(L.funcs.grid_gaussian(arr, sg), dtype=float)
    exp = ev(case["val"])
    if not np.array_equal(arr, a0):
        chk.violation("gauss:Purity", case)
        return
    if o.shape != (3,) or not close(o[0], exp) or o[0] != o[1]:
        chk.violation("gauss:Value", dict(case, observed=o.tolist(), expected=exp))
        return
    if sg == 1 and not same(L.funcs.grid_gaussian(arr), o):
        chk.violation("gauss:DefaultSigma", case)
        return
    chk.ok(("gauss", case["d"], str(case["sg"])), sample={k: case[k] for k in ("m", "d", "dd", "sg")})


def replay_leg(chk, case, L):
    x = rat(case["xq"])
    o = float(L.funcs.Legendre_polynomials(x, case["nd"]))
    oa = np.asarray(L.funcs.Legendre_polynomials(np.array([x, -x]), case["nd"]), dtype=float)
    exp = rat(case["val"])
    if not close(o, exp) or not close(oa[0], exp) or not close(oa[1], exp):
        chk.violation("leg:Value", dict(case, observed=o))
        return
    chk.ok(("leg", str(case["xq"]), case["nd"]), sample=case)


def wig_project(arr):
    arr = np.asarray(arr)
    if arr.ndim != 2 or arr.shape[1] != 4:
        return None, None
    idx = [[int(round(float(v))) for v in row[:3]] for row in arr]
    if any(abs(float(v) - round(float(v))) > 1e-12 for row in arr for v in row[:3]):
        return None, None
    return idx, [float(row[3]) for row in arr]


def replay_wig(chk, case, L):
    l = case["l"]
    try:
        a1 = L.funcs.Wignerindex(l)
        a2 = L.funcs.Wignerindex(l)
    except Exception as e:
        chk.violation(f"raises:{type(e).__name__}", {"m": "wig", "l": l, "error": str(e)})
        return
    idx, vals = wig_project(a1)
    if idx is None:
        chk.violation("wig:Shape", {"l": l, "shape": list(np.asarray(a1).shape)})
        return
    if idx != case["rows"]:
        chk.violation("wig:IndexSetInLoopOrder", {"l": l, "observed": idx[:12], "expected": case["rows"][:12]})
        return
    for k, t in enumerate(case["vals"]):
        if not close(vals[k], ev(t)):
            chk.violation("wig:Racah3j", {"l": l, "row": case["rows"][k], "observed": vals[k], "expected": ev(t)})
            return
    if not same(np.asarray(a1, dtype=float), np.asarray(a2, dtype=float)):
        chk.violation("wig:Purity", {"l": l})
        return
    chk.ok(("wig", l), sample={"m": "wig", "l": l, "rows": len(idx), "first": case["rows"][0]})


def filon_call(L, C, t, a, outputfile=""):
    try:
        if a == 0 and not outputfile:
            r = quiet(L.fft.Filon_COS, C, t)
        else:
            r = quiet(L.fft.Filon_COS, C, t, a, outputfile) if outputfile else quiet(L.fft.Filon_COS, C, t, a=a)
        return r, None
    except Exception as e:
        return None, e


def filon_compare(chk, brief, exp, df, tmpcsv=None, key=None):
    """exp: dict with omega terms, zero, gen; df: returned frame"""
    if list(df.columns) != ["omega", "FFT"] or len(df) != exp["kept"]:
        chk.violation("filon:Layout", dict(brief, columns=list(df.columns), rows=len(df), expected_rows=exp["kept"]))
        return False
    om = df["omega"].to_numpy(dtype=float)
    ff = df["FFT"].to_numpy(dtype=float)
    for n in range(exp["kept"]):
        w = ev(exp["omega"][n])
        e = ev(exp["zero"]) if n == 0 else ev(exp["gen"], {"w": w})
        if not close(om[n], w):
            chk.violation("filon:FrequencyGrid", dict(brief, n=n, observed=om[n], expected=w))
            return False
        if not close(ff[n], e, atol=1e-9, rtol=1e-8):
            chk.violation("filon:Quadrature", dict(brief, n=n, omega=w, observed=ff[n], expected=e), finding_key=key)
            return False
    if tmpcsv:
        import pandas as pd
        back = pd.read_csv(tmpcsv)
        if list(back.columns) != ["omega", "FFT"] or len(back) != len(df) or \
                not np.allclose(back.to_numpy(dtype=float), df.to_numpy(dtype=float), atol=5.0000001e-7, rtol=0):
            chk.violation("filon:CsvSixDecimals", dict(brief))
            return False
        with open(tmpcsv) as f:
            f.readline()
            tok = f.readline().strip().split(",")
        if any(len(x.split(".")[-1]) != 6 for x in tok):
            chk.violation("filon:CsvSixDecimals", dict(brief, line=tok))
            return False
    return True


def replay_filon(chk, case, L, tmp):
    C = np.array(case["C"], dtype=float) / case["CS"]
    t = np.array(case["tt"], dtype=float) / case["TS"]
    a = rat(case["aq"])
    brief = {k: case[k] for k in ("m", "C", "CS", "tt", "TS", "aq", "kind", "pat")}
    c0, t0 = C.copy(), t.copy()
    df, err = filon_call(L, C, t, a)
    if not (np.array_equal(c0, C) and np.array_equal(t0, t)):
        chk.violation("filon:Purity", brief)
        return
    key = None if case["harmless"] else KEY_FILON      # outside the set where rounding the step to 1/1000 is harmless
    if case["raises"]:
        if not isinstance(err, ValueError):
            chk.violation("filon:RaisesIffUneven", dict(brief, observed=repr(err) if err else "returned"), finding_key=key)
            return
        chk.ok(("filon", "raise", str(case["tt"])), nontrivial=False)
        return
    if err is not None:
        chk.violation(f"raises:{type(err).__name__}", dict(brief, error=str(err)), finding_key=key)
        return
    if len(df) != case["kept"]:
        chk.violation("filon:EvenLengthDropsLast", dict(brief, rows=len(df), expected=case["kept"]))
        return
    if not case["domain"]:
        chk.ok(("filon", "len", str(case["tt"])), nontrivial=False)
        return
    # spec sanity (both sides come from the specification)
    if not close(ev(case["zero"]), ev(case["zeroclosed"])):
        raise MachineryError(f"Misc.tla: theta = 0 branch differs from Simpson's rational: {brief}")
    if case["pat"] == "one":
        for n in range(1, case["kept"]):
            w = ev(case["omega"][n])
            if abs(ev(case["gen"], {"w": w}) - ev(case["const"], {"w": w})) > 1e-9:
                raise MachineryError(f"Misc.tla: Filon term is not exact for a constant: {brief} n={n}")
    if not filon_compare(chk, brief, case, df, key=key):
        return
    csv = os.path.join(tmp, "filon.csv")
    df2, err2 = filon_call(L, C, t, a, outputfile=csv)
    if err2 is not None or not same(df2.to_numpy(), df.to_numpy()):
        chk.violation("filon:RepeatedCall", dict(brief, error=repr(err2)))
        return
    if not filon_compare(chk, brief, case, df2, tmpcsv=csv, key=key):
        return
    chk.ok(("filon", str(case["C"]), str(case["tt"]), str(case["aq"])), sample=dict(brief, kept=case["kept"], zerorat=case["zerorat"]))


def write_neighbor_file(path, frames):
    with open(path, "w") as f:
        for fr in frames:
            f.write(HEADER)
            for i, row in enumerate(fr):
                f.write(" ".join([str(i + 1), str(len(row))] + [str(j) for j in row]) + "\n")


def pack_call(L, c, scale, sigscale, tmp, outputfile=""):
    frames = [np.array(fr, dtype=float) / scale for fr in c["pos"]]
    H = np.array(c["H"], dtype=float) / scale
    ss = common.make_snapshots(frames, c["types"], H)
    nf = os.path.join(tmp, "neighbors.dat")
    write_neighbor_file(nf, c["file"])
    sig = np.array(c["sig"], dtype=float) / sigscale
    before = ([s.positions.copy() for s in ss.snapshots], sig.copy(), open(nf).read())
    try:
        if list(c["ppp"]) == [1, 1] and not outputfile:
            r = quiet(L.packing, ss, sig, nf)
        else:
            r = quiet(L.packing, ss, sig, nf, ppp=np.array(c["ppp"]), outputfile=outputfile)
    except Exception as e:
        return None, e, True
    pure = all(np.array_equal(x, s.positions) for x, s in zip(before[0], ss.snapshots)) and \
        np.array_equal(before[1], sig) and before[2] == open(nf).read()
    return np.asarray(r, dtype=float), None, pure


def pack_compare(chk, brief, exp_frames, r, label):
    """exp_frames[f][o] = {cn, npairs, fragile, theta}; -> number of fragile entries or None on violation"""
    nt = 0
    for f, row in enumerate(exp_frames):
        for o, e in enumerate(row):
            if e["fragile"] or e["cn"] == 0:
                nt += 1
                continue
            x = ev(e["theta"])
            if isnan(r[f, o]) or not close(float(r[f, o]), x):
                chk.violation("pack:ThetaOverMutualPairs", dict(brief, call=label, frame=f, particle=o + 1, observed=float(r[f, o]),
                                                                expected=x, cn=e["cn"], contributing_pairs=e["npairs"]))
                return None
    return nt


def replay_pack(chk, case, L, tmp):
    c = case["c"]
    brief = {"m": "pack", "c": c}
    F, N = len(c["pos"]), len(c["types"])
    nties = 0
    for scale, sigscale in ((1, 10), (4, 1)):
        r, err, pure = pack_call(L, c, scale, sigscale, tmp)
        if err is not None:
            chk.violation(f"raises:{type(err).__name__}", dict(brief, error=str(err)))
            return
        if not pure:
            chk.violation("pack:Purity", brief)
            return
        if r.shape != (F, N):
            chk.violation("pack:Shape", dict(brief, shape=list(r.shape)))
            return
        nt = pack_compare(chk, brief, case["exp"], r, f"scale={scale}")
        if nt is None:
            return
        nties += nt
    out = os.path.join(tmp, "theta.npy")
    r2, err, pure = pack_call(L, c, 1, 10, tmp, outputfile=out)
    if err is not None or not os.path.exists(out) or not same(np.load(out), r2):
        chk.violation("pack:NpyEqualsReturned", dict(brief, error=repr(err)))
        return
    r1, _, _ = pack_call(L, c, 1, 10, tmp)
    if not same(r1, r2):
        chk.violation("pack:RepeatedCall", brief)
        return
    for _ in range(nties):
        chk.tie()
    chk.ok(("pack", json.dumps(c, sort_keys=True)), nontrivial=any(e["npairs"] > 0 for row in case["exp"] for e in row),
           sample={"m": "pack", "H": c["H"], "ppp": c["ppp"], "types": c["types"], "frames": F,
                   "npairs": [[e["npairs"] for e in row] for row in case["exp"]]})


def _line(x, p, q):
    return p * x + q


def replay_fit(chk, case, L):
    lo, hi = rat(case["lo"]), rat(case["hi"])
    p, q = rat(case["p"]), rat(case["q"])
    xd = np.linspace(lo, hi, 25)
    yd = p * xd + q
    x0, y0 = xd.copy(), yd.copy()
    brief = {k: case[k] for k in ("m", "lo", "hi", "ra", "rb", "style", "p", "q")}
    kw = dict(rangea=rat(case["ra"]), rangeb=rat(case["rb"]), style=case["style"])
    variants = [dict(kw), dict(kw, p0=[1.0, 1.0]), dict(kw, p0=[1.0, 1.0], bounds=([-10, -10], [10, 10])),
                dict(kw, bounds=([-10, -10], [10, 10]))]
    for v in variants:
        try:
            popt, perr, xfit, yfit = quiet(L.fits, _line, xd, yd, **v)
        except Exception as e:
            chk.violation(f"raises:{type(e).__name__}", dict(brief, variant=sorted(v), error=str(e)))
            return
        if not (np.array_equal(x0, xd) and np.array_equal(y0, yd)):
            chk.violation("fit:Purity", brief)
            return
        if not (abs(popt[0] - p) <= 1e-6 and abs(popt[1] - q) <= 1e-6):
            chk.violation("fit:ExactDataRecovered", dict(brief, variant=sorted(v), popt=[float(x) for x in popt]))
            return
        xfit = np.asarray(xfit, dtype=float)
        if xfit.shape != (case["npts"],):
            chk.violation("fit:GridLength", dict(brief, n=list(xfit.shape)))
            return
        for k, t in zip(case["ks"], case["xfit"]):
            if not close(xfit[k], ev(t)):
                chk.violation("fit:AbscissaGrid", dict(brief, k=k, observed=float(xfit[k]), expected=ev(t), range=case["range"]))
                return
        if not np.allclose(np.asarray(yfit, dtype=float), _line(xfit, *popt), atol=1e-12, rtol=1e-12):
            chk.violation("fit:OrdinateIsFunctionOfGrid", brief)
            return
    chk.ok(("fit", str(brief)), sample=brief)


# --------------------------------------------------------------------------
# direction B: generators (seeded, scaled integers), recorded traces
# --------------------------------------------------------------------------

def rand_cell(rng, d):
    S = 100 if d == 2 else 10
    Lmax = 2000 if d == 2 else 300
    H = [[0] * d for _ in range(d)]
    for i in range(d):
        H[i][i] = rng.randint(S, Lmax)
        if rng.random() < 0.65:
            for j in range(i):
                H[i][j] = rng.randint(-H[j][j] // 2, H[j][j] // 2)
    return H, S, Lmax


def onseg(A, B, p, tol):
    A, B, p = (np.asarray(x, dtype=float) for x in (A, B, p))
    d = B - A
    L2 = float(d @ d)
    cr = d[0] * (p[1] - A[1]) - d[1] * (p[0] - A[0])
    t = float(d @ (p - A))
    return int(abs(cr) <= tol * (1 + math.sqrt(L2)) and -tol * (1 + L2) <= t <= L2 + tol * (1 + L2))


def online(A, B, p, tol):
    A, B, p = (np.asarray(x, dtype=float) for x in (A, B, p))
    d = B - A
    cr = d[0] * (p[1] - A[1]) - d[1] * (p[0] - A[0])
    return int(abs(cr) <= tol * (1 + abs(d[0]) + abs(d[1])) * (1 + abs(p[0]) + abs(p[1])))


def rand_quad(rng, R=60):
    """convex anti-clockwise integer quadrilaterals: rectangles, parallelograms, trapezoids; any start corner"""
    kind = rng.choice(["rect", "para", "trap"])
    ox, oy = rng.randint(-R, R), rng.randint(-R, R)
    if kind == "rect":
        w, h = rng.randint(2, R), rng.randint(2, R)
        Q = [[0, 0], [w, 0], [w, h], [0, h]]
    elif kind == "para":
        while True:
            a, b, c, d = (rng.randint(-R // 3, R // 3) for _ in range(4))
            if a * d - b * c >= 4:
                break
        Q = [[0, 0], [a, b], [a + c, b + d], [c, d]]
    else:
        w, h = rng.randint(6, R), rng.randint(2, R)
        s, t = rng.randint(0, w // 3), rng.randint(0, w // 3)
        Q = [[0, 0], [w, 0], [w - s, h], [t, h]]
    Q = [[x + ox, y + oy] for x, y in Q]
    k = rng.randint(0, 3)
    return Q[k:] + Q[:k]


def inside_points(Q):
    xs = [p[0] for p in Q]
    ys = [p[1] for p in Q]
    out = []
    for x in range(min(xs) + 1, max(xs)):
        for y in range(min(ys) + 1, max(ys)):
            if all((Q[(k + 1) % 4][0] - Q[k][0]) * (y - Q[k][1]) - (Q[(k + 1) % 4][1] - Q[k][1]) * (x - Q[k][0]) > 0 for k in range(4)):
                out.append([x, y])
    return out


def gen_geometry_trace(rng, L, n_each):
    recs, ctx = [], []

    def add(rec, c):
        rec["id"] = len(recs)
        recs.append(rec)
        ctx.append(c)

    for _ in range(n_each["tri"]):
        d = rng.choice([2, 2, 3])
        H, S, Lmax = rand_cell(rng, d)
        ppp = [rng.randint(0, 1) for _ in range(d)] if rng.random() < 0.5 else [1] * d
        P = [[rng.randint(-Lmax, 2 * Lmax) for _ in range(d)] for _ in range(3)]
        Pf, Hf = np.array(P, dtype=float) / S, np.array(H, dtype=float) / S
        try:
            o = float(quiet(L.geo.triangle_area, Pf, Hf, np.array(ppp)))
            err = None
        except Exception as e:
            o, err = float("nan"), f"{type(e).__name__}: {e}"
        add({"op": "tri", "H": H, "ppp": ppp, "P": P, "S": S}, {"obs": o, "err": err})
    for _ in range(n_each["ang"]):
        S = rng.choice([1, 10, 100, 1000])
        while True:
            a, b = rng.randint(1, 9999), rng.randint(1, 9999)
            c = rng.randint(abs(a - b) + 1, a + b - 1) if a + b - 1 >= abs(a - b) + 1 else 0
            if c >= 1:
                break
        try:
            o = float(quiet(L.geo.triangle_angle, a / S, b / S, c / S))
            err = None
        except Exception as e:
            o, err = float("nan"), f"{type(e).__name__}: {e}"
        add({"op": "ang", "a": a, "b": b, "c": c, "S": S}, {"obs": o, "err": err})
    for _ in range(n_each["lin"]):
        S = rng.choice([1, 10])
        while True:
            A, B, C, E = ([rng.randint(-300, 300), rng.randint(-300, 300)] for _ in range(4))
            D = (A[0] - B[0]) * (C[1] - E[1]) - (A[1] - B[1]) * (C[0] - E[0])
            if A != B and C != E and D != 0:
                break
        pts = [np.array(X, dtype=float) / S for X in (A, B, C, E)]
        try:
            o = np.asarray(quiet(L.geo.lines_intersection, *pts), dtype=float)
            err = None
        except Exception as e:
            o, err = np.array([np.nan, np.nan]), f"{type(e).__name__}: {e}"
        fin = bool(np.all(np.isfinite(o)))
        add({"op": "lin", "A": A, "B": B, "C": C, "E": E,
             "on1": online(pts[0], pts[1], o, 1e-9) if fin else 0, "on2": online(pts[2], pts[3], o, 1e-9) if fin else 0},
            {"obs": o.tolist(), "err": err, "S": S})
    for _ in range(n_each["sq"]):
        S = rng.choice([1, 10])
        while True:
            Q = rand_quad(rng)
            ins = inside_points(Q)
            if ins:
                break
        R0 = rng.choice(ins)
        while True:
            u = [rng.randint(-40, 40), rng.randint(-40, 40)]
            if u != [0, 0]:
                break
        if rng.random() < 0.25:      # rays exactly through a corner, or along an axis
            u = rng.choice([[Q[k][0] - R0[0], Q[k][1] - R0[1]] for k in range(4)] + [[-7, 0], [5, 0], [0, 3], [0, -2]])
        P = [np.array(p, dtype=float) / S for p in Q]
        r0 = np.array(R0, dtype=float) / S
        vec = -np.array(u, dtype=float) / S
        try:
            o = np.asarray(quiet(L.geo.LineWithinSquare, P[0], P[1], P[2], P[3], r0, vec), dtype=float)
            err = None
        except Exception as e:
            o, err = np.array([np.nan, np.nan]), f"{type(e).__name__}: {e}"
        fin = bool(o.shape == (2,) and np.all(np.isfinite(o)))
        uf = np.array(u, dtype=float) / S
        if fin:
            w = o - r0
            onray = int(abs(uf[0] * w[1] - uf[1] * w[0]) <= 1e-9 * (1 + abs(uf[0]) + abs(uf[1])) * (1 + abs(w[0]) + abs(w[1]))
                        and float(uf @ w) > 0)
            onedge = [onseg(P[k], P[(k + 1) % 4], o, 1e-9) for k in range(4)]
        else:
            onray, onedge = 0, [0, 0, 0, 0]
        add({"op": "sq", "Q": Q, "R0": R0, "u": u, "onedge": onedge, "onray": onray},
            {"obs": o.tolist(), "err": err, "S": S})
    return recs, ctx


def judge_geometry(chk, recs, ctx, printed, rejected, limit_hit=False):
    by = {p["rec"]: p for p in printed}
    for i, rec in enumerate(recs):
        if i in rejected:
            continue
        c = ctx[i]
        p = by.get(i)
        if p is None:
            if limit_hit:       # validation stopped after max_rejects rejections: the rest is not judged
                continue
            raise MachineryError(f"TraceGeometry printed no expectation for record {i}")
        brief = dict(rec)
        if c.get("err"):
            chk.violation("raises:" + c["err"].split(":")[0], dict(brief, error=c["err"]))
            continue
        if rec["op"] == "tri":
            S = rec["S"]
            verdict = "bad"
            for a in p["adm"]:
                rad = ev(a["rad"])
                pm = sum(math.sqrt(x) for x in a["s2"]) / S
                ztol = 1e-10 * (1 + pm ** 4)
                if rad < -ztol:
                    if isnan(c["obs"]):
                        verdict = "ok"
                elif rad <= ztol:
                    if isnan(c["obs"]) or abs(c["obs"]) <= 1e-4 * (1 + pm * pm):
                        verdict = "tie" if verdict != "ok" else verdict
                elif not isnan(c["obs"]) and close(c["obs"], math.sqrt(rad), rtol=1e-7):
                    verdict = "ok"
            if verdict == "bad":
                chk.violation("trace:tri:HeronOnWrappedSides", dict(brief, observed=c["obs"], admissible=[a["s2"] for a in p["adm"]]))
            elif verdict == "tie":
                chk.tie()
            else:
                chk.ok(("Btri", i))
        elif rec["op"] == "ang":
            if abs(p["cos"][0]) == p["cos"][1]:
                chk.tie()
            elif isnan(c["obs"]) or not close(c["obs"], ev(p["val"]), atol=1e-8):
                chk.violation("trace:ang:LawOfCosines", dict(brief, observed=c["obs"], expected=ev(p["val"])))
            else:
                chk.ok(("Bang", i))
        elif rec["op"] in ("lin", "sq"):
            e = [rat(p["pt"][0]) / c["S"], rat(p["pt"][1]) / c["S"]]
            o = c["obs"]
            if not (close(o[0], e[0]) and close(o[1], e[1])):
                key = KEY_START if rec["op"] == "sq" and p["wrap"] != [4] else None
                chk.violation(f"trace:{rec['op']}:Point", dict(brief, observed=o, expected=e), finding_key=key)
            else:
                chk.ok(("B" + rec["op"], i))


def rand_sig(rng, K):
    rad = [rng.randint(8, 16) for _ in range(K)]
    return [[rad[a] + rad[b] for b in range(K)] for a in range(K)]


def gen_misc_trace(rng, L, n_each, tmp, tier):
    recs, ctx = [], []

    def add(rec, c):
        rec["id"] = len(recs)
        recs.append(rec)
        ctx.append(c)

    for _ in range(n_each["moi"]):
        N = rng.randint(1, 30)
        S = rng.choice([1, 10, 100])
        m = rng.choice([1, 2, 3])
        P = [[rng.randint(-1000, 1000) for _ in range(3)] for _ in range(N)]
        Pf = np.array(P, dtype=float) / S
        try:
            mat = np.asarray(L.funcs.moment_of_inertia(Pf, m=m, matrix=True), dtype=float)
            flat = np.asarray(L.funcs.moment_of_inertia(Pf, m=m), dtype=float)
            err = None
        except Exception as e:
            mat, flat, err = np.zeros((3, 3)), np.zeros(6), f"{type(e).__name__}: {e}"
        if mat.shape != (3, 3) or flat.shape != (6,):
            mat, flat, err = np.zeros((3, 3)), np.zeros(6), "shape"
        y = np.concatenate([mat.ravel(), flat]) * N * S * S
        r = np.rint(y)
        exact = int(bool(np.all(np.isfinite(y)) and np.all(np.abs(y - r) <= 1e-6 * (1 + np.abs(r))) and err is None))
        r = np.where(np.isfinite(r), r, 0).astype(np.int64)
        add({"op": "moi", "P": P, "mass": m, "obs": r[:9].reshape(3, 3).tolist(), "flat": r[9:].tolist(), "exact": exact},
            {"S": S, "err": err})
    for l in n_each["wig"]:
        try:
            idx, vals = wig_project(L.funcs.Wignerindex(l))
            err = None if idx is not None else "shape"
        except Exception as e:
            idx, vals, err = None, None, f"{type(e).__name__}: {e}"
        add({"op": "wig", "l": l, "rows": idx if idx is not None else [[0, 0, 0]]}, {"vals": vals, "err": err})
    for _ in range(n_each["fil"]):
        n0 = rng.randint(3, 40)
        stepms = rng.choice([1, 2, 5, 10, 25, 100, 250]) * rng.randint(1, 4)
        step = stepms * 10
        kind = rng.choice(["even"] * 5 + ["lastlong", "lastslight", "middle", "subms"])
        if kind == "subms":
            step += rng.choice([3, 5, 7])
        nk = n0 - 1 if n0 % 2 == 0 else n0
        tt = [i * step + (rng.randint(11, 400) if kind == "lastlong" and i >= nk - 1 else 0)
              + (rng.randint(1, 4) if kind == "lastslight" and i >= nk - 1 else 0)
              + (150 if kind == "middle" and i >= 2 else 0) for i in range(n0)]
        CS = 1000
        dec = rng.uniform(0.5, 0.99)
        C = [int(round(CS * (dec ** i) * math.cos(rng.uniform(0, 0.6) * i))) if rng.random() < 0.7 else rng.randint(-CS, CS)
             for i in range(n0)]
        aq = [0, 1] if rng.random() < 0.5 else [rng.randint(1, 400), rng.choice([1, 7, 100])]
        Cf, tf = np.array(C, dtype=float) / CS, np.array(tt, dtype=float) / 10000
        c0, t0 = Cf.copy(), tf.copy()
        csv = os.path.join(tmp, f"fil{len(recs)}.csv") if rng.random() < 0.3 else ""
        df, err = filon_call(L, Cf, tf, rat(aq), outputfile=csv)
        pure = np.array_equal(c0, Cf) and np.array_equal(t0, tf)
        raised = int(isinstance(err, ValueError))
        other = None if err is None or raised else f"{type(err).__name__}: {err}"
        add({"op": "fil", "C": C, "CS": CS, "tt": tt, "aq": aq, "raised": raised, "kept": len(df) if df is not None else -1},
            {"df": df, "csv": csv, "err": other, "pure": pure, "kind": kind})
    for _ in range(n_each["gauss"]):
        dd = rng.choice([1, 10, 100])
        ds = [rng.randint(-500, 500) for _ in range(rng.randint(1, 8))]
        sg = [rng.randint(1, 40), rng.choice([1, 4, 10])]
        o = np.asarray(L.funcs.grid_gaussian(np.array(ds, dtype=float) / dd, sigma=rat(sg)), dtype=float)
        add({"op": "gauss", "ds": ds, "dd": dd, "sg": sg}, {"obs": o.tolist()})
    for _ in range(n_each["pack"]):
        N = rng.choice([6, 8, 12, 24, 26]) if tier == "thorough" or rng.random() < 0.5 else rng.randint(5, 12)
        S = 10
        Lx, Ly = rng.randint(40, 200), rng.randint(40, 200)
        H = [[Lx, 0], [rng.randint(-Lx // 2, Lx // 2) if rng.random() < 0.6 else 0, Ly]]
        ppp = [rng.randint(0, 1), rng.randint(0, 1)] if rng.random() < 0.4 else [1, 1]
        K = rng.randint(1, 3)
        types = [rng.randint(1, K) for _ in range(N)]
        types[rng.randrange(N)] = K
        sig = rand_sig(rng, K)
        F = rng.randint(1, 3)
        nfile = F + rng.randint(0, 1)
        pos = []
        for _f in range(F):
            seen = set()
            fr = []
            while len(fr) < N:
                p = (rng.randint(-H[0][0] // 3, H[0][0] + H[0][0] // 3), rng.randint(-H[1][1] // 3, H[1][1] + H[1][1] // 3))
                if p not in seen:
                    seen.add(p)
                    fr.append(list(p))
            pos.append(fr)
        file = []
        for _g in range(nfile):
            rows = []
            for o in range(1, N + 1):
                others = [j for j in range(1, N + 1) if j != o]
                cn = min(len(others), rng.choice([1, 2, 3, 4, 5, 6, 6, 7, N - 1]))
                rows.append(rng.sample(others, cn))
            file.append(rows)
        c = {"H": H, "ppp": ppp, "pos": pos, "types": types, "sig": sig, "file": file}
        out = os.path.join(tmp, f"pk{len(recs)}.npy") if rng.random() < 0.5 else ""
        r, err, pure = pack_call(L, c, S, 1, tmp, outputfile=out)
        npy_ok = True
        if out and err is None:
            npy_ok = os.path.exists(out) and same(np.load(out), r)
        add({"op": "pk_open", "file": file, "nmax": 20}, {"skip": True})
        for f in range(F):
            row = r[f] if err is None and r.shape == (F, N) else np.full(N, np.nan)
            add({"op": "pk_frame", "H": H, "ppp": ppp, "pos": pos[f], "types": types, "sig": sig,
                 "zero": [int(x == 0.0) for x in row]},
                {"obs": [float(x) for x in row], "err": None if err is None else f"{type(err).__name__}: {err}",
                 "pure": pure, "npy_ok": npy_ok, "frame": f})
    return recs, ctx


def judge_misc(chk, recs, ctx, printed, rejected, limit_hit=False):
    by = {p["rec"]: p for p in printed}
    for i, rec in enumerate(recs):
        if i in rejected or ctx[i].get("skip"):
            continue
        c = ctx[i]
        brief = {k: v for k, v in rec.items() if k not in ("file",)}
        if c.get("err"):
            chk.violation("raises:" + str(c["err"]).split(":")[0], dict(brief, error=c["err"]))
            continue
        if rec["op"] == "moi":
            chk.ok(("Bmoi", i))
            continue
        p = by.get(i)
        if p is None:
            if limit_hit:
                continue
            raise MachineryError(f"TraceMisc printed no expectation for record {i}")
        if rec["op"] == "wig":
            bad = [k for k, t in enumerate(p["vals"]) if not close(c["vals"][k], ev(t))]
            if bad:
                chk.violation("trace:wig:Racah3j", {"l": rec["l"], "row": rec["rows"][bad[0]], "observed": c["vals"][bad[0]],
                                                    "expected": ev(p["vals"][bad[0]])})
            else:
                chk.ok(("Bwig", rec["l"]))
        elif rec["op"] == "fil":
            if not c["pure"]:
                chk.violation("trace:filon:Purity", brief)
            elif not p["domain"]:
                chk.ok(("Bfil", i), nontrivial=False)
            elif filon_compare(chk, brief, p, c["df"], tmpcsv=c["csv"] or None, key=None if p["harmless"] else KEY_FILON):
                chk.ok(("Bfil", i))
        elif rec["op"] == "gauss":
            if any(not close(o, ev(t)) for o, t in zip(c["obs"], p["vals"])) or len(c["obs"]) != len(p["vals"]):
                chk.violation("trace:gauss:Value", dict(brief, observed=c["obs"]))
            else:
                chk.ok(("Bgauss", i))
        elif rec["op"] == "pk_frame":
            if not c["pure"]:
                chk.violation("trace:pack:Purity", brief)
                continue
            if not c["npy_ok"]:
                chk.violation("trace:pack:NpyEqualsReturned", brief)
                continue
            r = np.array([c["obs"]])
            nt = pack_compare(chk, dict(brief, file_frame=p["frame"]), [p["exp"]], r, "trace")
            if nt is not None:
                for _ in range(nt):
                    chk.tie()
                chk.ok(("Bpk", i), nontrivial=any(e["npairs"] > 0 for e in p["exp"]))


# --------------------------------------------------------------------------
# driver
# --------------------------------------------------------------------------

def tlc_all(tier):
    def one(j):
        mod, mode, shq, sht = j
        invs = GEO_INVS if mod == "MC_Geometry" else MISC_INVS
        r = run_tlc_sharded(mod, dict(constants={"Tier": tier, "Mode": mode}, invariants=invs),
                            nshards=sht if tier == "thorough" else shq, timeout=1500)
        return mod, mode, r

    out = {}
    with cf.ThreadPoolExecutor(max_workers=len(JOBS)) as ex:
        for mod, mode, r in ex.map(one, JOBS):
            require_model_ok(r, f"{mod} Mode={mode}")
            if not r.cases:
                raise MachineryError(f"{mod} Mode={mode}: no cases emitted")
            out[f"{mod} {mode}"] = r
    return out


class _WithCase:
    """Check proxy that stores the complete emitted state (input and expectation) with a violation,
    so that --replay can re-run it"""

    def __init__(self, chk, case):
        self._chk, self._case = chk, case

    def violation(self, clause, info, finding_key=None):
        info = dict(info)
        info["full"] = self._case
        return self._chk.violation(clause, info, finding_key=finding_key)

    def __getattr__(self, name):
        return getattr(self._chk, name)


def replay_one(chk, case, L, F, tmp):
    m = case["m"]
    chk = _WithCase(chk, case)
    if m in ("tri2", "tri3"):
        replay_tri(chk, case, L, F)
    elif m == "ang":
        replay_ang(chk, case, L, F)
    elif m == "lin":
        replay_lin(chk, case, L)
    elif m == "sq":
        replay_sq(chk, case, L)
    elif m == "tab":
        replay_tab(chk, case, L)
    elif m == "moi":
        replay_moi(chk, case, L)
    elif m == "gauss":
        replay_gauss(chk, case, L)
    elif m == "leg":
        replay_leg(chk, case, L)
    elif m == "wig":
        replay_wig(chk, case, L)
    elif m == "filon":
        replay_filon(chk, case, L, tmp)
    elif m == "pack":
        replay_pack(chk, case, L, tmp)
    elif m == "fit":
        replay_fit(chk, case, L)
    else:
        raise MachineryError(f"unknown case kind {m}")


_W = {}


def _replay_chunk(cases):
    """fork-pool worker: replays a chunk into a private Check and returns its verdicts"""
    L, F = _W["L"], _W["F"]
    sub = Check("X01", "worker")
    tmp = common.scratch_dir("verif_x01w_")
    try:
        for c in cases:
            replay_one(sub, c, L, F, tmp)
    finally:
        shutil.rmtree(tmp, ignore_errors=True)
    return {"replayed": sub.replayed, "evaluations": sub.evaluations, "nontrivial": list(sub.nontrivial),
            "samples": sub.samples, "ties": sub.skipped_tie, "violations": sub.violations,
            "known": [f.get("key") for f in sub.known]}


def merge(chk, res):
    chk.replayed += res["replayed"]
    chk.evaluations += res["evaluations"]
    chk.nontrivial.update(res["nontrivial"])
    chk.skipped_tie += res["ties"]
    for s in res["samples"]:
        if len(chk.samples) < 3 and not any(s.get("m") == t.get("m") for t in chk.samples):
            chk.samples.append(s)
    chk.violations += [tuple(v) for v in res["violations"]]
    for k in res["known"]:
        for f in chk.findings:
            if f.get("key") == k and k not in chk._known_printed:
                chk._known_printed.add(k)
                chk.known.append(f)


def run(tier, replay=None):
    common.import_lib()
    L = load_lib()
    chk = Check("X01", tier)
    chk.rule = ("A: one TLC state per input of one routine (MC_Geometry: triangle_area 2-D/3-D, triangle_angle, lines_intersection, "
                "LineWithinSquare; MC_Misc: dimension tables, moment_of_inertia, grid_gaussian, Legendre_polynomials, Wignerindex, "
                "Filon_COS, packing_capability_2d, fits), clauses as invariants, every printed state replayed into the public routine at "
                "several length scales / argument renderings. B: seeded random scaled-integer inputs run through the real code; "
                "TraceGeometry.tla / TraceMisc.tla decide exit edge, point-on-both-lines, Wigner index order, inertia tensor (exact), "
                "Filon raise/length, neighbour-file cursor, and print the expected terms. distinct = replayed states / trace records whose "
                "observable is not the trivial value.")
    chk.assumptions = ["float comparison at 1e-9 (abs + rel) of values the spec gives exactly or as terms; CSV at its 6 decimals",
                       "half-cell ties, degenerate triangles (radicand 0, cos = +-1 at inexact scales) and collinear bonds "
                       "are counted as skipped_tie, never asserted",
                       "Filon_COS values asserted for evenly spaced times starting at 0",
                       "reference: docstrings and docs/utils.md, docs/orderings.md (no listed property covers these routines)"]
    tmp = common.scratch_dir("verif_x01_")
    try:
        if replay:
            stored = common.load_replay(replay)
            c = stored.get("case", {})
            c = c.get("full", c) if isinstance(c, dict) else {}
            print(json.dumps({"clause": stored.get("clause"), "case": c}, indent=1)[:8000])
            if "m" not in c:
                print("replay: a trace record (direction B); re-run the check with the same VERIF_SEED to reproduce")
                return 0
            F = None
            if c["m"] in ("tri2", "tri3", "ang"):
                r = run_tlc_sharded("MC_Geometry", dict(constants={"Tier": tier, "Mode": "formulas"}, invariants=["Emit"]), nshards=1)
                require_model_ok(r, "MC_Geometry formulas")
                F = r.cases[0]
            replay_one(chk, c, L, F, tmp)
            print("replayed:", ("VIOLATION " + chk.violations[0][0]) if chk.violations else "ok (no violation on this tree)")
            return 1 if chk.violations else 0
        import time
        T0 = time.time()
        phases = {}
        runs = tlc_all(tier)
        phases["tlc_models"] = round(time.time() - T0, 1)
        allcases, F, bykind = [], None, {}
        for label, r in runs.items():
            chk.add_tlc(r, label)
            for c in r.cases:
                bykind[c["m"]] = bykind.get(c["m"], 0) + 1
                if c["m"] == "formulas":
                    F = c
                else:
                    allcases.append(c)
        if F is None:
            raise MachineryError("MC_Geometry printed no formulas")
        _W["L"], _W["F"] = L, F
        chk.extra["states_by_kind"] = bykind
        # heavy kinds are spread over the chunks
        rng = random.Random(common.SEED * 9176 + 1)
        rng.shuffle(allcases)
        nchunk = max(1, min(64, len(allcases) // 200))
        chunks = [allcases[i::nchunk] for i in range(nchunk)]
        for res in common.pmap(_replay_chunk, chunks, chunksize=1):
            merge(chk, res)
        chk.exhaustive = True
        phases["replay_A"] = round(time.time() - T0 - phases["tlc_models"], 1)
        T1 = time.time()
        # ---- direction B
        rngb = random.Random(common.SEED * 7919 + 101)
        big = tier == "thorough"
        gq = {"tri": 2500 if big else 300, "ang": 2000 if big else 200, "lin": 3000 if big else 300, "sq": 6000 if big else 600}
        mq = {"moi": 1500 if big else 150, "wig": [5, 6, 7] if big else [5], "fil": 800 if big else 80,
              "gauss": 300 if big else 40, "pack": 120 if big else 14}
        grecs, gctx = gen_geometry_trace(rngb, L, gq)
        mrecs, mctx = gen_misc_trace(rngb, L, mq, tmp, tier)
        phases["gen_B"] = round(time.time() - T1, 1)
        T2 = time.time()
        with cf.ThreadPoolExecutor(max_workers=2) as ex:
            fg = ex.submit(validate_trace_all, "TraceGeometry", grecs, None, 1500, 10)
            fm = ex.submit(validate_trace_all, "TraceMisc", mrecs, None, 1500, 10,
                           lambda rec: rec["op"] != "pk_frame")
            (gres, grej), (mres, mrej) = fg.result(), fm.result()
        phases["trace_tlc"] = round(time.time() - T2, 1)
        chk.extra["phase_s"] = phases
        chk.add_tlc(gres, "TraceGeometry")
        chk.add_tlc(mres, "TraceMisc")
        for i, clause in grej:
            rec = grecs[i]
            key = KEY_START if clause.endswith(":start-corner") else None      # the trace spec names the situation
            chk.violation("trace:" + rec["op"] + ":" + clause, dict(rec, **{k: v for k, v in gctx[i].items() if k != "df"}),
                          finding_key=key)
        for i, clause in mrej:
            rec = mrecs[i]
            chk.violation("trace:" + rec["op"] + ":" + clause, {k: v for k, v in rec.items() if k != "file"},
                          finding_key=KEY_FILON if clause.endswith(":step-rounded") else None)
        # records after a rejected pk_frame of the same call are not judged (the cursor state is lost)
        mskip = set(i for i, _ in mrej)
        for i, _ in mrej:
            j = i + 1
            while j < len(mrecs) and mrecs[j]["op"] == "pk_frame" and mrecs[i]["op"] == "pk_frame":
                mskip.add(j)
                j += 1
        judge_geometry(chk, grecs, gctx, gres.cases, set(i for i, _ in grej), limit_hit=len(grej) >= 10)
        judge_misc(chk, mrecs, mctx, mres.cases, mskip, limit_hit=len(mrej) >= 10)
        chk.extra["trace_records"] = {"geometry": len(grecs), "misc": len(mrecs)}
        chk.samples.append({"trace_record": {k: v for k, v in grecs[-1].items()}})
        return chk.finish()
    finally:
        shutil.rmtree(tmp, ignore_errors=True)
