"""C03 — g(r) totals and partials (PyMatterSim.static.gr.gr) against spec/PairHist.tla.

Direction A: TLC checks the C03 clauses (partition of species pairs over columns,
composition-weighted sum rule, total-only above five species) as invariants on every
configuration of the MC_PairHist scopes and emits, per configuration, the exact ordered
pair counts per column and bin (with tie counts where a decision is float-fragile), the
normalisation V/(N_a N_b F) and the shell volumes as Real terms.  Every case is rebuilt
as a Snapshots object and run through gr(...).getresults(); every column at every bin is
compared.
Direction B: seeded random decimal configurations (N <= 24, K <= 6, triclinic, 1-3
frames) are written as a trace, TLC derives the expectation for each record with the
same operators, and the real results are compared.
"""
import json
import os
import random
import shutil
import tempfile

import numpy as np

from . import common
from .common import Check, run_tlc, run_tlc_sharded, require_model_ok
from .realeval import ev, close

INVS = ["InvClassifier", "InvPartition", "InvSumRule", "InvTypes", "InvBinIsLemmaBin"]


def replay(case):
    """Runs one emitted case through the real gr class.  Returns (verdict, clause, detail, nontrivial)."""
    import pandas as pd
    from PyMatterSim.static.gr import gr
    S = case["S"]
    H = np.array(case["H"], dtype=float) / S
    frames = [np.array(f, dtype=float) / S for f in case["frames"]]
    nb = case["nbins"]
    detail = {k: case[k] for k in ("id", "H", "ppp", "S", "types", "frames", "wn", "sharp", "Hs", "tys", "ts")}
    if case["nbins_on_integer"] and not case["dyadic_scale"]:
        return ("tie", "nbins", None, False)
    tmp = tempfile.mkdtemp(prefix="verif_c03_")
    try:
        from PyMatterSim.reader.reader_utils import Snapshots
        # per-frame cell (sheared at constant edge lengths) and per-frame species labels as the spec gives them
        ss = [common.make_snapshot(f, case["tys"][i], np.array(case["Hs"][i], dtype=float) / S, case["ts"][i])
              for i, f in enumerate(frames)]
        snaps = Snapshots(nsnapshots=len(ss), snapshots=ss)
        before = [(s.positions.copy(), s.particle_type.copy()) for s in snaps.snapshots]
        csv = os.path.join(tmp, "gr.csv")
        try:
            obj = gr(snaps, ppp=np.array(case["ppp"]), rdelta=case["wn"] / S, outputfile=csv)
            df = obj.getresults()
            # history on ONE object: PairHist is a function of the configuration, so asking the same object again
            # (every third case) must return the same table
            df2 = obj.getresults() if case.get("id", 0) % 3 == 0 else None
        except Exception as e:  # the routine delivers no result on a valid input
            return ("violation", f"raises:{type(e).__name__}", dict(detail, error=str(e)[:200]), True)
        if df2 is not None and not (list(df2.columns) == list(df.columns) and df2.shape == df.shape
                                    and np.allclose(df2.values, df.values, rtol=1e-12, atol=1e-12, equal_nan=True)):
            return ("violation", "History:SecondCallOnSameObjectDiffers", detail, True)
        for (p0, t0), s in zip(before, snaps.snapshots):
            if not (np.array_equal(p0, s.positions) and np.array_equal(t0, s.particle_type)):
                return ("violation", "InputUnchanged", detail, True)
        cols = list(df.columns)
        if cols != ["r"] + case["cols"]:
            return ("violation", "Columns", dict(detail, expected=["r"] + case["cols"], observed=cols), True)
        if len(df) != nb:
            return ("violation", "NumberOfBins", dict(detail, expected=nb, observed=len(df)), True)
        for k in range(nb):
            if not close(float(df["r"].iloc[k]), ev(case["r"][k])):
                return ("violation", "BinCentre", dict(detail, bin=k, expected=case["r"][k], observed=float(df["r"].iloc[k])), True)
        shell = [ev(t) for t in case["shell"]]
        nontrivial = False
        for q, name in enumerate(case["cols"]):
            norm = ev(case["norm"][q])
            obs = df[name].values.astype(float)
            for k in range(nb):
                base, tie = case["base"][q][k], case["tie"][q][k]
                fac = norm / shell[k]
                if base or tie:
                    nontrivial = True
                if tie == 0:
                    if not close(obs[k], base * fac):
                        return ("violation", f"Value:{name}", dict(detail, column=name, bin=k, expected_count=base,
                                                                  expected=base * fac, observed=float(obs[k])), True)
                else:
                    n = obs[k] / fac
                    if abs(n - round(n)) > 1e-6 or not (base - 1e-6 <= n <= base + tie + 1e-6):
                        return ("violation", f"Value:{name}", dict(detail, column=name, bin=k, expected_count=[base, base + tie],
                                                                  observed_count=float(n)), True)
        # the written file holds the returned values to the written precision
        back = pd.read_csv(csv)
        if list(back.columns) != cols or len(back) != len(df) or \
                not np.allclose(back.values, df.values, atol=5.1e-7, rtol=0):
            return ("violation", "CsvEqualsReturned", detail, True)
        return ("ok", None, None, nontrivial)
    finally:
        shutil.rmtree(tmp, ignore_errors=True)


def gen_records(rng, n):
    """Direction B inputs: decimal configurations, exactly representable as scaled integers."""
    recs = []
    while len(recs) < n:
        d = rng.choice([2, 3])
        S = 100 if d == 2 else 10
        lo, hi = (600, 2000) if d == 2 else (40, 120)
        H = [[0] * d for _ in range(d)]
        tri = rng.random() < 0.6
        for i in range(d):
            H[i][i] = rng.randint(lo, hi)
            if tri:
                for j in range(i):
                    H[i][j] = rng.randint(-(H[j][j] // 2), H[j][j] // 2)
        lmin = min(H[i][i] for i in range(d))
        wn = rng.randint(max(1, lmin // 70), max(2, lmin // 6))
        if lmin % (2 * wn) == 0:
            wn += 1
        K = rng.randint(1, 6)
        N = rng.randint(max(K, 6), 24)
        types = list(range(1, K + 1)) + [rng.choice(range(1, K + 1)) if rng.random() < 0.5 else 1 + int(K * rng.random() ** 2)
                                         for _ in range(N - K)]
        types = [min(t, K) for t in types]
        rng.shuffle(types)
        nf = rng.randint(1, 3)
        frames = [[[rng.randint(-(H[k][k] // 4), H[k][k] + H[k][k] // 4) for k in range(d)] for _ in range(N)] for _ in range(nf)]
        ppp = [rng.randint(0, 1) for _ in range(d)] if rng.random() < 0.5 else [1] * d
        rec = {"id": len(recs) + 1, "H": H, "ppp": ppp, "S": S, "types": types, "frames": frames, "wn": wn, "sharp": 0}
        if nf > 1 and rng.random() < 0.4:       # sheared between frames: tilts change, edge lengths do not
            Hs = [H]
            for _ in range(nf - 1):
                G = [row[:] for row in H]
                for i in range(d):
                    for j in range(i):
                        G[i][j] = rng.randint(-(H[j][j] // 2), H[j][j] // 2)
                Hs.append(G)
            rec["Hs"] = Hs
        if nf > 1 and rng.random() < 0.3:       # species labels move between particles, composition fixed
            tys = [types]
            for _ in range(nf - 1):
                t = types[:]
                rng.shuffle(t)
                tys.append(t)
            rec["tys"] = tys
        if nf > 1 and rng.random() < 0.35:      # timestep labels that repeat (independent samples, reset_timestep)
            rec["ts"] = [rng.choice([0, 100]) for _ in range(nf)] if rng.random() < 0.6 else [0] * nf
        recs.append(rec)
    return recs


def gen_lattice_records(rng, tier, first_id):
    """Scale: coloured full lattices of more than a thousand particles with two very coarse bins (one particle has hundreds
    of neighbours in a bin, a column holds several 1e5 ordered pairs).  Decided by PairHist!HistLat (LatticeLemma)."""
    import itertools
    specs = [([11, 11, 11], 10, 23, "one"), ([36, 38], 10, 83, "checker")]
    if tier != "quick":
        specs += [([10, 12, 12], 10, 23, "checker"), ([37, 35], 10, 83, "one")]
    recs = []
    for n, a, wn, colour in specs:
        d = len(n)
        sites = list(itertools.product(*[range(k) for k in n]))
        rng.shuffle(sites)
        recs.append({"id": first_id + len(recs), "H": [[(n[i] * a if i == j else 0) for j in range(d)] for i in range(d)],
                     "ppp": [1] * d, "S": 10, "types": [1 if colour == "one" else 1 + (sum(s) % 2) for s in sites],
                     "frames": [[[a * x for x in s] for s in sites]], "wn": wn, "sharp": 0,
                     "lat": {"n": n, "a": a, "colour": colour}})
    return recs


def collect(chk, cases, label):
    results = common.pmap(replay, cases)
    for case, (verdict, clause, detail, nontrivial) in zip(cases, results):
        if verdict == "ok":
            chk.ok((label, case.get("id"), json.dumps(case["frames"])[:64], str(case["H"]), str(case["ppp"]), case["wn"], str(case["types"])),
                   nontrivial=nontrivial,
                   sample={"mode": label, "H": case["H"], "S": case["S"], "ppp": case["ppp"], "types": case["types"],
                           "frames": case["frames"], "wn": case["wn"], "cols": case["cols"], "base_counts": case["base"]})
        elif verdict == "tie":
            chk.tie()
        else:
            chk.violation(clause, detail)


def run(tier, replay=None):
    common.import_lib()
    chk = Check("C03", tier)
    chk.rule = ("A: TLC enumerates the MC_PairHist scopes (classifier K=1..7; lattice: 3 particles on a 4x4 sub-lattice x 2 cells x "
                "7 species assignments x 3 widths x 4 masks, exhaustive; hash: species counts 1..6 x {2D,3D} x 4 cells x 3 masks x "
                "1-2 frames x 2 widths x 2 sizes), checks the C03 clauses as invariants and emits exact ordered pair counts per "
                "column and bin; cases are replayed into gr(...).getresults() (all hash cases; lattice cases sampled in quick, all in "
                "thorough). B: seeded random decimal configurations go through TLC (same operators) and the real code. "
                "A case is non-trivial when at least one bin of one column has a non-zero count; distinct by input.")
    chk.assumptions = ["float comparison at 1e-9 of values the spec gives as terms",
                       "a distance exactly on a bin edge (decimal scopes) or on the histogram's upper limit, and triclinic "
                       "half-cell ties, accept either outcome (tie counts)",
                       "configurations whose L_min/(2 w) is an exact integer are skipped in decimal scopes (int() of a float quotient)"]
    if replay:
        case = common.load_replay(replay)["case"]
        print(json.dumps(case, indent=1)[:4000])
        return 0
    # bins partition [0, nb w) for ALL integers (Apalache); MC_PairHist!InvBinIsLemmaBin ties TLC's bin index to it
    common.apalache_lemmas(chk, "BinLemma", ["InsideHasBin", "AtMostOneBin", "BeyondHasNoBin"], ["ClosedBinsDisjoint"])
    # the four models are independent: their TLC runs overlap (quick tier), then the cases are replayed
    rng = random.Random(common.SEED * 7919 + 3)
    recs = gen_records(rng, 64 if tier == "quick" else 800)
    recs += gen_lattice_records(rng, tier, len(recs) + 1)
    tmp = tempfile.mkdtemp(prefix="verif_c03_")
    try:
        path = os.path.join(tmp, "trace.ndjson")
        with open(path, "w") as f:
            for rec in recs:
                f.write(json.dumps(rec, separators=(",", ":")) + "\n")

        def tlc(mode):
            if mode == "classifier":
                return run_tlc("MC_PairHist", dict(constants={"Tier": tier, "Mode": mode, "Gen": False, "SHARD": 0, "NSHARDS": 1,
                                                              "SAMPLE": 1, "SALT": 0}, invariants=INVS))
            samp = 61 if (mode == "lattice" and tier == "quick") else 1
            return run_tlc_sharded("MC_PairHist", dict(constants={"Tier": tier, "Mode": mode, "Gen": True, "SAMPLE": samp,
                                                                  "SALT": common.SEED % samp}, invariants=INVS + ["Emit"]),
                                   nshards=(4 if mode == "trace" and tier == "quick" else None),
                                   env=({"TRACE_FILE": path} if mode == "trace" else None))

        import concurrent.futures as cf
        modes = ("lattice", "hash", "trace", "classifier")
        with cf.ThreadPoolExecutor(max_workers=(4 if tier == "quick" else 1)) as ex:
            results = dict(zip(modes, ex.map(tlc, modes)))
        require_model_ok(results["classifier"], "classifier")
        chk.add_tlc(results["classifier"], "classifier")
        for mode in ("lattice", "hash", "trace"):
            g = results[mode]
            require_model_ok(g, mode)
            chk.add_tlc(g, mode if mode != "trace" else "trace (direction B)")
            if not g.cases:
                raise common.MachineryError(f"no cases emitted in mode {mode}")
            if mode == "trace" and len(g.cases) != len(recs):
                raise common.MachineryError(f"trace mode: {len(g.cases)} cases for {len(recs)} records")
            collect(chk, g.cases, mode)
        chk.exhaustive = tier == "thorough"
    finally:
        shutil.rmtree(tmp, ignore_errors=True)
    return chk.finish()
