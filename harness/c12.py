"""C12 — pair-potential derivatives (PyMatterSim.static.hessians.PairInteractions)
against spec/PairPot.tla.

TLC (MC_PairPot) differentiates the three documented energies with the operator D
of the monomial algebra, checks D(s), D(D(s)), s'(r_c) and the force-shift
identities against the closed forms of docs/hessian.md as invariants, and emits
(i) the canonical derivative terms per (model, shift) with Var leaves and (ii) a
grid of rational parameter points and distances (part of it moved by VERIF_SEED).
The harness binds the leaves, evaluates the terms with realeval and compares them
with lennard_jones(), inverse_power_law(n, A), harmonic_hertz(alpha) and
caller(InteractionParams) of the real code.
"""
import json

import numpy as np

from . import common
from .common import Check, run_tlc_sharded, require_model_ok
from .realeval import ev, close

INVS = ["InvFirst", "InvSecond", "InvCutoff", "InvShift1", "InvShift2", "InvNoSymLJ", "InvAlgebra",
        "InvLeaves", "InvGrid", "InvDomain", "InvLead", "InvEdges"]
SESSION_INVS = ["InvHeld", "InvDomain", "InvPool"]
MEMBERS = ("s1", "s1c", "s2")


def q(x):
    return x[0] / x[1]


def env_of(par, r):
    return {"eps": q(par["eps"]), "sigma": q(par["sigma"]), "rc": q(par["rc"]), "n": q(par["n"]),
            "A": q(par["A"]), "alpha": q(par["alpha"]), "r": q(r)}


NAMES = ("eps", "sigma", "rc", "n", "A", "alpha", "r")
OWN = {"lennard_jones": (), "inverse_power_law": ("ipl_n", "ipl_A"), "harmonic_hertz": ("harmonic_hertz_alpha",)}
FIELD = {"ipl_n": "n", "ipl_A": "A", "harmonic_hertz_alpha": "alpha"}


def numbers(par, r, style):
    """Rendering of the rational leaves: Python floats, numpy scalars, or Python ints wherever the value is
    an integer (0 and 0.0, 10 and 10.0, 2 and 2.0 are the same abstract input)."""
    out = {}
    for k in NAMES:
        x = r if k == "r" else par[k]
        if style == "ints" and x[1] == 1:
            out[k] = int(x[0])
        elif style == "numpy":
            out[k] = np.float64(x[0] / x[1])
        else:
            out[k] = x[0] / x[1]
    return out


def has_default(lib, field):
    import dataclasses
    for f in dataclasses.fields(lib.InteractionParams):
        if f.name == field:
            return f.default is not dataclasses.MISSING or f.default_factory is not dataclasses.MISSING
    return False


def make_params(lib, model, v, supply):
    """InteractionParams for `model` with the fields named in `supply` given (the others keep the defaults of the
    public dataclass)."""
    kw = {f: v[FIELD[f]] for f in supply}
    return lib.InteractionParams(model_name=lib.ModelName[model], **kw)


def call_model(lib, model, v, shift, how, pi=None):
    """Call the public API for one point; v = rendered numbers.  `how`:
         method           direct method with its parameters
         method-defaultA  inverse_power_law(n): documented default A = 1.0
         caller           selector, every field supplied (decoys for the fields of the other models)
         caller-minimal   selector, only the fields of the requested model supplied
         caller-omitted-A selector, inverse power law without ipl_A: the prefactor is the one the params object holds
       Returns (triple, A in effect)."""
    H = lib
    if pi is None:
        pi = H.PairInteractions(v["r"], v["eps"], v["sigma"], v["rc"], shift)
    if how.startswith("caller"):
        if how == "caller":
            ip = make_params(H, model, v, ("ipl_n", "ipl_A", "harmonic_hertz_alpha"))
        elif how == "caller-minimal":
            ip = make_params(H, model, v, OWN[model])
        else:
            ip = make_params(H, model, v, ("ipl_n",))
        return pi.caller(ip), float(ip.ipl_A)
    if model == "lennard_jones":
        return pi.lennard_jones(), float(v["A"])
    if model == "inverse_power_law":
        if how == "method-defaultA":
            return pi.inverse_power_law(v["n"]), 1.0          # documented default A = 1.0
        return pi.inverse_power_law(n=v["n"], A=v["A"]), float(v["A"])
    return pi.harmonic_hertz(alpha=v["alpha"]), float(v["A"])


def check_point(chk, lib, terms, point, r, idx):
    """Compare the triple at one (parameter point, distance).  Returns False on violation."""
    model, shift, par = point["model"], point["shift"], point["par"]
    env = env_of(par, r)
    exp0 = [float(ev(terms[k], env)) for k in MEMBERS]
    variants = [("method", "float"), ("caller", "float"), ("caller-minimal", "float")]
    if point.get("Adefault"):
        variants.append(("method-defaultA", "float"))
    if any((r if k == "r" else par[k])[1] == 1 for k in NAMES):
        variants += [("method", "ints"), ("caller", "ints")]          # 0 for 0.0, 10 for 10.0, ...
    if idx % 3 == 0:
        variants.append(("caller", "numpy"))         # numpy scalars, as diagonalize_hessian passes them
        if model == "inverse_power_law" and has_default(lib, "ipl_A"):
            variants.append(("caller-omitted-A", "float"))
    for how, style in variants:
        base = {"model": model, "shift": shift, "par": par, "r": r, "how": how, "style": style, "terms": terms}
        try:
            obs, a_eff = call_model(lib, model, numbers(par, r, style), shift, how)
            obs = [float(x) for x in obs]
        except Exception as e:  # the library failing on a valid input is a violation
            chk.violation(f"raises:{type(e).__name__}", dict(base, error=str(e)))
            return False
        exp = exp0
        if how == "caller-omitted-A" and a_eff != env["A"]:
            # the prefactor in effect is the one the params object holds (its public default)
            exp = [float(ev(terms[k], dict(env, A=a_eff))) for k in MEMBERS]
            base["A_in_effect"] = a_eff
        base["expected"] = exp
        if len(obs) != 3:
            chk.violation("triple-shape", dict(base, observed=obs))
            return False
        for k, name in enumerate(MEMBERS):
            if not close(obs[k], exp[k]):
                # the direct method is compared first: a caller() mismatch after it passed is the selector's
                clause = ("selector:" if how.startswith("caller") else "") + f"{name}:{model}:shift={'on' if shift else 'off'}"
                chk.violation(clause, dict(base, observed=obs, member=name))
                return False
        key = f"{how}/{style}"
        chk.extra.setdefault("call_variants", {})[key] = chk.extra.get("call_variants", {}).get(key, 0) + 1
    return True


# --------------------------------------------------------------------------
# sessions: triples held across later calls (MC_PairPotSession)
# --------------------------------------------------------------------------
def bind_env(b):
    return {k: q(b[k]) for k in ("eps", "sigma", "rc", "n", "A", "alpha", "r")}


def term_key(model, shift):
    return f"{model}|{'on' if shift else 'off'}"


def run_session(lib, sess, terms):
    """Make the calls of the session in order, keep every returned object (no copy).  terms: term_key -> Terms record.
    Returns (expected, value at return or None, value after the session)."""
    calls, held, fresh = sess["calls"], sess["held"], sess["fresh"]
    exps, vs = [], []
    for h in held:
        env = bind_env(h["bind"])
        t = terms[term_key(h["model"], h["shift"])]
        exps.append([float(ev(t[k], env)) for k in MEMBERS])
        vs.append({k: q(h["bind"][k]) for k in NAMES})
    if fresh:
        # one object per call, all results collected by a comprehension
        results = [call_model(lib, c["model"], v, h["shift"], c["via"])[0] for c, h, v in zip(calls, held, vs)]
        at_return = None
    else:
        objs, results, at_return = {}, [], []
        for c, h, v in zip(calls, held, vs):
            if c["ii"] not in objs:
                objs[c["ii"]] = lib.PairInteractions(v["r"], v["eps"], v["sigma"], v["rc"], h["shift"])
            res = call_model(lib, c["model"], v, h["shift"], c["via"], pi=objs[c["ii"]])[0]
            results.append(res)                              # the object itself is held
            at_return.append([float(x) for x in res])        # its value at the time of return
    return exps, at_return, [[float(x) for x in res] for res in results]


def replay_session(chk, lib, terms, sess):
    """Returns True / False (violation reported)."""
    calls = sess["calls"]
    used = {term_key(h["model"], h["shift"]) for h in sess["held"]}
    base = {"session": sess, "terms": {k: {m: terms[k][m] for m in MEMBERS} for k in used}}
    try:
        exps, at_return, finals = run_session(lib, sess, terms)
    except Exception as e:
        chk.violation(f"raises:{type(e).__name__}", dict(base, error=str(e)))
        return False
    for k, (now, exp) in enumerate(zip(finals, exps)):
        info = dict(base, call_index=k + 1, call=calls[k], expected=exp, held_value_after_the_session=now)
        if len(now) != 3:
            chk.violation("triple-shape", info)
            return False
        for j, name in enumerate(MEMBERS):
            if not close(now[j], exp[j]):
                if at_return is not None and not close(at_return[k][j], exp[j]):
                    # wrong already when it was returned although the point grid passed: an effect of the earlier calls
                    chk.violation(f"session:{name}:{calls[k]['model']}:wrong-at-return-after-earlier-calls",
                                  dict(info, value_at_return=at_return[k], member=name))
                else:
                    chk.violation(f"held:{name}:{calls[k]['model']}:changed-by-a-later-call",
                                  dict(info, value_at_return=None if at_return is None else at_return[k], member=name))
                return False
    return True


def run(tier, replay=None):
    common.import_lib()
    import PyMatterSim.static.hessians as lib
    chk = Check("C12", tier)
    chk.rule = ("TLC differentiates the documented energies (operator D on the monomial algebra of PairPot.tla) and checks "
                "D(s), D(D(s)), s'(r_c) and the force-shift identities against the documented closed forms as invariants in "
                "every state; one state per (model, shift, parameter point). Every emitted point is replayed at every distance "
                "of its grid into the direct method and into caller() (all parameters supplied); distinct = parameter points.")
    chk.rule += (" Boundary values of the domain (A = 0, A < 0, eps = 0, eps < 0, r_c = sigma) are "
                 "points of the grid; integer-valued numbers are also passed as Python ints, parameters of other models omitted, ipl_A omitted. "
                 "Sessions (MC_PairPotSession): all ordered pairs of calls of the pool followed by hash-chosen calls, every returned triple held "
                 "and compared after the last call (clauses InvHeld / KeepHeld).")
    chk.assumptions = ["identity of real-power sums is concluded from agreement on more distances than twice the number of monomials (invariant InvGrid)",
                       "Hertz: alpha > 1, cut-off = sigma when shifting (documented s'(r_c) = 0); non-integer alpha only for r < sigma; r = sigma excluded",
                       "float comparison at 1e-9 abs + 1e-9 rel"]
    if replay:
        case = common.load_replay(replay)["case"]
        if "session" in case:
            sess = case["session"]
            try:
                exps, at_return, finals = run_session(lib, sess, case["terms"])
                rows = [{"call": dict(c, **h["bind"], shift=h["shift"]), "expected[s1,s1c,s2]": e,
                         "at_return": None if at_return is None else at_return[k], "held_after_the_session": f}
                        for k, (c, h, e, f) in enumerate(zip(sess["calls"], sess["held"], exps, finals))]
            except Exception as e:
                rows = f"raises {type(e).__name__}: {e}"
            print(json.dumps({"fresh_object_per_call": sess["fresh"], "calls": rows}, indent=1))
            return 0
        env = env_of(case["par"], case["r"])
        exp = [float(ev(case["terms"][k], env)) for k in MEMBERS]
        try:
            obs, _ = call_model(lib, case["model"], numbers(case["par"], case["r"], case.get("style", "float")),
                                case["shift"], case["how"])
            obs = [float(x) for x in obs]
        except Exception as e:
            obs = f"raises {type(e).__name__}: {e}"
        print(json.dumps({"model": case["model"], "shift": case["shift"], "par": case["par"], "r": case["r"],
                          "how": case["how"], "style": case.get("style", "float"),
                          "expected[s1,s1c,s2]": case.get("expected", exp), "observed": obs}, indent=1))
        return 0
    r = run_tlc_sharded("MC_PairPot", dict(constants={"Tier": tier, "SEED": common.SEED % 1000}, invariants=INVS + ["Emit"]),
                        nshards=2 if tier == "quick" else 4)
    require_model_ok(r, "MC_PairPot")
    chk.add_tlc(r, "MC_PairPot invariants + emission")
    terms = {}
    points = []
    for c in r.cases:
        if c["m"] == "Terms":
            terms[(c["model"], c["shift"])] = c
        elif c["m"] == "Point":
            points.append(c)
    want = {(m, s) for m in ("lennard_jones", "inverse_power_law", "harmonic_hertz") for s in (True, False)}
    if set(terms) != want or not points:
        raise common.MachineryError(f"MC_PairPot emitted terms for {sorted(terms)} and {len(points)} points")
    chk.extra["monomials[s1,s1c,s2]"] = {f"{m}:{'on' if s else 'off'}": terms[(m, s)]["nmono"] for (m, s) in sorted(terms)}
    ndist = 0
    for pi_, p in enumerate(points):
        t = terms[(p["model"], p["shift"])]
        ok = True
        for i, rr in enumerate(p["rs"]):
            ok = check_point(chk, lib, t, p, rr, pi_ + i) and ok
            ndist += 1
            if not ok:
                break
        if ok:
            chk.ok(("A", p["model"], p["shift"], json.dumps(p["par"], sort_keys=True)),
                   sample={"model": p["model"], "shift": p["shift"], "par": p["par"], "r": p["rs"][0],
                           "expected[s1,s1c,s2]": [float(ev(t[k], env_of(p["par"], p["rs"][0]))) for k in MEMBERS]})
    chk.extra["distances_compared"] = ndist
    chk.extra["boundary_points"] = sum(1 for p in points if p.get("edge"))
    # histories: every triple handed out is held to the end of the session and compared then
    rs = run_tlc_sharded("MC_PairPotSession", dict(constants={"Tier": tier, "SEED": common.SEED % 1000},
                                                   invariants=SESSION_INVS + ["Emit"], properties=["KeepHeld"]),
                         nshards=2 if tier == "quick" else 4)
    require_model_ok(rs, "MC_PairPotSession")
    chk.add_tlc(rs, "MC_PairPotSession (InvHeld, KeepHeld) + emission")
    sessions = [c for c in rs.cases if c.get("m") == "Session"]
    if not sessions or not any(s["fresh"] for s in sessions) or all(s["fresh"] for s in sessions):
        raise common.MachineryError(f"MC_PairPotSession emitted {len(sessions)} sessions")
    tkeyed = {term_key(m, sh): t for (m, sh), t in terms.items()}
    nheld = 0
    nbad = 0
    for sess in sessions:
        if replay_session(chk, lib, tkeyed, sess):
            chk.ok(("S", sess["fresh"], json.dumps(sess["idx"])))
            nheld += len(sess["calls"])
        else:
            nbad += 1
            if nbad >= 5:
                break
    chk.extra["sessions"] = len(sessions)
    chk.extra["held_triples_compared"] = nheld
    chk.exhaustive = True
    return chk.finish()
