"""C12 — pair-potential derivatives (PyMatterSim.static.hessians.PairInteractions)
against spec/PairPot.tla.

TLC (MC_PairPot) differentiates the three documented energies with the operator D
of the monomial algebra, checks D(s), D(D(s)), s'(r_c) and the force-shift
identities against the closed forms of docs/hessian.md as invariants, and emits
(i) the canonical derivative terms per (model, shift) with Var leaves and (ii) a
grid of rational parameter points and distances (part of it moved by VERIF_SEED).
The harness binds the leaves, evaluates the terms with realeval and compares them
with lennard_jones(), inverse_power_law(n, A), harmonic_hertz(alpha) and
caller(InteractionParams) of the real code.
"""
import json

import numpy as np

from . import common
from .common import Check, run_tlc_sharded, require_model_ok
from .realeval import ev, close

INVS = ["InvFirst", "InvSecond", "InvCutoff", "InvShift1", "InvShift2", "InvNoSymLJ", "InvAlgebra",
        "InvLeaves", "InvGrid", "InvDomain", "InvLead"]
MEMBERS = ("s1", "s1c", "s2")


def q(x):
    return x[0] / x[1]


def env_of(par, r):
    return {"eps": q(par["eps"]), "sigma": q(par["sigma"]), "rc": q(par["rc"]), "n": q(par["n"]),
            "A": q(par["A"]), "alpha": q(par["alpha"]), "r": q(r)}


def call_model(lib, model, env, shift, how, adefault=False, numpy_floats=False):
    """Call the public API for one point.  `how` = "method" | "caller"."""
    H = lib
    cast = np.float64 if numpy_floats else float
    pi = H.PairInteractions(cast(env["r"]), cast(env["eps"]), cast(env["sigma"]), cast(env["rc"]), shift)
    if how == "caller":
        # every parameter is supplied: the selector must use those of the requested model only
        ip = H.InteractionParams(model_name=H.ModelName[model], ipl_n=env["n"], ipl_A=env["A"],
                                 harmonic_hertz_alpha=env["alpha"])
        return pi.caller(ip)
    if model == "lennard_jones":
        return pi.lennard_jones()
    if model == "inverse_power_law":
        if adefault:
            return pi.inverse_power_law(env["n"])          # documented default A = 1.0
        return pi.inverse_power_law(n=env["n"], A=env["A"])
    return pi.harmonic_hertz(alpha=env["alpha"])


def check_point(chk, lib, terms, point, r, idx):
    """Compare the triple at one (parameter point, distance).  Returns False on violation."""
    model, shift, par = point["model"], point["shift"], point["par"]
    env = env_of(par, r)
    exp = [float(ev(terms[k], env)) for k in MEMBERS]
    variants = [("method", False), ("caller", False)]
    if point.get("Adefault"):
        variants.append(("method-defaultA", False))
    if idx % 3 == 0:
        variants.append(("caller", True))            # numpy scalars, as diagonalize_hessian passes them
    for how, npf in variants:
        base = {"model": model, "shift": shift, "par": par, "r": r, "how": how, "numpy_floats": npf,
                "terms": terms, "expected": exp}
        try:
            obs = call_model(lib, model, env, shift, "method" if how.startswith("method") else "caller",
                             adefault=(how == "method-defaultA"), numpy_floats=npf)
            obs = [float(x) for x in obs]
        except Exception as e:  # the library failing on a valid input is a violation
            chk.violation(f"raises:{type(e).__name__}", dict(base, error=str(e)))
            return False
        if len(obs) != 3:
            chk.violation("triple-shape", dict(base, observed=obs))
            return False
        for k, name in enumerate(MEMBERS):
            if not close(obs[k], exp[k]):
                # the direct method is compared first: a caller() mismatch after it passed is the selector's
                clause = ("selector:" if how == "caller" else "") + f"{name}:{model}:shift={'on' if shift else 'off'}"
                chk.violation(clause, dict(base, observed=obs, member=name))
                return False
    return True


def run(tier, replay=None):
    common.import_lib()
    import PyMatterSim.static.hessians as lib
    chk = Check("C12", tier)
    chk.rule = ("TLC differentiates the documented energies (operator D on the monomial algebra of PairPot.tla) and checks "
                "D(s), D(D(s)), s'(r_c) and the force-shift identities against the documented closed forms as invariants in "
                "every state; one state per (model, shift, parameter point). Every emitted point is replayed at every distance "
                "of its grid into the direct method and into caller() (all parameters supplied); distinct = parameter points.")
    chk.assumptions = ["identity of real-power sums is concluded from agreement on more distances than twice the number of monomials (invariant InvGrid)",
                       "Hertz: alpha > 1, cut-off = sigma when shifting (documented s'(r_c) = 0); non-integer alpha only for r < sigma; r = sigma excluded",
                       "float comparison at 1e-9 abs + 1e-9 rel"]
    if replay:
        case = common.load_replay(replay)["case"]
        env = env_of(case["par"], case["r"])
        exp = [float(ev(case["terms"][k], env)) for k in MEMBERS]
        try:
            obs = call_model(lib, case["model"], env, case["shift"],
                             "method" if case["how"].startswith("method") else "caller",
                             adefault=(case["how"] == "method-defaultA"), numpy_floats=case.get("numpy_floats", False))
            obs = [float(x) for x in obs]
        except Exception as e:
            obs = f"raises {type(e).__name__}: {e}"
        print(json.dumps({"model": case["model"], "shift": case["shift"], "par": case["par"], "r": case["r"],
                          "how": case["how"], "expected[s1,s1c,s2]": exp, "observed": obs}, indent=1))
        return 0
    r = run_tlc_sharded("MC_PairPot", dict(constants={"Tier": tier, "SEED": common.SEED % 1000}, invariants=INVS + ["Emit"]),
                        nshards=2 if tier == "quick" else 4)
    require_model_ok(r, "MC_PairPot")
    chk.add_tlc(r, "MC_PairPot invariants + emission")
    terms = {}
    points = []
    for c in r.cases:
        if c["m"] == "Terms":
            terms[(c["model"], c["shift"])] = c
        elif c["m"] == "Point":
            points.append(c)
    want = {(m, s) for m in ("lennard_jones", "inverse_power_law", "harmonic_hertz") for s in (True, False)}
    if set(terms) != want or not points:
        raise common.MachineryError(f"MC_PairPot emitted terms for {sorted(terms)} and {len(points)} points")
    chk.extra["monomials[s1,s1c,s2]"] = {f"{m}:{'on' if s else 'off'}": terms[(m, s)]["nmono"] for (m, s) in sorted(terms)}
    ndist = 0
    for pi_, p in enumerate(points):
        t = terms[(p["model"], p["shift"])]
        ok = True
        for i, rr in enumerate(p["rs"]):
            ok = check_point(chk, lib, t, p, rr, pi_ + i) and ok
            ndist += 1
            if not ok:
                break
        if ok:
            chk.ok(("A", p["model"], p["shift"], json.dumps(p["par"], sort_keys=True)),
                   sample={"model": p["model"], "shift": p["shift"], "par": p["par"], "r": p["rs"][0],
                           "expected[s1,s1c,s2]": [float(ev(t[k], env_of(p["par"], p["rs"][0]))) for k in MEMBERS]})
    chk.extra["distances_compared"] = ndist
    chk.exhaustive = True
    return chk.finish()
