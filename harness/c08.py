"""C08 — tabulated spherical harmonics (PyMatterSim.utils.spherical_harmonics) against spec/SphHarm.tla.

The TLA+ module derives, in factored exact arithmetic, the canonical table
  Y_lm = s_lm sqrt(B_lm/pi) e^{i m phi} sin^|m|(theta) Q_lm(cos theta),  0 <= |m| <= l <= 20,
from Rodrigues' formula; TLC checks its internal consistency (primitive Q, parity,
sectorial closed form, Unsold sum exactly for small l and modulo two primes for all l,
Bonnet recurrence across degrees, P_l(+-1), m -> -m) and prints the table as Real terms.
Direction A: the terms are evaluated (generic evaluator below, 40-digit mpmath / exact rationals)
on a 41 x 41 angle grid including the poles and compared with SphHarm1..10, SphHarm_above and the
dispatcher sph_harm_l.  Direction B: seeded random angles run through the real code and compared
with the same spec terms, together with the relations the property states on the code's own outputs
(Unsold sum, conjugation symmetry, phi-covariance identifying the order m = -l..l).
"""
import json
import math
import random
from fractions import Fraction

import numpy as np

from . import common
from .common import Check, run_tlc_sharded, require_model_ok

INVS = ["InvPrimitive", "InvParity", "InvSectorial", "InvNegM", "InvOrder", "InvUnsoldMod",
        "InvBonnetMod", "InvLegAtOne", "InvUnsoldExact", "InvW3jIndex", "InvW3jOrth"]


# --------------------------------------------------------------------------
# generic term evaluator: the Real.tla grammar plus
#   ["fq", sign, [[p, e], ...]]        factored rational  sign * prod p^e
#   ["poly", x, [[pow, coef], ...]]    sum coef * x^pow
#   ["gt", a, b]                       1 if a > b else 0  (the smallest |a - b| seen is kept in .margin)
#   ["call", name, [[var, term], ..]]  the closed macro `name` (TermEval.macros) with its variables bound
# Names (of variables and macros) are strings or tuples such as ("q", frame, i, m).
# Values stay exact (fractions.Fraction) as long as the operations allow it; otherwise
# double precision (mp=False) or mpmath at `dps` digits (mp=True).  No domain knowledge.
# --------------------------------------------------------------------------

def _isqrt_exact(n):
    r = math.isqrt(n)
    return r if r * r == n else None


class TermEval:
    def __init__(self, mp=False, dps=40):
        self.mp = mp
        self.margin = None
        self._fq = {}
        self.macros = {}
        self._const = {}          # id(term) -> value, for sub-terms of macro bodies without variables
        if mp:
            import mpmath
            self.m = mpmath.mp.clone()
            self.m.dps = dps

    # -- helpers
    @staticmethod
    def exact(v):
        return isinstance(v, (int, Fraction)) and not isinstance(v, bool)

    def inexact(self, v):
        if self.exact(v):
            v = Fraction(v)
            if self.mp:
                return self.m.mpf(v.numerator) / self.m.mpf(v.denominator)
            return v.numerator / v.denominator
        return v

    def is_complex(self, v):
        if self.mp:
            return isinstance(v, self.m.mpc)
        return isinstance(v, complex)

    def _pair(self, a, b):
        if self.exact(a) and self.exact(b):
            return Fraction(a), Fraction(b)
        return self.inexact(a), self.inexact(b)

    def to_complex(self, v):
        """python complex (for comparison with the library's double results)"""
        v = self.inexact(v)
        if self.mp:
            return complex(v)
        return complex(v)

    # -- macros: closed terms over their parameters; sub-terms without variables are evaluated once
    @staticmethod
    def _is_term(t):
        return isinstance(t, list) and len(t) > 0 and isinstance(t[0], str)

    def _has_var(self, t):
        if not isinstance(t, list):
            return False
        if self._is_term(t) and t[0] in ("var", "call"):
            return True
        return any(self._has_var(x) for x in t)

    def _partial(self, t):
        if not isinstance(t, list):
            return t
        if self._is_term(t):
            if not self._has_var(t):
                return self.ev(t)
            return [t[0]] + [self._partial(x) for x in t[1:]]
        return [self._partial(x) for x in t]

    def define_macro(self, name, body):
        self.macros[name if isinstance(name, str) else tuple(name)] = self._partial(body)

    def define(self, defs, env):
        """evaluate an ordered list of definitions [[name, term], ...] into env"""
        for name, term in defs:
            env[name if isinstance(name, str) else tuple(name)] = self.ev(term, env)
        return env

    # -- evaluation
    def ev(self, t, env=None):
        if not isinstance(t, (list, tuple)):      # a number (literal or pre-evaluated sub-term)
            return t
        op = t[0]
        if op == "q":
            return Fraction(t[1], t[2])
        if op == "fq":
            key = (t[1], tuple(map(tuple, t[2])))
            v = self._fq.get(key)
            if v is None:
                v = Fraction(t[1])
                for p, e in t[2]:
                    v *= Fraction(p) ** e
                self._fq[key] = v
            return v
        if op == "pi":
            return self.m.pi() if self.mp else math.pi
        if op == "var":
            k = t[1]
            return env[k if isinstance(k, str) else tuple(k)]
        if op == "call":
            k = t[1]
            body = self.macros[k if isinstance(k, str) else tuple(k)]
            return self.ev(body, {b[0]: self.ev(b[1], env) for b in t[2]})
        if op == "add":
            s = Fraction(0)
            for x in t[1]:
                a, b = self._pair(s, self.ev(x, env))
                s = a + b
            return s
        if op == "mul":
            s = Fraction(1)
            for x in t[1]:
                a, b = self._pair(s, self.ev(x, env))
                s = a * b
            return s
        if op == "div":
            a, b = self._pair(self.ev(t[1], env), self.ev(t[2], env))
            return a / b
        if op == "neg":
            return -self.ev(t[1], env)
        if op == "powi":
            b = self.ev(t[1], env)
            n = int(t[2])
            if self.exact(b):
                return Fraction(b) ** n
            return b ** n
        if op == "poly":
            x = self.ev(t[1], env)
            s = Fraction(0)
            for pw, c in t[2]:
                cv = self.ev(c, env)
                if self.exact(x):
                    term = Fraction(x) ** pw
                else:
                    term = x ** pw if pw else (self.m.mpf(1) if self.mp else 1.0)
                a, b = self._pair(cv, term)
                a, b = self._pair(s, a * b)
                s = a + b
            return s
        if op == "sqrt":
            v = self.ev(t[1], env)
            if self.exact(v):
                v = Fraction(v)
                if v >= 0:
                    rn, rd = _isqrt_exact(v.numerator), _isqrt_exact(v.denominator)
                    if rn is not None and rd is not None:
                        return Fraction(rn, rd)
                v = self.inexact(v)
            if self.mp:
                return self.m.sqrt(v)
            import cmath
            return cmath.sqrt(v) if isinstance(v, complex) or v < 0 else math.sqrt(v)
        if op in ("exp", "cos", "sin", "log"):
            v = self.ev(t[1], env)
            if self.exact(v) and v == 0 and op != "log":
                return Fraction(0 if op == "sin" else 1)
            v = self.inexact(v)
            if self.mp:
                return getattr(self.m, op)(v)
            import cmath
            if isinstance(v, complex):
                return getattr(cmath, op)(v)
            return getattr(math, op)(v)
        if op == "powt":
            a, b = self.inexact(self.ev(t[1], env)), self.inexact(self.ev(t[2], env))
            return a ** b
        if op == "cplx":
            re, im = self.ev(t[1], env), self.ev(t[2], env)
            if self.exact(im) and im == 0:
                return re
            re, im = self.inexact(re), self.inexact(im)
            return self.m.mpc(re, im) if self.mp else complex(re, im)
        if op == "conj":
            v = self.ev(t[1], env)
            if self.is_complex(v):
                return self.m.conj(v) if self.mp else v.conjugate()
            return v
        if op == "re":
            v = self.ev(t[1], env)
            return v.real if self.is_complex(v) else v
        if op == "im":
            v = self.ev(t[1], env)
            return v.imag if self.is_complex(v) else Fraction(0)
        if op == "abs2":
            v = self.ev(t[1], env)
            if self.is_complex(v):
                return v.real * v.real + v.imag * v.imag
            return v * v
        if op == "abs":
            v = self.ev(t[1], env)
            return abs(v)
        if op == "zeta":
            k, m = t[1] % t[2], t[2]
            if (4 * k) % m == 0:
                q = (4 * k) // m
                if q == 0:
                    return Fraction(1)
                if q == 2:
                    return Fraction(-1)
                return (self.m.mpc(0, 1 if q == 1 else -1) if self.mp else complex(0, 1 if q == 1 else -1))
            ang = 2 * self.inexact(Fraction(k, m)) * (self.m.pi() if self.mp else math.pi)
            return self.m.expj(ang) if self.mp else complex(math.cos(ang), math.sin(ang))
        if op == "gt":
            a, b = self._pair(self.ev(t[1], env), self.ev(t[2], env))
            d = abs(a - b)
            d = float(d)
            if self.margin is None or d < self.margin:
                self.margin = d
            return Fraction(1 if a > b else 0)
        raise ValueError(f"unknown term constructor {op!r}")


def cclose(obs, exp, atol=1e-9, rtol=1e-9):
    obs, exp = complex(obs), complex(exp)
    if math.isnan(obs.real) or math.isnan(obs.imag):
        return False
    return abs(obs - exp) <= atol + rtol * abs(exp)


# --------------------------------------------------------------------------
# the table as emitted by TLC
# --------------------------------------------------------------------------

def model_check(chk, tier):
    r = run_tlc_sharded("MC_SphHarm", dict(constants={"Tier": tier, "Mode": "check"}, invariants=INVS), nshards=7)
    require_model_ok(r, "MC_SphHarm invariants")
    chk.add_tlc(r, "MC_SphHarm table invariants (l = 0..20)")


def emit_table(chk=None):
    g = run_tlc_sharded("MC_SphHarm", dict(constants={"Tier": "quick", "Mode": "table"}, invariants=["Emit"]), nshards=3)
    require_model_ok(g, "MC_SphHarm table emission")
    tab = {c["l"]: c for c in g.cases if c.get("kind") == "table"}
    if sorted(tab) != list(range(21)):
        raise common.MachineryError(f"table emission incomplete: degrees {sorted(tab)}")
    if chk is not None:
        chk.add_tlc(g, "MC_SphHarm table emission")
    return tab


class Table:
    """Evaluates the emitted table; theta-parts and phi-parts are cached per angle
    (each entry is a product of a term in theta and a term in phi)."""

    def __init__(self, tab, mp=True):
        self.tab = tab
        self.te = TermEval(mp=mp)
        self._th = {}
        self._ph = {}

    def angle(self, x):
        """a python float angle as the evaluator's number (exactly the double value)"""
        return self.te.m.mpf(x) if self.te.mp else float(x)

    def row(self, l, theta, phi):
        """expected [Y_{l,-l} .. Y_{l,l}] as python complex numbers"""
        case = self.tab[l]
        kt, kp = (l, theta), (l, phi)
        if kt not in self._th:
            env = {"theta": self.angle(theta)}
            self._th[kt] = [self.te.inexact(self.te.ev(e["ytheta"], env)) for e in case["entries"]]
        if kp not in self._ph:
            env = {"phi": self.angle(phi)}
            self._ph[kp] = [self.te.inexact(self.te.ev(e["yphi"], env)) for e in case["entries"]]
        return [complex(a * b) for a, b in zip(self._th[kt], self._ph[kp])]


def spec_sanity(tab, chk):
    """Guards the specification (not the oracle): canonical table vs scipy.special.sph_harm_y."""
    try:
        from scipy.special import sph_harm_y
    except ImportError:
        chk.extra["spec_sanity"] = "scipy.special.sph_harm_y not available"
        return
    T = Table(tab, mp=True)
    worst = 0.0
    n = 0
    for theta in (0.0, 0.37, 1.1, math.pi / 2, 2.5, math.pi):
        for phi in (-2.9, -0.4, 0.0, 1.3, math.pi):
            for l in range(0, 21):
                exp = T.row(l, theta, phi)
                for k, m in enumerate(tab[l]["order"]):
                    ref = complex(sph_harm_y(l, m, theta, phi))
                    worst = max(worst, abs(ref - exp[k]))
                    n += 1
    chk.extra["spec_sanity"] = {"against": "scipy.special.sph_harm_y", "values": n, "max_abs_diff": worst}
    if worst > 1e-10:
        raise common.MachineryError(f"spec sanity: canonical table differs from scipy.special.sph_harm_y by {worst}")


# --------------------------------------------------------------------------
# comparison with the code
# --------------------------------------------------------------------------

def _call(fn, *a):
    try:
        out = fn(*a)
    except Exception as e:  # noqa
        return None, f"raises:{type(e).__name__}"
    return out, None


def check_point(chk, T, sh, l, theta, phi, which, relations=True, history=False):
    """Compare one call with the table row.  Returns True when everything agreed.
    history: the two-call history Call(a); the caller overwrites its result in place; Call(a) - Y_lm is a
    function of (l, theta, phi), so the second call must equal the table as well."""
    if history is True:
        if not check_point(chk, T, sh, l, theta, phi, which, relations=False, history="scribble"):
            return False
        return check_point(chk, T, sh, l, theta, phi, which, relations=relations, history="second")
    case = T.tab[l]
    name = {"direct": f"SphHarm{l}" if l <= 10 else "SphHarm_above", "dispatch": "sph_harm_l"}[which]
    info = {"fn": name, "l": l, "theta": theta, "phi": phi}
    if which == "direct":
        if l <= 10:
            out, err = _call(getattr(sh, f"SphHarm{l}"), theta, phi)
        else:
            out, err = _call(sh.SphHarm_above, l, theta, phi)
    else:
        out, err = _call(sh.sph_harm_l, case["dispatch"], theta, phi)
    if err:
        chk.violation(err, info)
        return False
    if out is None:
        chk.violation("dispatcher:returns None", info)
        return False
    raw = out
    out = np.array(out)
    if history == "scribble" and isinstance(raw, np.ndarray) and raw.flags.writeable:
        raw[...] = 7.0          # the caller's own array: y *= w, y[:] = ... is ordinary use
    order = case["order"]
    if out.shape != (len(order),):
        chk.violation("order:length is not 2l+1" if which == "direct" else "dispatcher:wrong degree (length)",
                      dict(info, observed_shape=list(out.shape), expected_len=len(order)))
        return False
    exp = T.row(l, theta, phi)
    bad = [k for k in range(len(order)) if not cclose(out[k], exp[k])]
    if bad:
        k = bad[0]
        rev = exp[::-1]
        clause = "table:value"
        if all(cclose(out[j], rev[j]) for j in range(len(order))):     # the right functions in the order m = l..-l
            clause = "order:m not ascending -l..l"
        if which == "dispatch":
            clause = "dispatcher:" + clause
        if history == "second":
            clause = "history:second call after the caller overwrote the first result:" + clause
        chk.violation(clause, dict(info, m=order[k], slot=k, wrong_slots=len(bad), expected=[exp[k].real, exp[k].imag],
                                   observed=[float(out[k].real), float(out[k].imag)]))
        return False
    if relations:
        te = T.te
        uns = float(te.inexact(te.ev(case["unsold"])))
        s = float(np.sum(np.abs(out) ** 2))
        if not abs(s - uns) <= 1e-9 + 1e-9 * uns:
            chk.violation("relation:Unsold sum", dict(info, expected=uns, observed=s))
            return False
        for k, m in enumerate(order):
            if m > 0:
                a, b = out[l - m], ((-1) ** m) * np.conj(out[l + m])
                if not cclose(a, b):
                    chk.violation("relation:Y_l,-m = (-1)^m conj Y_lm", dict(info, m=m))
                    return False
    return True


def check_covariance(chk, T, sh, l, theta, phi, delta):
    """Y_lm(theta, phi + delta) = e^{i m delta} Y_lm(theta, phi) on the code's own outputs: identifies the
    order m of every slot independently of the table."""
    a, e1 = _call(sh.sph_harm_l, l, theta, phi)
    b, e2 = _call(sh.sph_harm_l, l, theta, phi + delta)
    if e1 or e2 or a is None or b is None:
        chk.violation(e1 or e2 or "dispatcher:returns None", {"fn": "sph_harm_l", "l": l, "theta": theta, "phi": phi})
        return False
    a, b = np.asarray(a), np.asarray(b)
    te = TermEval()
    for k, m in enumerate(T.tab[l]["order"]):
        rot = complex(te.inexact(te.ev(T.tab[l]["entries"][k]["yphi"], {"phi": delta})))
        if not cclose(b[k], rot * a[k]):
            chk.violation("order:phi-covariance e^{i m delta}", {"fn": "sph_harm_l", "l": l, "theta": theta,
                                                                  "phi": phi, "delta": delta, "slot": k, "m": m})
            return False
    return True


def run(tier, replay=None):
    chk = Check("C08", tier)
    chk.rule = ("TLC derives the canonical Y_lm table (0<=|m|<=l<=20) in factored exact arithmetic and checks its "
                "consistency invariants; A: the emitted terms are evaluated at 40 digits on a 41x41 (theta,phi) grid incl. "
                "poles and phi=+-pi and compared with SphHarm1..10, SphHarm_above(11..20) and sph_harm_l(1..20), slot by slot "
                "in the order m=-l..l; B: seeded random angles (python and numpy floats) through the real code vs the same terms, "
                "plus Unsold sum, conjugation symmetry and phi-covariance on the code's own outputs, and two-call histories "
                "(call, the caller overwrites the returned array in place, same call again: Y_lm is a function of its arguments). "
                "distinct_nontrivial = (function, l, angle pair) combinations compared (2l+1 complex values each).")
    chk.assumptions = ["identity in both angles is concluded from agreement on 41 theta x 41 phi points (> degree of the "
                       "trigonometric polynomials in the source) plus random points: interpolation, not a symbolic proof",
                       "comparison tolerance 1e-9 abs + 1e-9 rel; expected values evaluated with mpmath at 40 digits",
                       "the canonical table is cross-checked once with scipy.special.sph_harm_y (spec sanity, not the oracle)"]
    try:
        common.import_lib()
        from PyMatterSim.utils import spherical_harmonics as sh
    except common.MachineryError:
        raise
    except Exception as e:  # the module under test cannot be imported: the routine delivers nothing
        chk.violation(f"import:{type(e).__name__}", {"module": "PyMatterSim.utils.spherical_harmonics", "error": str(e)[:300]},
                      finding_key="import spherical_harmonics")
        return chk.finish()

    if replay:
        case = common.load_replay(replay)["case"]
        tab = emit_table()
        T = Table(tab)
        l, th, ph = case["l"], case["theta"], case["phi"]
        which = "dispatch" if case.get("fn") == "sph_harm_l" else "direct"
        okay = check_point(chk, T, sh, l, th, ph, which, history=True)
        print(json.dumps({"case": case, "expected_row": [[z.real, z.imag] for z in T.row(l, th, ph)], "agrees_now": okay}, indent=1))
        return chk.finish()

    model_check(chk, tier)
    tab = emit_table(chk)
    spec_sanity(tab, chk)
    T = Table(tab)
    chk.exhaustive = True   # every entry of the table, every l in 1..20, is compared

    # l = 0 (outside the statement's 1..10, checked as a bonus: a constant)
    y0, err = _call(sh.SphHarm0)
    if err or not cclose(y0, T.row(0, 0.3, 0.2)[0]):
        chk.violation(err or "table:value", {"fn": "SphHarm0", "l": 0, "theta": 0.3, "phi": 0.2})

    # ---- direction A: the grid
    nth = 41
    thetas = [math.pi * i / (nth - 1) for i in range(nth)]
    phis = [-math.pi + 2 * math.pi * j / 40 for j in range(41)]
    rng = random.Random(common.SEED * 104729 + 8)
    sub = set()
    if tier == "quick":       # dispatcher for l > 10 on a seeded sub-grid (it is the same code path as SphHarm_above)
        while len(sub) < 250:
            sub.add((rng.randrange(nth), rng.randrange(41)))
    failed = set()
    for l in range(1, 21):
        for i, th in enumerate(thetas):
            for j, ph in enumerate(phis):
                for which in ("direct", "dispatch"):
                    if (which, l) in failed:
                        continue
                    if which == "dispatch" and l > 10 and tier == "quick" and (i, j) not in sub \
                            and not (i in (0, nth - 1) and j % 10 == 0):
                        continue
                    if check_point(chk, T, sh, l, th, ph, which, relations=(which == "direct")):
                        chk.ok(("A", which, l, i, j), sample={"fn": which, "l": l, "theta": th, "phi": ph,
                                                             "expected_first": [T.row(l, th, ph)[0].real, T.row(l, th, ph)[0].imag]}
                               if (l, i, j) in ((10, 13, 7), (17, 29, 3)) and which == "direct" else None)
                    else:
                        failed.add((which, l))      # one replay per (function, degree) is enough
    # ---- direction B: seeded random angles, python floats and numpy scalars, phi-covariance
    nrand = 60 if tier == "quick" else 600
    for n in range(nrand):
        th = rng.uniform(0.0, math.pi)
        ph = -rng.uniform(-math.pi, math.pi)          # (-pi, pi]
        if n % 3 == 1:
            th, ph = np.float64(th), np.float64(ph)
        for l in range(1, 21):
            for which in ("direct", "dispatch"):
                if (which, l) in failed:
                    continue
                if check_point(chk, T, sh, l, float(th) if n % 3 != 1 else th, float(ph) if n % 3 != 1 else ph, which,
                               history=(n % 2 == 0)):
                    chk.ok(("B", which, l, n))
                else:
                    failed.add((which, l))
            if n < (8 if tier == "quick" else 40) and ("cov", l) not in failed:
                if check_covariance(chk, T, sh, l, float(th), float(ph), rng.uniform(0.2, 1.4)):
                    chk.ok(("B", "cov", l, n))
                else:
                    failed.add(("cov", l))
    chk.extra["grid"] = {"theta_points": nth, "phi_points": 41, "random_points": nrand}
    return chk.finish()
