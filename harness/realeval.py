"""Generic evaluator of Real.tla terms (no domain knowledge).

A term is a nested list: ["q",n,d] | ["pi"] | ["add",[t..]] | ["mul",[t..]] |
["div",a,b] | ["neg",a] | ["sqrt",a] | ["powi",a,n] | ["powt",a,b] | ["exp",a] |
["log",a] | ["cos",a] | ["sin",a] | ["cplx",re,im] | ["conj",a] | ["re",a] |
["im",a] | ["abs2",a] | ["abs",a] | ["zeta",k,M] | ["var",name]
A bare integer is accepted as an integer literal.
"""
import cmath
import math


def ev(t, env=None):
    if isinstance(t, (int, float)) and not isinstance(t, bool):
        return t
    op = t[0]
    if op == "q":
        return t[1] / t[2] if t[2] != 1 else float(t[1])
    if op == "pi":
        return math.pi
    if op == "add":
        s = 0.0
        for x in t[1]:
            s = s + ev(x, env)
        return s
    if op == "mul":
        s = 1.0
        for x in t[1]:
            s = s * ev(x, env)
        return s
    if op == "div":
        return ev(t[1], env) / ev(t[2], env)
    if op == "neg":
        return -ev(t[1], env)
    if op == "sqrt":
        v = ev(t[1], env)
        return cmath.sqrt(v) if isinstance(v, complex) else math.sqrt(v)
    if op == "powi":
        return ev(t[1], env) ** int(t[2])
    if op == "powt":
        return ev(t[1], env) ** ev(t[2], env)
    if op == "exp":
        v = ev(t[1], env)
        return cmath.exp(v) if isinstance(v, complex) else math.exp(v)
    if op == "log":
        return math.log(ev(t[1], env))
    if op == "cos":
        return math.cos(ev(t[1], env))
    if op == "sin":
        return math.sin(ev(t[1], env))
    if op == "cplx":
        return complex(ev(t[1], env), ev(t[2], env))
    if op == "conj":
        v = ev(t[1], env)
        return v.conjugate() if isinstance(v, complex) else v
    if op == "re":
        v = ev(t[1], env)
        return v.real if isinstance(v, complex) else v
    if op == "im":
        v = ev(t[1], env)
        return v.imag if isinstance(v, complex) else 0.0
    if op == "abs2":
        v = ev(t[1], env)
        return (v.real ** 2 + v.imag ** 2) if isinstance(v, complex) else v * v
    if op == "abs":
        return abs(ev(t[1], env))
    if op == "zeta":
        k, m = t[1], t[2]
        k %= m
        # exact values at the quarter turns
        if (4 * k) % m == 0:
            return [1 + 0j, 1j, -1 + 0j, -1j][(4 * k) // m]
        return cmath.exp(2j * math.pi * k / m)
    if op == "var":
        return env[t[1]]
    if op == "arg":      # phase angle in (-pi, pi] (C10: modulus / phase averaging)
        return cmath.phase(complex(ev(t[1], env)))
    if op == "xlogx":    # x ln x continued by its limit 0 at x = 0 (C17: pair-entropy integrand)
        v = ev(t[1], env)
        return 0.0 if v == 0 else v * math.log(v)
    if op == "trapz":    # trapezoid rule: ["trapz", [x_1..x_n], [y_1..y_n]] (C17)
        xs = [ev(x, env) for x in t[1]]
        ys = [ev(y, env) for y in t[2]]
        return sum((xs[k + 1] - xs[k]) * (ys[k + 1] + ys[k]) / 2.0 for k in range(len(xs) - 1))
    if op == "acos":     # arccos in [0, pi]; nan outside [-1, 1] (X01: triangle_angle, packing capability)
        v = ev(t[1], env)
        return math.acos(v) if -1.0 <= v <= 1.0 else float("nan")
    if op == "nan":      # the documented formula has no value (X01)
        return float("nan")
    if op == "fq":       # factored rational sign * prod p^e: ["fq", sign, [[p, e], ...]] (SphHarm.tla ShFQ; X01: Wigner 3-j)
        v = float(t[1])
        for p_, e_ in t[2]:
            v *= float(p_) ** int(e_)
        return v
    raise ValueError(f"unknown term constructor {op!r}")


def close(obs, exp, atol=1e-9, rtol=1e-9):
    if isinstance(obs, complex) or isinstance(exp, complex):
        return abs(complex(obs) - complex(exp)) <= atol + rtol * abs(exp)
    if math.isnan(obs) or math.isnan(exp):
        return math.isnan(obs) and math.isnan(exp)
    return abs(obs - exp) <= atol + rtol * abs(exp)
