"""C06 - relaxation functions (PyMatterSim.dynamic.dynamics) against spec/Relaxation.tla.

Direction A: TLC runs the loop state machines of Relaxation.tla ("lin" = Dynamics.relaxation,
"log" = LogDynamics.relaxation, "s4" = Dynamics.sq4; one action per accumulated frame pair) on
every case of the MC_Relaxation scope with the clauses of C06 as INVARIANT / PROPERTY lines and
prints, per (case, variant), the expected rows (t, isf, Qt, X4_Qt, msd, alpha2) or S4 groups as
Real terms.  Every case is rendered into Snapshots objects (+ a neighbour file in the library's
format), the public routine is called and every column of every row is compared.
Direction B: seeded random decimal trajectories (T <= 12, N <= 12; some T = 40..70, some N = 100..300;
2-D/3-D, rectangular and triclinic cells, all modes, masks, neighbour lists; single calls and call
histories on one or two objects of one trajectory) are run through the real code; TraceRelaxation.tla
carries the loop state per record and the construction data per object, decides the discrete
observables and prints the expected rows as terms.
Scope audit (part "ext" of MC_Relaxation and the trace generator): constant triclinic cells with every
periodic mask and fractional displacements near +-1/2; call histories on one object (InvSession / the
session variable of TraceRelaxation); long trajectories (T = 40..70 through the loop machine, T = 260
with the direct operator RowsAt) and many particles; renderings of the arguments decided by the
specification's scope (aux.render) - diameters map in ascending / descending / rotated insertion order
with absent species, integer-valued diameters, mask arrays of bool / int8 / int64 / strided / Fortran
layout, dt as int, large timestep labels, decimal time steps with sq4's t given as the decimal literal.
Python renders inputs, calls the API, evaluates terms and compares; it holds no definition.
"""
import json
import math
from fractions import Fraction
import os
import random
import shutil
import time
import warnings

import numpy as np

from . import common
from .common import Check, MachineryError, run_tlc, run_tlc_sharded, require_model_ok
from .realeval import ev, close

INVS = ["InvCounts", "InvPairs", "InvAlgDef", "InvChi4", "InvLog", "InvWrapped", "InvBoth",
        "InvSlowFast", "InvIsf", "InvMinImage", "InvWellFormed", "Emit"]
PROPS = ["EveryOriginLagPairOnce"]
COLS = ["t", "isf", "Qt", "X4_Qt", "msd", "alpha2"]


# --------------------------------------------------------------------------
# rendering of abstract inputs
# --------------------------------------------------------------------------

PLAIN = {"diaOrder": "asc", "diaDrop": 1, "diaInt": 0, "mask": "bool", "dtInt": 0, "tsoff": 0}


def make_snapshots(c, positions, ts, tsoff=0):
    """Every frame carries its own (equal) copy of the cell arrays and of the type array, as the dump reader
    delivers them; timestep labels are offset by tsoff * 10^9 (large labels)."""
    from PyMatterSim.reader.reader_utils import SingleSnapshot, Snapshots
    S = float(c["S"])
    H = np.array(c["H"], dtype=float) / S
    L = np.diag(H).copy()
    snaps = []
    for f in range(c["T"]):
        snaps.append(SingleSnapshot(
            timestep=int(ts[f]) + int(tsoff) * 10 ** 9, nparticle=c["N"], particle_type=np.array(c["types"], dtype=int),
            positions=np.array(positions[f], dtype=float) / S, boxlength=L.copy(),
            boxbounds=np.column_stack((np.zeros(c["d"]), L)), realbounds=None, hmatrix=H.copy()))
    return Snapshots(nsnapshots=len(snaps), snapshots=snaps)


def write_neighbor_file(c, path):
    with open(path, "w") as f:
        for fr in c["nb"]:
            f.write("id     cn     neighborlist\n")
            for i, lst in enumerate(fr):
                f.write(f"{i + 1}     {len(lst)}     " + " ".join(str(j) for j in lst) + "\n")


def q_value(q):
    if q["pi"] != 1 and q["d"] == 1:
        return int(q["n"])                           # an integer wavenumber is passed as a Python int
    v = q["n"] / q["d"]
    return v * math.pi if q["pi"] == 1 else v


def diameters_map(c, render):
    """The diameters dict in the insertion order / value types the rendering asks for."""
    keys = list(range(1, len(c["dia"]) + 1))
    if render["diaDrop"] == 1:
        present = set(c["types"])
        keys = [k for k in keys if k in present]
    if render["diaOrder"] == "desc":
        keys = keys[::-1]
    elif render["diaOrder"] == "rot":
        keys = keys[1:] + keys[:1]
    out = {}
    for k in keys:
        n, d = c["dia"][k - 1]
        out[k] = int(n) if (render["diaInt"] == 1 and d == 1) else n / d
    return out


def mask_array(m, kind):
    """A 0/1 selection (list) as the array flavour the rendering asks for."""
    b = np.array(m, dtype=bool)
    if kind == "int8":
        return b.astype(np.int8)
    if kind == "int64":
        return b.astype(np.int64)
    if kind == "strided":                            # a non-contiguous view: every second column of a wider array
        big = np.zeros(b.shape[:-1] + (2 * b.shape[-1] + 1,), dtype=bool)
        big[..., 1::2] = b
        v = big[..., 1::2]
        assert not v.flags["C_CONTIGUOUS"] or v.size <= 1
        return v
    if kind == "fortran":
        return np.asfortranarray(b)
    return b


def dt_value(dt, render):
    if render["dtInt"] == 1 and dt[1] == 1:
        return int(dt[0])
    return dt[0] / dt[1]


def ctor_kwargs(c, ts, tmpdir, render, dt=None, force_dt=False):
    """Constructor arguments shared by every object built from the case (the Snapshots objects are shared)."""
    kw = {}
    if c["mode"] in ("xu", "both"):
        kw["xu_snapshots"] = make_snapshots(c, c["xu"], ts, render["tsoff"])
    if c["mode"] in ("x", "both"):
        kw["x_snapshots"] = make_snapshots(c, c["x"], ts, render["tsoff"])
    kw["ppp"] = np.array(c["ppp"])
    kw["diameters"] = diameters_map(c, render)
    kw["a"] = c["a"][0] / c["a"][1]
    if c["hasNb"] == 1:
        path = os.path.join(tmpdir, "nb.dat")
        write_neighbor_file(c, path)
        kw["neighborfile"] = path
        if c["nmax"] != 30:
            kw["max_neighbors"] = c["nmax"]
    if dt is not None:
        dtv = dt_value(dt, render)
        if force_dt or dtv != 0.002:
            kw["dt"] = dtv                           # else: the documented default
    return kw


def build(c, ts, variant, tmpdir, render=PLAIN):
    """-> (class, kwargs of the constructor that depend on the case)"""
    from PyMatterSim.dynamic.dynamics import Dynamics, LogDynamics
    cls = LogDynamics if variant == "log" else Dynamics
    kw = ctor_kwargs(c, ts, tmpdir, render)
    kw["cal_type"] = c["cal"]
    return cls, kw


def cond_array(c, variant, render=PLAIN):
    if c["hasCond"] != 1:
        return None
    m = c["cond"][0] if variant == "log" else c["cond"]
    return mask_array(m, render["mask"])


def relax_kwargs(c, variant, render=PLAIN, outputfile=""):
    rk = {}
    if not (c["q"]["pi"] == 1 and c["q"]["n"] == 2 and c["q"]["d"] == 1):
        rk["qconst"] = q_value(c["q"])               # else: the documented default 2 pi
    cond = cond_array(c, variant, render)
    if cond is not None:
        rk["condition"] = cond
    if outputfile:
        rk["outputfile"] = outputfile
    return rk


def sq4_kwargs(c, ts, dt, tnum, numofq, render=PLAIN, outputfile=""):
    """t = tnum/10 sampling intervals, written the way a user writes it: the decimal literal of
    (tnum/10) * interval * dt, i.e. the double nearest to the exact product (not a product of doubles)."""
    t_exact = Fraction(tnum, 10) * (ts[1] - ts[0]) * Fraction(dt[0], dt[1])
    t = int(t_exact) if (render["dtInt"] == 1 and t_exact.denominator == 1) else float(t_exact)
    Lmax = max(c["H"][k][k] for k in range(c["d"])) / float(c["S"])
    sk = {"t": t, "qrange": (numofq + 0.5) * math.pi / Lmax}   # numofq = int(qrange * Lmax / pi), half a unit of margin
    cond = cond_array(c, "lin", render)
    if cond is not None:
        sk["condition"] = cond
    if outputfile:
        sk["outputfile"] = outputfile
    return sk


def call_relaxation(c, ts, dt, variant, tmpdir, outputfile="", render=PLAIN):
    cls, kw = build(c, ts, variant, tmpdir, render)
    dtv = dt_value(dt, render)
    if dtv != 0.002:
        kw["dt"] = dtv
    with warnings.catch_warnings():
        warnings.simplefilter("ignore")
        obj = cls(**kw)
        return obj.relaxation(**relax_kwargs(c, variant, render, outputfile))


def call_sq4(c, ts, dt, tnum, numofq, tmpdir, outputfile="", render=PLAIN):
    cls, kw = build(c, ts, "lin", tmpdir, render)
    kw["dt"] = dt_value(dt, render)
    with warnings.catch_warnings():
        warnings.simplefilter("ignore")
        obj = cls(**kw)
        return obj.sq4(**sq4_kwargs(c, ts, dt, tnum, numofq, render, outputfile))


def brief(c):
    return c


# --------------------------------------------------------------------------
# comparison of one result with the spec's expectation
# --------------------------------------------------------------------------

def is_undef(t):
    return isinstance(t, list) and len(t) == 1 and t[0] == "undef"


def compare_rows(chk, info, rows, df, tag="", nrows=None):
    """rows: list of spec rows (terms), each for its lag row["k"]; df: DataFrame returned by relaxation (nrows
    rows expected: one per lag 1..T-1).  -> (ok, nties)"""
    nrows = len(rows) if nrows is None else nrows
    if not hasattr(df, "columns"):
        chk.violation(tag + "Result", {**info, "returned": repr(df)[:200]})
        return False, 0
    if list(df.columns) != COLS:
        chk.violation(tag + "Columns", {**info, "columns": list(df.columns)})
        return False, 0
    if len(df) != nrows:
        chk.violation(tag + "Rows", {**info, "observed_rows": len(df)})
        return False, 0
    obs = {col: [float(x) for x in df[col].values] for col in COLS}
    info = {**info, "observed": obs if nrows <= 12 else {col: v[:6] for col, v in obs.items()}}
    nt = 0
    for row in rows:
        k = row["k"] - 1
        if row["mtie"]:
            nt += 1
            continue
        exp = {"t": ev(row["t"]), "isf": ev(row["isf"]), "msd": ev(row["msd"])}
        if not row["qtie"]:
            exp["Qt"] = ev(row["Qt"])
            if not is_undef(row["X4"]):
                exp["X4_Qt"] = ev(row["X4"])
        else:
            nt += 1
        if not is_undef(row["alpha2"]):
            exp["alpha2"] = ev(row["alpha2"])
        for col, e in exp.items():
            o = obs[col][k]
            tol = 1e-9 if col != "alpha2" else 1e-8
            if not close(o, e, tol, tol):
                clause = {"t": "TimeAxis", "isf": "ISF", "Qt": "Overlap", "X4_Qt": "Chi4", "msd": "MSD",
                          "alpha2": "Alpha2"}[col]
                chk.violation(tag + clause, {**info, "lag": row["k"], "column": col, "expected": e, "observed_value": o,
                                             "expected_row": exp})
                return False, nt
    return True, nt


def compare_s4(chk, info, s4, df, tag=""):
    if s4["empty"] or s4["qtie"] or s4["mtie"]:
        return None
    if not hasattr(df, "columns"):
        chk.violation(tag + "S4Result", {**info, "returned": repr(df)[:200]})
        return False
    if list(df.columns) != ["q", "Sq"]:
        chk.violation(tag + "S4Columns", {**info, "columns": list(df.columns)})
        return False
    qo = [float(x) for x in df["q"].values]
    so = [float(x) for x in df["Sq"].values]
    info = {**info, "observed": {"q": qo, "Sq": so}}
    if len(qo) != len(s4["groups"]):
        chk.violation(tag + "S4Groups", {**info, "expected_groups": len(s4["groups"])})
        return False
    for g, grp in enumerate(s4["groups"]):
        eq, es = ev(grp["q"]), ev(grp["S"])
        if not close(qo[g], eq, 2e-8, 1e-9):
            chk.violation(tag + "S4WaveNumber", {**info, "group": g, "expected_q": eq})
            return False
        if not close(so[g], es, 2e-8, 1e-9):
            chk.violation(tag + "S4Value", {**info, "group": g, "expected": es, "observed_value": so[g],
                                            "expected_all": [ev(x["S"]) for x in s4["groups"]]})
            return False
    return True


# --------------------------------------------------------------------------
# direction A
# --------------------------------------------------------------------------

def relations(chk, info, case, df, tmpdir):
    """Clauses of C06 that relate two runs, checked on the code's own outputs; the spec decides
    when they apply (smallDisp, no tie) and its invariants InvWrapped / InvLog state them on the model."""
    c, variant = case["c"], case["variant"]
    render = case.get("render", PLAIN)
    tie = any(r["mtie"] for r in case["rows"])
    # a displacement within 1e-6 of the slow/fast cut-off may be decided either way once the wrapped run has
    # gone through the (inexact) inverse cell matrix: Q and chi4 of such rows are not compared (DESIGN 3.3)
    qtie_rows = [r["k"] - 1 for r in case["rows"] if r["qtie"]]

    def comparable(a, b):
        a, b = np.array(a, dtype=float), np.array(b, dtype=float)
        for k in qtie_rows:
            if k < len(a) and k < len(b):
                a[k, 2:4] = b[k, 2:4] = 0.0
        # alpha2 = c <r^4>/<r^2>^2 - 1 is undefined at MSD = 0 (0/0 in one run, rounding noise in the other)
        if a.shape == b.shape and a.ndim == 2:
            still = (np.abs(a[:, 4]) < 1e-12) | (np.abs(b[:, 4]) < 1e-12)
            a[still, 5] = b[still, 5] = 0.0
        return a, b
    try:
        if variant == "lin" and c["mode"] == "x" and case["smallDisp"] and not tie:
            cu = dict(c, mode="xu")
            du = call_relaxation(cu, case["tsq"], case["dt"], "lin", tmpdir, render=render)
            ua, wa = comparable(du.values, df.values)
            if ua.shape != wa.shape or not np.allclose(ua, wa, rtol=1e-9, atol=1e-9, equal_nan=True):
                chk.violation("WrappedEqualsUnwrapped", {**info, "wrapped": df.values.tolist(), "unwrapped": du.values.tolist()})
                return False
            chk.extra["relation_wrapped_equals_unwrapped"] = chk.extra.get("relation_wrapped_equals_unwrapped", 0) + 1
        if variant == "log" and not tie:
            dl = call_relaxation(c, case["tsq"], case["dt"], "lin", tmpdir, render=render)
            a, b = dl.values[-1].copy(), df.values[-1].copy()
            a[3] = b[3] = 0.0            # chi4 of a single origin is 0 in both, up to rounding of <Q^2> - <Q>^2
            if abs(a[4]) < 1e-12 or abs(b[4]) < 1e-12:
                a[5] = b[5] = 0.0        # alpha2 undefined at MSD = 0
            if case["rows"] and case["rows"][-1]["qtie"]:
                a[2] = b[2] = 0.0        # cut-off tie: not decided
            if not np.allclose(a, b, rtol=1e-9, atol=1e-9, equal_nan=True):
                chk.violation("LogIsOriginZeroRestriction", {**info, "linear_last_row": dl.values[-1].tolist(),
                                                              "log_last_row": df.values[-1].tolist()})
                return False
            chk.extra["relation_log_last_row_is_linear_last_row"] = chk.extra.get("relation_log_last_row_is_linear_last_row", 0) + 1
    except Exception as e:
        chk.violation(f"raises:{type(e).__name__}", {**info, "error": str(e)[:300], "where": "relation"})
        return False
    return True


def replay_case(chk, case, tmpdir, csv=False, verbose=False):
    c, variant = case["c"], case["variant"]
    render = case.get("render", PLAIN)
    if case.get("kind") == "sess":
        return replay_session(chk, case, tmpdir)
    info = {"dir": "A", "variant": variant, "c": c, "dt": case["dt"], "tsq": case["tsq"], "render": render,
            "kind": case.get("kind", "fam")}
    if variant in ("lin", "log"):
        out = os.path.join(tmpdir, "relax.csv") if csv else ""
        try:
            df = call_relaxation(c, case["tsq"], case["dt"], variant, tmpdir, out, render=render)
        except Exception as e:
            chk.violation(f"raises:{type(e).__name__}", {**info, "error": str(e)[:300]})
            return False
        # the two forms the spec prints agree (exact rationals vs terms)
        for k, rx in enumerate(case["rowsX"]):
            row = case["rows"][k]
            if not close(ev(row["Qt"]), rx["Q"][0] / rx["Q"][1], 1e-12, 1e-12) or \
               not close(ev(row["msd"]), rx["r2"][0] / rx["r2"][1], 1e-12, 1e-12):
                raise MachineryError("term and exact rational disagree in an emitted case")
        if verbose:
            print(df.to_string())
            for row in case["rows"]:
                print({k: (ev(v) if isinstance(v, list) and not is_undef(v) else v) for k, v in row.items()})
        ok, nties = compare_rows(chk, info, case["rows"], df, tag=variant + ":", nrows=c["T"] - 1)
        for _ in range(nties):
            chk.tie()
        if ok and c["T"] * c["N"] <= 600:
            ok = relations(chk, info, case, df, tmpdir)
        if ok and csv:
            import pandas as pd
            back = pd.read_csv(out)
            if list(back.columns) != COLS or not np.allclose(back.values, df.values, rtol=1e-12, atol=1e-12, equal_nan=True):
                chk.violation(variant + ":CSV", info)
                return False
        return ok
    # s4
    s4 = case["s4"]
    if len(case["tround"]) != 1 or case["tround"][0] != s4["nt"]:
        chk.tie()
        return None
    info.update(nt=s4["nt"], tnum=case["tnum"], numofq=s4["numofq"], masks=s4["masks"] if c["N"] <= 12 else "...")
    if s4["empty"] or s4["qtie"] or s4["mtie"]:
        chk.tie()
        return None
    out = os.path.join(tmpdir, "s4.csv") if csv else ""
    try:
        df = call_sq4(c, case["tsq"], case["dt"], case["tnum"], s4["numofq"], tmpdir, out, render=render)
    except Exception as e:
        chk.violation(f"raises:{type(e).__name__}", {**info, "error": str(e)[:300]})
        return False
    if verbose:
        print(df.to_string())
        print([(ev(g["q"]), ev(g["S"])) for g in s4["groups"]])
    ok = compare_s4(chk, info, s4, df, tag="s4:")
    if ok and csv:
        import pandas as pd
        back = pd.read_csv(out)
        if list(back.columns) != ["q", "Sq"] or not np.allclose(back.values, df.values, rtol=1e-12, atol=1e-12):
            chk.violation("s4:CSV", info)
            return False
    return ok


class _Probe:
    """Collects the verdict of a comparison without reporting it (used to tell a history-dependent result from a
    result that is wrong on a fresh object as well)."""
    def __init__(self):
        self.hit = None

    def violation(self, clause, case, finding_key=None):
        if self.hit is None:
            self.hit = (clause, case)


def replay_session(chk, case, tmpdir):
    """One call history of the specification (MC_Relaxation!DoCall) on ONE object per mobility type: both objects
    are constructed first, from the same Snapshots objects; then the calls are made in the order of the
    history and every result is compared with the expectation the spec states for that call's arguments."""
    from PyMatterSim.dynamic.dynamics import Dynamics, LogDynamics
    c, variant, render = case["c"], case["variant"], case.get("render", PLAIN)
    cls = LogDynamics if variant == "log" else Dynamics
    hist = [{"kind": cl["call"]["kind"], "obj": cl["call"]["obj"], "q": cl["q"], "useCond": cl["call"]["useCond"]}
            for cl in case["calls"]]
    tsq, dt = case["tsq"], case["dt"]
    records, firsts = [], set()
    for cl in case["calls"]:                         # the history as trace records (for --replay)
        call = cl["call"]
        records.append({"op": variant if call["kind"] == "relax" else "s4",
                        "c": dict(c, cal=cl["cal"], q=cl["q"], hasCond=cl["hasCond"], cond=cl["cond"]),
                        "dt": dt, "tsq": tsq, "nt": call["nt"], "numofq": call["numofq"], "tnum": case["tnum"],
                        "render": render, "sid": call["obj"], "first": int(call["obj"] not in firsts), "share": 1})
        firsts.add(call["obj"])
    info = {"dir": "A", "variant": variant, "kind": "sess", "history": hist, "render": render, "records": records}
    s4_ok = len(case["tround"]) == 1
    other = {"slow": "fast", "fast": "slow"}
    try:
        with warnings.catch_warnings():
            warnings.simplefilter("ignore")
            kw = ctor_kwargs(c, tsq, tmpdir, render, dt=dt, force_dt=True)
            pristine = {k: [sn.positions.copy() for sn in kw[k].snapshots] for k in ("xu_snapshots", "x_snapshots") if k in kw}
            objs = {1: cls(cal_type=c["cal"], **kw), 2: cls(cal_type=other[c["cal"]], **kw)}
    except Exception as e:
        chk.violation(f"raises:{type(e).__name__}", {**info, "error": str(e)[:300], "where": "constructor"})
        return False
    ncmp = 0
    for j, cl in enumerate(case["calls"]):
        call, res = cl["call"], cl["result"]
        cc = dict(c, cal=cl["cal"], q=cl["q"], hasCond=cl["hasCond"], cond=cl["cond"])
        inf = {**info, "call_index": j, "call": hist[j]}
        tag = f"sess:{variant}:"
        try:
            with warnings.catch_warnings():
                warnings.simplefilter("ignore")
                if call["kind"] == "relax":
                    df = objs[call["obj"]].relaxation(**relax_kwargs(cc, variant, render))
                    probe = _Probe()
                    ok, nties = compare_rows(probe, inf, res["rows"], df, tag=tag)
                    for _ in range(nties):
                        chk.tie()
                    if not ok:
                        # the same call on a fresh object: is the result wrong, or does it depend on the history?
                        fresh = call_relaxation(cc, tsq, dt, variant, tmpdir, render=render)
                        p2 = _Probe()
                        okf, _ = compare_rows(p2, inf, res["rows"], fresh, tag=tag)
                        clause, cs = probe.hit
                        if okf:
                            clause = tag + "CallHistory:" + clause[len(tag):]
                        chk.violation(clause, {**cs, "fresh_object_agrees": bool(okf)})
                        return False
                    ncmp += 1
                else:
                    s4 = res["s4"]
                    if not s4_ok or case["tround"][0] != s4["nt"] or s4["empty"]:
                        chk.tie()                    # not asserted, and an empty subset makes the routine raise: call not made
                        continue
                    df = objs[call["obj"]].sq4(**sq4_kwargs(cc, tsq, dt, case["tnum"], s4["numofq"], render))
                    probe = _Probe()
                    ok = compare_s4(probe, {**inf, "masks": s4["masks"]}, s4, df, tag=tag)
                    if ok is None:
                        chk.tie()
                    elif not ok:
                        fresh = call_sq4(cc, tsq, dt, case["tnum"], s4["numofq"], tmpdir, render=render)
                        okf = compare_s4(_Probe(), inf, s4, fresh, tag=tag)
                        clause, cs = probe.hit
                        if okf:
                            clause = tag + "CallHistory:" + clause[len(tag):]
                        chk.violation(clause, {**cs, "fresh_object_agrees": bool(okf)})
                        return False
                    else:
                        ncmp += 1
        except Exception as e:
            chk.violation(f"raises:{type(e).__name__}", {**inf, "error": str(e)[:300]})
            return False
    # the trajectory handed to the constructors is an input, not a scratch area
    for k, frames in pristine.items():
        for f, arr in enumerate(frames):
            if not np.array_equal(kw[k].snapshots[f].positions, arr):
                chk.violation(f"sess:{variant}:InputModified", {**info, "which": k, "frame": f})
                return False
    chk.extra["session_calls_compared"] = chk.extra.get("session_calls_compared", 0) + ncmp
    return ncmp > 0


# --------------------------------------------------------------------------
# direction B
# --------------------------------------------------------------------------

NICE_L = [40, 50, 60, 80]
ODD_L = [35, 45, 55, 75]            # with integer tilts the fractional denominator is odd: no exact half-cell tie
DIAS = [[[1, 1], [1, 1], [1, 1]], [[1, 1], [2, 1], [3, 2]], [[3, 2], [1, 1], [2, 1]], [[1, 2], [2, 1], [1, 1]]]
PALETTES = [[1, 2], [1, 2], [1, 3], [2, 3], [1, 2, 3], [3], [2, 1]]
DTS = [[1, 500], [1, 100], [1, 4], [5, 2], [3, 10], [7, 10], [9, 1000], [3, 10000], [2, 1]]


def gen_render(rng):
    return {"diaOrder": rng.choice(["asc", "desc", "rot"]), "diaDrop": rng.randint(0, 1), "diaInt": rng.randint(0, 1),
            "mask": rng.choice(["bool", "bool", "int8", "int64", "strided", "fortran"]), "dtInt": rng.randint(0, 1),
            "tsoff": rng.choice([0, 0, 3, 40])}


def gen_case(rng, size="small"):
    """size: "small" (T <= 12, N <= 12), "longT" (T = 40..70, N <= 4), "bigN" (N = 100..300, T = 2, 3)"""
    d = rng.choice([2, 3])
    if size == "longT":
        T, N = rng.randint(40, 70), rng.randint(2, 4)
    elif size == "bigN":
        T, N = rng.choice([2, 3]), rng.randint(100, 300)
    else:
        T = rng.choice([2, 3, 4, 5, 6, 8, 10, 12])
        N = rng.randint(2, 12 if d == 2 else 8)
    S = 10
    mode = rng.choice(["xu", "x", "both"])
    tri = mode == "x" and rng.random() < 0.4         # LAMMPS-style triclinic cell, tilts of either sign
    lens = ODD_L if (tri and rng.random() < 0.6) else NICE_L
    if rng.random() < 0.5:
        box = [rng.choice(lens)] * d
    else:
        box = [rng.choice(lens) for _ in range(d)]
    if mode == "x":
        ppp = [1] * d
        if rng.random() < 0.4:                       # every non-zero mask occurs
            ppp = [rng.randint(0, 1) for _ in range(d)]
            if not any(ppp):
                ppp[rng.randrange(d)] = 1
    else:
        ppp = [rng.randint(0, 1) for _ in range(d)]
    styles = ["diffusive", "ballistic", "arrested", "mixed"]
    if mode == "x" and size == "small":
        styles += ["halfbox", "halfbox"]             # steps up to half a cell vector: fractional displacements near +-1/2
    style = rng.choice(styles) if size != "longT" else rng.choice(["slowdiff", "arrested", "mixed"])
    pos = [[rng.randrange(box[k]) for k in range(d)] for _ in range(N)]
    vel = [[rng.randint(-6, 6) for _ in range(d)] for _ in range(N)]
    xu = [[list(p) for p in pos]]
    for f in range(1, T):
        fr = []
        for i in range(N):
            if style == "halfbox":
                st = [rng.randint(-(box[k] // 2) + 1, box[k] // 2 - 1) for k in range(d)]
            elif style == "slowdiff" or (style == "mixed" and size == "longT" and i % 2 == 0):
                st = [rng.randint(-2, 2) for _ in range(d)]      # T <= 70: |dx| <= 140 units, below the 32-bit limit of the exact comparison
            elif style == "diffusive" or (style == "mixed" and i % 2 == 0):
                st = [rng.randint(-8, 8) for _ in range(d)]
            elif style == "ballistic":
                st = list(vel[i])
            else:
                st = [rng.choice([0, 0, 0, 1, -1]) for _ in range(d)]
            fr.append([xu[-1][i][k] + st[k] for k in range(d)])
        xu.append(fr)
    wrap_axes = [1] * d if mode == "both" else ppp
    H = [[box[i] if i == j else 0 for j in range(d)] for i in range(d)]
    if tri:
        for i in range(1, d):
            for j in range(i):
                H[i][j] = rng.choice([-1, 1]) * rng.randint(1, box[j] // 2)

    def wrap(v):
        # bring v into the cell along the wrapped axes (lower-triangular H: last axis first);
        # TraceRelaxation!WellFormed checks that x - xu is a lattice vector of those axes
        w = list(v)
        for k in range(d - 1, -1, -1):
            if wrap_axes[k] == 1:
                n = w[k] // H[k][k]
                w = [w[m] - n * H[k][m] for m in range(d)]
        return w
    x = [[wrap(xu[f][i]) for i in range(N)] for f in range(T)]
    hasCond = rng.randint(0, 1)
    cond = []
    for f in range(T):
        m = [rng.randint(0, 1) if hasCond else 1 for _ in range(N)]
        m[rng.randrange(N)] = 1
        cond.append(m)
    hasNb = rng.randint(0, 1)
    nb = []
    for f in range(T):
        fr = []
        cmax = rng.randint(1, min(3, N - 1))         # the largest coordination number differs between frames
        for i in range(N):
            others = [j + 1 for j in range(N) if j != i]
            cn = cmax if i == f % N else rng.randint(1, cmax)
            fr.append(rng.sample(others, cn))
        nb.append(fr)
    q = rng.choice([{"pi": 1, "n": 2, "d": 1}, {"pi": 1, "n": 1, "d": 1}, {"pi": 0, "n": 7, "d": 2},
                    {"pi": 0, "n": 31, "d": 10}, {"pi": 1, "n": 5, "d": 2}, {"pi": 0, "n": 3, "d": 1}])
    pal = rng.choice(PALETTES)
    c = {"d": d, "T": T, "N": N, "S": S, "H": H,
         "ppp": ppp, "ts": None, "types": [rng.choice(pal) for _ in range(N)],
         "dia": rng.choice(DIAS),
         "a": rng.choice([[3, 10], [1, 2], [3, 4]]), "cal": rng.choice(["slow", "fast"]), "mode": mode,
         "xu": xu, "x": x, "hasCond": hasCond, "cond": cond, "hasNb": hasNb, "nb": nb,
         "nmax": rng.choice([30, 30, 2]), "q": q}
    t0, iv = rng.choice([0, 50, 1000]), rng.choice([1, 10, 500])
    c["ts"] = [t0 + iv * f for f in range(T)]
    return c


def gen_session(rng, sid, size="small"):
    """-> the records of one or two analysis objects built from one trajectory: a single call, or a history of
    3-5 calls (other wavenumber, other / no selection, sq4 in between, a repeated call; possibly a second
    object of the other mobility type on the same Snapshots objects, calls interleaved)."""
    c = gen_case(rng, size)
    T = c["T"]
    cls_op = rng.choice(["lin", "lin", "log"])
    diag = all(c["H"][i][j] == 0 for i in range(c["d"]) for j in range(c["d"]) if i != j)
    dt = rng.choice(DTS)
    if cls_op == "log":
        tsq, cur = [], rng.choice([0, 7])
        for f in range(T):
            tsq.append(cur)
            cur += max(1, min(2 ** f // 2, 4096)) * rng.choice([1, 3])
    else:
        tsq = list(c["ts"])
    render = gen_render(rng)
    base = {"dt": dt, "tsq": tsq, "render": render}
    other_q = rng.choice([{"pi": 1, "n": 3, "d": 2}, {"pi": 0, "n": 11, "d": 4}, {"pi": 1, "n": 1, "d": 2}])
    cond2 = [list(m) for m in c["cond"][1:] + c["cond"][:1]]

    def rec(op, obj, q=None, use=None):
        cc = dict(c)
        if obj == 2:
            cc["cal"] = "fast" if c["cal"] == "slow" else "slow"
        if q is not None:
            cc["q"] = q
        if use is not None:
            cc["hasCond"] = 0 if use == 0 else 1
            cc["cond"] = c["cond"] if use != 2 else cond2
        nt = rng.randint(1, T - 1) if rng.random() < 0.9 else 0
        if size == "longT":
            nt = min(nt, rng.randint(1, 9))
        numofq = rng.choice([2, 4, 6]) if c["d"] == 2 else rng.choice([2, 2, 4])
        return {"op": op, "c": cc, **base, "nt": nt, "numofq": numofq,
                "tnum": 10 * nt + (rng.choice([-3, 0, 0, 4]) if nt > 0 else 0),
                "sid": 2 * sid + (obj - 1), "first": 0, "share": 2 * sid}
    if size != "small" or rng.random() < 0.6:
        op = cls_op if (cls_op == "log" or not diag or rng.random() < 0.7) else "s4"
        recs = [rec(op, 1)]
    else:
        relax = cls_op
        plan = rng.choice([
            [(relax, 1, None, 0), (relax, 1, other_q, 1), (relax, 1, None, 0)],
            [(relax, 1, other_q, 1), ("s4", 1, None, 1), (relax, 1, None, 2), (relax, 1, other_q, 1)],
            [(relax, 1, None, 1), (relax, 2, None, 1), ("s4", 2, None, 0), (relax, 1, other_q, 2), (relax, 1, None, 1)],
            [("s4", 1, None, 0), (relax, 2, other_q, 0), ("s4", 1, None, 1), (relax, 2, None, 2), ("s4", 1, None, 0)]])
        recs = [rec(op, obj, q, use) for (op, obj, q, use) in plan if op != "s4" or (cls_op == "lin" and diag)]
    seen = set()
    for r in recs:
        r["first"] = 0 if r["sid"] in seen else 1
        seen.add(r["sid"])
    return recs


def execute(recs, tmpdir):
    """Run the records through the library in order (objects are kept per sid; objects whose records name the same
    `share` are constructed from the same Snapshots objects) and fill in rec["obs"].  -> ctxs"""
    from PyMatterSim.dynamic.dynamics import Dynamics, LogDynamics
    objs, shared, ctxs = {}, {}, []
    for rec in recs:
        c, op, T = rec["c"], rec["op"], rec["c"]["T"]
        render = rec.get("render", PLAIN)
        ctx = {}
        dtv = rec["dt"][0] / rec["dt"][1]
        tnum = rec.get("tnum", 10 * rec["nt"])
        try:
            with warnings.catch_warnings():
                warnings.simplefilter("ignore")
                if rec["first"] == 1 or rec["sid"] not in objs:
                    key = rec.get("share", rec["sid"])
                    if key not in shared:
                        shared[key] = ctor_kwargs(c, rec["tsq"], tmpdir, render, dt=rec["dt"], force_dt=(op == "s4"))
                    cls = LogDynamics if op == "log" else Dynamics
                    objs[rec["sid"]] = cls(cal_type=c["cal"], **shared[key])
                obj = objs[rec["sid"]]
                if op == "s4":
                    df = obj.sq4(**sq4_kwargs(c, rec["tsq"], rec["dt"], tnum, rec["numofq"], render))
                    ctx["df"] = df
                    rec["obs"] = {"rows": len(df) if hasattr(df, "columns") else -1, "tq": [], "tq_ok": 1, "x4zero": 0}
                else:
                    df = obj.relaxation(**relax_kwargs(c, op, render))
                    ctx["df"] = df
                    if not hasattr(df, "columns") or list(df.columns) != COLS:
                        ctx["columns"] = list(getattr(df, "columns", []))
                        rec["obs"] = {"rows": -1, "tq": [0] * (T - 1), "tq_ok": 0, "x4zero": 0}
                    else:
                        tobs = [float(v) for v in df["t"].values]
                        tq = [int(round(v / dtv)) for v in tobs]
                        okq = all(abs(tq[k] * dtv - tobs[k]) <= 1e-9 * (1 + abs(tobs[k])) for k in range(len(tobs)))
                        rec["obs"] = {"rows": len(df), "tq": (tq + [0] * T)[:T - 1], "tq_ok": int(okq),
                                      "x4zero": int(bool(np.all(df["X4_Qt"].values == 0.0)))}
        except Exception as e:
            # an empty mobile subset makes sq4 divide by zero: outside the property, decided by the spec (s4.empty)
            ctx["raises"] = f"{type(e).__name__}: {str(e)[:200]}"
            rec["obs"] = {"rows": -1 if op != "s4" else 0, "tq": [0] * (T - 1), "tq_ok": 0, "x4zero": 0}
        ctxs.append(ctx)
    return ctxs


def trace_view(rec):
    """What the trace specification reads of a record."""
    return {k: rec[k] for k in ("op", "c", "dt", "tsq", "nt", "numofq", "sid", "first", "obs")}


def validate_records(records, timeout=3000):
    tmp = common.scratch_dir("verif_c06_")
    try:
        path = os.path.join(tmp, "trace.ndjson")
        with open(path, "w") as f:
            for rec in records:
                f.write(json.dumps(trace_view(rec), separators=(",", ":")) + "\n")
        r = run_tlc("TraceRelaxation", dict(invariants=["Accepted", "TraceAlgDef"]), workers=1, timeout=timeout,
                    env={"TRACE_FILE": path}, keep_stdout=True)
        out = r.stdout
        printed = {}
        for p in r.cases:
            printed.setdefault(p["rec"], p)      # TLC re-evaluates actions when it rebuilds an error trace
        if r.violated == "Accepted":
            bads = common._BAD.findall(out)
            ls = common._LVAL.findall(out)
            clause = [b for b in bads if b][-1] if any(bads) else "rejected"
            idx = int(ls[-1]) - 1 if ls else -1
            r.violated = None
            r.stdout = out[-2000:]
            return r, (idx, clause), printed
        if r.violated or r.error:
            raise MachineryError(f"trace validation with TraceRelaxation failed:\n{out[-3000:]}")
        if sorted(printed) != list(range(1, len(records) + 1)):
            raise MachineryError(f"TraceRelaxation consumed {len(printed)} of {len(records)} records without naming a clause")
        r.stdout = out[-1000:]
        return r, None, printed
    finally:
        shutil.rmtree(tmp, ignore_errors=True)


def group_of(rec):
    return rec.get("share", rec.get("sid"))


def check_trace(chk, recs, ctxs, max_rejects=4, chunk=40):
    """Validate records in chunks (one TLC process each, in parallel; the records of one trajectory - one or two
    objects, see gen_session - stay in one chunk) and compare the printed terms."""
    import concurrent.futures as cf
    chunks, s0 = [], 0
    for k in range(1, len(recs) + 1):
        if k == len(recs) or (k - s0 >= chunk and group_of(recs[k]) != group_of(recs[k - 1])):
            chunks.append((s0, recs[s0:k]))
            s0 = k

    def one(args):
        start, part = args
        res = []
        offset, todo, nrej = 0, list(part), 0
        while todo:
            r, rej, printed = validate_records(todo)
            res.append((start + offset, r, rej, printed, len(todo)))
            if rej is None:
                break
            idx = rej[0]
            if idx < 0:
                raise MachineryError("trace rejected without a record index")
            nrej += 1
            if nrej >= max_rejects:
                break
            skip = idx + 1                           # the remaining calls on the objects of a rejected record are not judged
            while skip < len(todo) and group_of(todo[skip]) == group_of(todo[idx]):
                skip += 1
            todo = todo[skip:]
            offset += skip
        return res

    with cf.ThreadPoolExecutor(max_workers=min(common.JOBS, max(1, len(chunks)))) as ex:
        results = [x for part in ex.map(one, chunks) for x in part]
    accepted = []
    for base, r, rej, printed, ntodo in results:
        chk.add_tlc(r, "TraceRelaxation")
        nacc = ntodo if rej is None else rej[0]
        accepted += list(range(base, base + nacc))
        for j in range(nacc):
            p = printed.get(j + 1)
            if p is None:
                raise MachineryError("TraceRelaxation accepted a record without printing its expectation")
            i = base + j
            rec, ctx = recs[i], ctxs[i]
            info = {"dir": "B", "record": rec, "call_number_on_object": p.get("call", 1),
                    "earlier_records": [r for r in recs[max(0, i - 8):i] if group_of(r) == group_of(rec)]}
            if rec["op"] == "s4":
                s4 = p["s4"]
                if s4["empty"] or s4["qtie"] or s4["mtie"]:
                    chk.tie()
                    continue
                if "raises" in ctx:
                    chk.violation("trace:raises:" + ctx["raises"].split(":")[0], {**info, "error": ctx["raises"]})
                    continue
                ok = compare_s4(chk, {**info, "masks": s4["masks"]}, s4, ctx["df"], tag="trace:s4:")
            else:
                if "raises" in ctx:
                    chk.violation("trace:raises:" + ctx["raises"].split(":")[0], {**info, "error": ctx["raises"]})
                    continue
                ok, nties = compare_rows(chk, info, p["rows"], ctx["df"], tag="trace:" + rec["op"] + ":")
                for _ in range(nties):
                    chk.tie()
            if ok:
                chk.ok(("B", i, rec["op"]), nontrivial=True)
                if p.get("call", 1) > 1:
                    chk.extra["trace_calls_on_used_objects"] = chk.extra.get("trace_calls_on_used_objects", 0) + 1
        if rej is not None:
            i = base + rej[0]
            clause = rej[1]
            if clause in ("BadInput", "BadSession"):
                raise MachineryError(f"the trace generator produced an ill-formed record ({clause})")
            if "raises" in ctxs[i]:
                clause = "raises:" + ctxs[i]["raises"].split(":")[0]
            ctx = {k: v for k, v in ctxs[i].items() if k != "df"}
            chk.violation("trace:" + recs[i]["op"] + ":" + clause,
                          {"dir": "B", "record": recs[i], **ctx,
                           "earlier_records": [r for r in recs[max(0, i - 8):i] if group_of(r) == group_of(recs[i])]})
    return accepted


def corrupt_one_field(chk, recs):
    """Binding self-test of the trace spec on a SYNTHETIC trace: the inputs of three generated relaxation records
    with observations that follow from the inputs alone (T - 1 rows, time axis = timestep differences, chi4 column
    zero) - nothing recorded from the library goes in, so a library regression cannot turn this self-test into
    a machinery error.  The specification must accept the trace as it is and, with one time-axis entry of the
    second record changed, reject exactly that record with clause TimeAxis."""
    cand = [r for r in recs if r["op"] in ("lin", "log") and r["c"]["T"] <= 12 and r["c"]["N"] <= 12][:3]
    if len(cand) < 3:
        chk.extra["corrupt_one_field_rejected"] = "skipped: fewer than three small relaxation records"
        return
    good = json.loads(json.dumps([{k: v for k, v in r.items() if k != "obs"} for r in cand]))
    for j, r in enumerate(good):
        T = r["c"]["T"]
        r["sid"], r["first"] = 900000 + j, 1
        r["obs"] = {"rows": T - 1, "tq": [r["tsq"][k + 1] - r["tsq"][0] for k in range(T - 1)], "tq_ok": 1, "x4zero": 1}
    bad = json.loads(json.dumps(good))
    bad[1]["obs"]["tq"][-1] += 1
    import concurrent.futures as cf
    with cf.ThreadPoolExecutor(max_workers=2) as ex:
        (r0, rej0, _), (r, rej, _) = ex.map(validate_records, [good, bad])
    chk.add_tlc(r0, "TraceRelaxation synthetic")
    chk.add_tlc(r, "TraceRelaxation corrupt-one-field")
    if rej0 is not None:
        raise MachineryError(f"the synthetic trace was rejected uncorrupted (got {rej0})")
    if rej is None or rej[0] != 1 or rej[1] != "TimeAxis":
        raise MachineryError(f"corrupted trace record was not rejected at that record (got {rej})")
    chk.extra["corrupt_one_field_rejected"] = True


# --------------------------------------------------------------------------
# entry point
# --------------------------------------------------------------------------

def run(tier, replay=None):
    common.import_lib()
    chk = Check("C06", tier)
    chk.rule = ("A: TLC runs the (end frame, lag) loop state machines of Relaxation.tla (lin / log / s4) on every case of the "
                "MC_Relaxation scope (hashed families d=2,3 x T=2..5 x N=2,3 x {xu,x,both} x {slow,fast} x masks x neighbour "
                "lists; exhaustive step sequences for two particles; part ext: constant triclinic cells x every periodic mask "
                "with fractional displacements near +-1/2, call histories of 5-6 calls on a slow and a fast object of one "
                "trajectory (action DoCall, clause InvSession), T = 40..70 through the machine and T = 260 with the direct "
                "operator RowsAt, N = 150 / 300), invariants = clauses of C06; one case per (input, variant) rendered - in the "
                "rendering aux.render the scope picks: dict order, absent species, int diameters, mask dtype / layout, int dt, "
                "large timestep labels - to Snapshots + neighbour file and replayed into Dynamics.relaxation / "
                "LogDynamics.relaxation / Dynamics.sq4, all columns of all rows compared. B: seeded random decimal trajectories "
                "(T<=12, N<=12; some T=40..70, some N=100..300; triclinic cells with near-half-cell steps; call histories on one "
                "or two objects) recorded from the real code; TraceRelaxation.tla carries the loop state and the objects' "
                "construction data, decides rows / time axis / log chi4 = 0 and prints expected rows as terms.")
    chk.assumptions = ["float comparison at 1e-9 (alpha2 1e-8, S4 2e-8: the routine rounds per-frame values to 1e-8)",
                       "rows with an exact half-box displacement (minimum-image tie) or a squared displacement within 1e-6 "
                       "(relative) of the squared cutoff are skipped and counted as ties",
                       "chi4 asserted only when every origin of the row selects the same number of particles; "
                       "alpha2 only when the row's MSD is non-zero; S4 only when no origin has an empty subset",
                       "S4 is stated on the routine's default wave-vector set for a given numofq (the map qrange -> numofq is C04's)",
                       "cells are constant in time (each frame carries its own equal copy of the cell arrays); nothing is asserted "
                       "for cells that change between frames",
                       "a 0/1 selection array of integer type is a rendering of a boolean mask (docs: 'preferring the bool type'; "
                       "sq4 converts with astype(bool))"]
    try:
        from PyMatterSim.dynamic.dynamics import Dynamics, LogDynamics  # noqa: F401
    except Exception as e:
        chk.violation(f"raises:{type(e).__name__}", {"dir": "import", "error": str(e)[:300]})
        return chk.finish()

    tmpdir = common.scratch_dir("verif_c06run_")
    try:
        if replay:
            data = common.load_replay(replay)
            case = data["case"]
            print("clause:", data.get("clause"))
            if case.get("dir") == "A" and case.get("kind") == "sess":
                recs = json.loads(json.dumps(case["records"]))
            elif case.get("dir") == "A":
                recs = [{"op": case["variant"], "c": case["c"], "dt": case["dt"], "tsq": case["tsq"],
                         "nt": case.get("nt", 0), "numofq": case.get("numofq", 2), "render": case.get("render", PLAIN),
                         "tnum": case.get("tnum", 10 * case.get("nt", 0)), "sid": 0, "first": 1}]
            else:
                recs = json.loads(json.dumps(list(case.get("earlier_records", [])) + [case["record"]]))
                for r in recs:
                    r.setdefault("sid", 0)
                    r.setdefault("first", 1)
            for r in recs:
                r.pop("obs", None)
            ctxs = execute(recs, tmpdir)
            for rec, ctx in zip(recs, ctxs):
                print(f"--- call op={rec['op']} object={rec['sid']} first={rec['first']}")
                if "raises" in ctx:
                    print("library raised:", ctx["raises"])
                else:
                    print("observed:")
                    print(ctx["df"].to_string() if hasattr(ctx["df"], "to_string") else repr(ctx["df"]))
            r, rej, printed = validate_records(recs)
            for j in sorted(printed):
                p = printed[j]
                print(f"expected (spec), record {j}:")
                if p["op"] == "s4":
                    print({"masks": p["s4"]["masks"], "empty": p["s4"]["empty"]})
                    for g in p["s4"]["groups"]:
                        print("  q =", ev(g["q"]), " S4 =", ev(g["S"]))
                else:
                    for row in p["rows"]:
                        print("  ", {k: (ev(v) if isinstance(v, list) and not is_undef(v) else v) for k, v in row.items()})
            if rej:
                print("trace spec rejects record", rej[0] + 1, "clause:", rej[1])
            check_trace(chk, recs, ctxs)
            return chk.finish()

        # ---- direction A
        nsh = 8
        seen = {"lin": 0, "log": 0, "s4": 0}
        kinds = {}
        wrapped_eq = 0
        near = {"tri_cases": 0, "pos": 0, "neg": 0, "masks": set(), "renders": set()}
        parts = ("fam", "exh", "ext")
        import concurrent.futures as cf
        pool = cf.ThreadPoolExecutor(max_workers=3 if tier == "quick" else 1)   # quick: the model runs start now; replay overlaps the later ones
        futs = {part: pool.submit(run_tlc_sharded, "MC_Relaxation",
                                  dict(constants={"Tier": tier, "Part": part, "SEED": common.SEED},
                                       invariants=INVS, properties=PROPS),
                                  nshards=nsh, timeout=5400)   # no -coverage: it disables TLC's LET caching (out of memory)
                for part in ("ext", "exh", "fam")}
        pool.shutdown(wait=False)
        for part in ("ext", "exh", "fam"):
            r = futs[part].result()
            require_model_ok(r, f"MC_Relaxation {part}")
            chk.add_tlc(r, f"MC_Relaxation {part}")
            if not r.cases:
                raise MachineryError("no cases emitted")
            # every behaviour has one initial state and prints one case at its last state; all other
            # transitions are Acc / DoCall steps (the only actions of the model)
            nsess_calls = sum(len(cs["calls"]) for cs in r.cases if cs.get("kind") == "sess")
            chk.coverage_actions["Init"] = chk.coverage_actions.get("Init", 0) + len(r.cases)
            chk.coverage_actions["DoCall"] = chk.coverage_actions.get("DoCall", 0) + nsess_calls
            chk.coverage_actions["Acc"] = chk.coverage_actions.get("Acc", 0) + r.distinct - len(r.cases) - nsess_calls
            t_rep = time.process_time()
            for j, case in enumerate(r.cases):
                ok = replay_case(chk, case, tmpdir, csv=(j % 11 == 0 and case.get("kind") != "sess"))
                c = case["c"]
                kind = case.get("kind", part)
                if kind == "tri":
                    near["tri_cases"] += 1
                    near["pos"] += case["nearHalf"][0]
                    near["neg"] += case["nearHalf"][1]
                    near["masks"].add((c["d"], tuple(c["ppp"])))
                rd = case.get("render", PLAIN)
                near["renders"].add((rd["diaOrder"], rd["mask"], rd["dtInt"], rd["tsoff"] > 0))
                if ok:
                    if kind != "sess":
                        seen[case["variant"]] += 1
                    kinds[kind] = kinds.get(kind, 0) + 1
                    wrapped_eq += int(case["smallDisp"] and c["mode"] == "x")
                    chk.ok(("A", part, j), nontrivial=True,
                           sample={"variant": case["variant"], "kind": kind, "d": c["d"], "T": c["T"], "N": c["N"], "mode": c["mode"],
                                   "cal": c["cal"], "hasCond": c["hasCond"], "hasNb": c["hasNb"], "counts": case["counts"][:8]})
            chk.extra["replay_cpu_s_" + part] = round(time.process_time() - t_rep, 1)
        chk.exhaustive = True
        chk.extra["cases_ok_by_variant"] = seen
        chk.extra["cases_ok_by_kind"] = kinds
        chk.extra["x_mode_cases_with_all_displacements_below_half_box"] = wrapped_eq
        chk.extra["triclinic_scope"] = {"cases": near["tri_cases"], "periodic_masks": len(near["masks"]),
                                        "fractional_displacements_above_0.35": near["pos"],
                                        "fractional_displacements_below_-0.35": near["neg"]}
        chk.extra["renderings_used"] = len(near["renders"])
        if not chk.violations:
            if min(seen.values()) == 0:
                raise MachineryError("scope is vacuous: a variant was never compared")
            if near["pos"] == 0 or near["neg"] == 0 or len(near["masks"]) < 10:
                raise MachineryError("scope is vacuous: triclinic cases lack a periodic mask or near-half displacements of one sign")
            if any(kinds.get(k, 0) == 0 for k in ("tri", "sess", "long")):
                raise MachineryError(f"scope is vacuous: a kind of part ext was never compared ({kinds})")

        # ---- direction B
        rng = random.Random(common.SEED * 7919 + 6)
        nsess = 50 if tier == "quick" else 700
        recs = []
        for sid in range(nsess):
            size = "longT" if sid % 35 == 17 else "bigN" if sid % 35 == 5 else "small"
            recs += gen_session(rng, sid, size)
        ctxs = execute(recs, tmpdir)
        accepted = check_trace(chk, recs, ctxs, chunk=(15 if tier == "quick" else 80))
        chk.extra["trace_records"] = len(recs)
        corrupt_one_field(chk, recs)
        if chk.coverage_actions.get("Acc", 0) <= 0 or chk.coverage_actions.get("DoCall", 0) <= 0:
            raise MachineryError("an action has zero coverage: the loop / call state machines were not exercised")
        chk.samples.append({"trace_record": {"op": recs[0]["op"], "T": recs[0]["c"]["T"], "N": recs[0]["c"]["N"],
                                             "mode": recs[0]["c"]["mode"], "obs": recs[0]["obs"]}})
        return chk.finish()
    finally:
        shutil.rmtree(tmpdir, ignore_errors=True)
