"""C06 - relaxation functions (PyMatterSim.dynamic.dynamics) against spec/Relaxation.tla.

Direction A: TLC runs the loop state machines of Relaxation.tla ("lin" = Dynamics.relaxation,
"log" = LogDynamics.relaxation, "s4" = Dynamics.sq4; one action per accumulated frame pair) on
every case of the MC_Relaxation scope with the clauses of C06 as INVARIANT / PROPERTY lines and
prints, per (case, variant), the expected rows (t, isf, Qt, X4_Qt, msd, alpha2) or S4 groups as
Real terms.  Every case is rendered into Snapshots objects (+ a neighbour file in the library's
format), the public routine is called and every column of every row is compared.
Direction B: seeded random decimal trajectories (T <= 12, N <= 12, 2-D/3-D, rectangular boxes,
all modes, masks, neighbour lists) are run through the real code; TraceRelaxation.tla carries the
loop state per record, decides the discrete observables and prints the expected rows as terms.
Scope audit (part "ext" of MC_Relaxation and the trace generator): constant triclinic cells with every
periodic mask and fractional displacements near +-1/2; call histories on one object (InvSession / the
session variable of TraceRelaxation); long trajectories (T = 40..70 through the loop machine, T = 260
with the direct operator RowsAt) and many particles; renderings of the arguments decided by the
specification's scope (aux.render) - diameters map in ascending / descending / rotated insertion order
with absent species, integer-valued diameters, mask arrays of bool / int8 / int64 / strided / Fortran
layout, dt as int, large timestep labels, decimal time steps with sq4's t given as the decimal literal.
Python renders inputs, calls the API, evaluates terms and compares; it holds no definition.
"""
import json
import math
from fractions import Fraction
import os
import random
import shutil
import time
import warnings

import numpy as np

from . import common
from .common import Check, MachineryError, run_tlc, run_tlc_sharded, require_model_ok
from .realeval import ev, close

INVS = ["InvCounts", "InvPairs", "InvAlgDef", "InvChi4", "InvLog", "InvWrapped", "InvBoth",
        "InvSlowFast", "InvIsf", "InvMinImage", "InvWellFormed", "Emit"]
PROPS = ["EveryOriginLagPairOnce"]
COLS = ["t", "isf", "Qt", "X4_Qt", "msd", "alpha2"]


# --------------------------------------------------------------------------
# rendering of abstract inputs
# --------------------------------------------------------------------------

PLAIN = {"diaOrder": "asc", "diaDrop": 1, "diaInt": 0, "mask": "bool", "dtInt": 0, "tsoff": 0}


def make_snapshots(c, positions, ts, tsoff=0):
    """Every frame carries its own (equal) copy of the cell arrays and of the type array, as the dump reader
    delivers them; timestep labels are offset by tsoff * 10^9 (large labels)."""
    from PyMatterSim.reader.reader_utils import SingleSnapshot, Snapshots
    S = float(c["S"])
    H = np.array(c["H"], dtype=float) / S
    L = np.diag(H).copy()
    snaps = []
    for f in range(c["T"]):
        snaps.append(SingleSnapshot(
            timestep=int(ts[f]) + int(tsoff) * 10 ** 9, nparticle=c["N"], particle_type=np.array(c["types"], dtype=int),
            positions=np.array(positions[f], dtype=float) / S, boxlength=L.copy(),
            boxbounds=np.column_stack((np.zeros(c["d"]), L)), realbounds=None, hmatrix=H.copy()))
    return Snapshots(nsnapshots=len(snaps), snapshots=snaps)


def write_neighbor_file(c, path):
    with open(path, "w") as f:
        for fr in c["nb"]:
            f.write("id     cn     neighborlist\n")
            for i, lst in enumerate(fr):
                f.write(f"{i + 1}     {len(lst)}     " + " ".join(str(j) for j in lst) + "\n")


def q_value(q):
    if q["pi"] != 1 and q["d"] == 1:
        return int(q["n"])                           # an integer wavenumber is passed as a Python int
    v = q["n"] / q["d"]
    return v * math.pi if q["pi"] == 1 else v


def diameters_map(c, render):
    """The diameters dict in the insertion order / value types the rendering asks for."""
    keys = list(range(1, len(c["dia"]) + 1))
    if render["diaDrop"] == 1:
        present = set(c["types"])
        keys = [k for k in keys if k in present]
    if render["diaOrder"] == "desc":
        keys = keys[::-1]
    elif render["diaOrder"] == "rot":
        keys = keys[1:] + keys[:1]
    out = {}
    for k in keys:
        n, d = c["dia"][k - 1]
        out[k] = int(n) if (render["diaInt"] == 1 and d == 1) else n / d
    return out


def mask_array(m, kind):
    """A 0/1 selection (list) as the array flavour the rendering asks for."""
    b = np.array(m, dtype=bool)
    if kind == "int8":
        return b.astype(np.int8)
    if kind == "int64":
        return b.astype(np.int64)
    if kind == "strided":                            # a non-contiguous view: every second column of a wider array
        big = np.zeros(b.shape[:-1] + (2 * b.shape[-1] + 1,), dtype=bool)
        big[..., 1::2] = b
        v = big[..., 1::2]
        assert not v.flags["C_CONTIGUOUS"] or v.size <= 1
        return v
    if kind == "fortran":
        return np.asfortranarray(b)
    return b


def dt_value(dt, render):
    if render["dtInt"] == 1 and dt[1] == 1:
        return int(dt[0])
    return dt[0] / dt[1]


def ctor_kwargs(c, ts, tmpdir, render, dt=None, force_dt=False):
    """Constructor arguments shared by every object built from the case (the Snapshots objects are shared)."""
    kw = {}
    if c["mode"] in ("xu", "both"):
        kw["xu_snapshots"] = make_snapshots(c, c["xu"], ts, render["tsoff"])
    if c["mode"] in ("x", "both"):
        kw["x_snapshots"] = make_snapshots(c, c["x"], ts, render["tsoff"])
    kw["ppp"] = np.array(c["ppp"])
    kw["diameters"] = diameters_map(c, render)
    kw["a"] = c["a"][0] / c["a"][1]
    if c["hasNb"] == 1:
        path = os.path.join(tmpdir, "nb.dat")
        write_neighbor_file(c, path)
        kw["neighborfile"] = path
        if c["nmax"] != 30:
            kw["max_neighbors"] = c["nmax"]
    if dt is not None:
        dtv = dt_value(dt, render)
        if force_dt or dtv != 0.002:
            kw["dt"] = dtv                           # else: the documented default
    return kw


def build(c, ts, variant, tmpdir, render=PLAIN):
    """-> (class, kwargs of the constructor that depend on the case)"""
    from PyMatterSim.dynamic.dynamics import Dynamics, LogDynamics
    cls = LogDynamics if variant == "log" else Dynamics
    kw = ctor_kwargs(c, ts, tmpdir, render)
    kw["cal_type"] = c["cal"]
    return cls, kw


def cond_array(c, variant, render=PLAIN):
    if c["hasCond"] != 1:
        return None
    m = c["cond"][0] if variant == "log" else c["cond"]
    return mask_array(m, render["mask"])


def relax_kwargs(c, variant, render=PLAIN, outputfile=""):
    rk = {}
    if not (c["q"]["pi"] == 1 and c["q"]["n"] == 2 and c["q"]["d"] == 1):
        rk["qconst"] = q_value(c["q"])               # else: the documented default 2 pi
    cond = cond_array(c, variant, render)
    if cond is not None:
        rk["condition"] = cond
    if outputfile:
        rk["outputfile"] = outputfile
    return rk


def sq4_kwargs(c, ts, dt, tnum, numofq, render=PLAIN, outputfile=""):
    """t = tnum/10 sampling intervals, written the way a user writes it: the decimal literal of
    (tnum/10) * interval * dt, i.e. the double nearest to the exact product (not a product of doubles)."""
    t_exact = Fraction(tnum, 10) * (ts[1] - ts[0]) * Fraction(dt[0], dt[1])
    t = int(t_exact) if (render["dtInt"] == 1 and t_exact.denominator == 1) else float(t_exact)
    Lmax = max(c["H"][k][k] for k in range(c["d"])) / float(c["S"])
    sk = {"t": t, "qrange": (numofq + 0.5) * math.pi / Lmax}   # numofq = int(qrange * Lmax / pi), half a unit of margin
    cond = cond_array(c, "lin", render)
    if cond is not None:
        sk["condition"] = cond
    if outputfile:
        sk["outputfile"] = outputfile
    return sk


def call_relaxation(c, ts, dt, variant, tmpdir, outputfile="", render=PLAIN):
    cls, kw = build(c, ts, variant, tmpdir, render)
    dtv = dt_value(dt, render)
    if dtv != 0.002:
        kw["dt"] = dtv
    with warnings.catch_warnings():
        warnings.simplefilter("ignore")
        obj = cls(**kw)
        return obj.relaxation(**relax_kwargs(c, variant, render, outputfile))


def call_sq4(c, ts, dt, tnum, numofq, tmpdir, outputfile="", render=PLAIN):
    cls, kw = build(c, ts, "lin", tmpdir, render)
    kw["dt"] = dt_value(dt, render)
    with warnings.catch_warnings():
        warnings.simplefilter("ignore")
        obj = cls(**kw)
        return obj.sq4(**sq4_kwargs(c, ts, dt, tnum, numofq, render, outputfile))


def brief(c):
    return c


# --------------------------------------------------------------------------
# comparison of one result with the spec's expectation
# --------------------------------------------------------------------------

def is_undef(t):
    return isinstance(t, list) and len(t) == 1 and t[0] == "undef"


def compare_rows(chk, info, rows, df, tag=""):
    """rows: list of spec rows (terms); df: DataFrame returned by relaxation.  -> (ok, nties)"""
    if not hasattr(df, "columns"):
        chk.violation(tag + "Result", {**info, "returned": repr(df)[:200]})
        return False, 0
    if list(df.columns) != COLS:
        chk.violation(tag + "Columns", {**info, "columns": list(df.columns)})
        return False, 0
    if len(df) != len(rows):
        chk.violation(tag + "Rows", {**info, "observed_rows": len(df)})
        return False, 0
    obs = {col: [float(x) for x in df[col].values] for col in COLS}
    info = {**info, "observed": obs}
    nt = 0
    for k, row in enumerate(rows):
        if row["mtie"]:
            nt += 1
            continue
        exp = {"t": ev(row["t"]), "isf": ev(row["isf"]), "msd": ev(row["msd"])}
        if not row["qtie"]:
            exp["Qt"] = ev(row["Qt"])
            if not is_undef(row["X4"]):
                exp["X4_Qt"] = ev(row["X4"])
        else:
            nt += 1
        if not is_undef(row["alpha2"]):
            exp["alpha2"] = ev(row["alpha2"])
        for col, e in exp.items():
            o = obs[col][k]
            tol = 1e-9 if col != "alpha2" else 1e-8
            if not close(o, e, tol, tol):
                clause = {"t": "TimeAxis", "isf": "ISF", "Qt": "Overlap", "X4_Qt": "Chi4", "msd": "MSD",
                          "alpha2": "Alpha2"}[col]
                chk.violation(tag + clause, {**info, "lag": row["k"], "column": col, "expected": e, "observed_value": o,
                                             "expected_row": exp})
                return False, nt
    return True, nt


def compare_s4(chk, info, s4, df, tag=""):
    if s4["empty"] or s4["qtie"] or s4["mtie"]:
        return None
    if not hasattr(df, "columns"):
        chk.violation(tag + "S4Result", {**info, "returned": repr(df)[:200]})
        return False
    if list(df.columns) != ["q", "Sq"]:
        chk.violation(tag + "S4Columns", {**info, "columns": list(df.columns)})
        return False
    qo = [float(x) for x in df["q"].values]
    so = [float(x) for x in df["Sq"].values]
    info = {**info, "observed": {"q": qo, "Sq": so}}
    if len(qo) != len(s4["groups"]):
        chk.violation(tag + "S4Groups", {**info, "expected_groups": len(s4["groups"])})
        return False
    for g, grp in enumerate(s4["groups"]):
        eq, es = ev(grp["q"]), ev(grp["S"])
        if not close(qo[g], eq, 2e-8, 1e-9):
            chk.violation(tag + "S4WaveNumber", {**info, "group": g, "expected_q": eq})
            return False
        if not close(so[g], es, 2e-8, 1e-9):
            chk.violation(tag + "S4Value", {**info, "group": g, "expected": es, "observed_value": so[g],
                                            "expected_all": [ev(x["S"]) for x in s4["groups"]]})
            return False
    return True


# --------------------------------------------------------------------------
# direction A
# --------------------------------------------------------------------------

def relations(chk, info, case, df, tmpdir):
    """Clauses of C06 that relate two runs, checked on the code's own outputs; the spec decides
    when they apply (smallDisp, no tie) and its invariants InvWrapped / InvLog state them on the model."""
    c, variant = case["c"], case["variant"]
    tie = any(r["mtie"] for r in case["rows"])
    # a displacement within 1e-6 of the slow/fast cut-off may be decided either way once the wrapped run has
    # gone through the (inexact) inverse cell matrix: Q and chi4 of such rows are not compared (DESIGN 3.3)
    qtie_rows = [k for k, r in enumerate(case["rows"]) if r["qtie"]]

    def comparable(a, b):
        a, b = np.array(a, dtype=float), np.array(b, dtype=float)
        for k in qtie_rows:
            if k < len(a) and k < len(b):
                a[k, 2:4] = b[k, 2:4] = 0.0
        # alpha2 = c <r^4>/<r^2>^2 - 1 is undefined at MSD = 0 (0/0 in one run, rounding noise in the other)
        if a.shape == b.shape and a.ndim == 2:
            still = (np.abs(a[:, 4]) < 1e-12) | (np.abs(b[:, 4]) < 1e-12)
            a[still, 5] = b[still, 5] = 0.0
        return a, b
    try:
        if variant == "lin" and c["mode"] == "x" and case["smallDisp"] and not tie:
            cu = dict(c, mode="xu")
            du = call_relaxation(cu, case["tsq"], case["dt"], "lin", tmpdir)
            ua, wa = comparable(du.values, df.values)
            if ua.shape != wa.shape or not np.allclose(ua, wa, rtol=1e-9, atol=1e-9, equal_nan=True):
                chk.violation("WrappedEqualsUnwrapped", {**info, "wrapped": df.values.tolist(), "unwrapped": du.values.tolist()})
                return False
            chk.extra["relation_wrapped_equals_unwrapped"] = chk.extra.get("relation_wrapped_equals_unwrapped", 0) + 1
        if variant == "log" and not tie:
            dl = call_relaxation(c, case["tsq"], case["dt"], "lin", tmpdir)
            a, b = dl.values[-1].copy(), df.values[-1].copy()
            a[3] = b[3] = 0.0            # chi4 of a single origin is 0 in both, up to rounding of <Q^2> - <Q>^2
            if abs(a[4]) < 1e-12 or abs(b[4]) < 1e-12:
                a[5] = b[5] = 0.0        # alpha2 undefined at MSD = 0
            if case["rows"] and case["rows"][-1]["qtie"]:
                a[2] = b[2] = 0.0        # cut-off tie: not decided
            if not np.allclose(a, b, rtol=1e-9, atol=1e-9, equal_nan=True):
                chk.violation("LogIsOriginZeroRestriction", {**info, "linear_last_row": dl.values[-1].tolist(),
                                                              "log_last_row": df.values[-1].tolist()})
                return False
            chk.extra["relation_log_last_row_is_linear_last_row"] = chk.extra.get("relation_log_last_row_is_linear_last_row", 0) + 1
    except Exception as e:
        chk.violation(f"raises:{type(e).__name__}", {**info, "error": str(e)[:300], "where": "relation"})
        return False
    return True


def replay_case(chk, case, tmpdir, csv=False, verbose=False):
    c, variant = case["c"], case["variant"]
    info = {"dir": "A", "variant": variant, "c": c, "dt": case["dt"], "tsq": case["tsq"]}
    if variant in ("lin", "log"):
        out = os.path.join(tmpdir, "relax.csv") if csv else ""
        try:
            df = call_relaxation(c, case["tsq"], case["dt"], variant, tmpdir, out)
        except Exception as e:
            chk.violation(f"raises:{type(e).__name__}", {**info, "error": str(e)[:300]})
            return False
        # the two forms the spec prints agree (exact rationals vs terms)
        for k, rx in enumerate(case["rowsX"]):
            row = case["rows"][k]
            if not close(ev(row["Qt"]), rx["Q"][0] / rx["Q"][1], 1e-12, 1e-12) or \
               not close(ev(row["msd"]), rx["r2"][0] / rx["r2"][1], 1e-12, 1e-12):
                raise MachineryError("term and exact rational disagree in an emitted case")
        if verbose:
            print(df.to_string())
            for row in case["rows"]:
                print({k: (ev(v) if isinstance(v, list) and not is_undef(v) else v) for k, v in row.items()})
        ok, nties = compare_rows(chk, info, case["rows"], df, tag=variant + ":")
        for _ in range(nties):
            chk.tie()
        if ok:
            ok = relations(chk, info, case, df, tmpdir)
        if ok and csv:
            import pandas as pd
            back = pd.read_csv(out)
            if list(back.columns) != COLS or not np.allclose(back.values, df.values, rtol=1e-12, atol=1e-12, equal_nan=True):
                chk.violation(variant + ":CSV", info)
                return False
        return ok
    # s4
    s4 = case["s4"]
    if len(case["tround"]) != 1 or case["tround"][0] != s4["nt"]:
        chk.tie()
        return None
    info.update(nt=s4["nt"], tnum=case["tnum"], numofq=s4["numofq"], masks=s4["masks"])
    if s4["empty"] or s4["qtie"] or s4["mtie"]:
        chk.tie()
        return None
    out = os.path.join(tmpdir, "s4.csv") if csv else ""
    try:
        df = call_sq4(c, case["tsq"], case["dt"], case["tnum"], s4["numofq"], tmpdir, out)
    except Exception as e:
        chk.violation(f"raises:{type(e).__name__}", {**info, "error": str(e)[:300]})
        return False
    if verbose:
        print(df.to_string())
        print([(ev(g["q"]), ev(g["S"])) for g in s4["groups"]])
    ok = compare_s4(chk, info, s4, df, tag="s4:")
    if ok and csv:
        import pandas as pd
        back = pd.read_csv(out)
        if list(back.columns) != ["q", "Sq"] or not np.allclose(back.values, df.values, rtol=1e-12, atol=1e-12):
            chk.violation("s4:CSV", info)
            return False
    return ok


# --------------------------------------------------------------------------
# direction B
# --------------------------------------------------------------------------

NICE_L = [40, 50, 60, 80]


def gen_case(rng):
    d = rng.choice([2, 3])
    T = rng.choice([2, 3, 4, 5, 6, 8, 10, 12])
    N = rng.randint(2, 12 if d == 2 else 8)
    S = 10
    if rng.random() < 0.5:
        box = [rng.choice(NICE_L)] * d
    else:
        box = [rng.choice(NICE_L) for _ in range(d)]
    mode = rng.choice(["xu", "x", "both"])
    if mode == "x":
        ppp = [1] * d
        if rng.random() < 0.3:
            ppp[rng.randrange(d)] = 0
            if not any(ppp):
                ppp[0] = 1
    else:
        ppp = [rng.randint(0, 1) for _ in range(d)]
    style = rng.choice(["diffusive", "ballistic", "arrested", "mixed"])
    pos = [[rng.randrange(box[k]) for k in range(d)] for _ in range(N)]
    vel = [[rng.randint(-6, 6) for _ in range(d)] for _ in range(N)]
    xu = [[list(p) for p in pos]]
    for f in range(1, T):
        fr = []
        for i in range(N):
            if style == "diffusive" or (style == "mixed" and i % 2 == 0):
                st = [rng.randint(-8, 8) for _ in range(d)]
            elif style == "ballistic":
                st = list(vel[i])
            else:
                st = [rng.choice([0, 0, 0, 1, -1]) for _ in range(d)]
            fr.append([xu[-1][i][k] + st[k] for k in range(d)])
        xu.append(fr)
    wrap_axes = [1] * d if mode == "both" else ppp
    H = [[box[i] if i == j else 0 for j in range(d)] for i in range(d)]
    if mode == "x" and rng.random() < 0.3:          # LAMMPS-style triclinic cell, tilts of either sign
        for i in range(1, d):
            for j in range(i):
                H[i][j] = rng.randint(-box[j] // 2, box[j] // 2)

    def wrap(v):
        # bring v into the cell along the wrapped axes (lower-triangular H: last axis first);
        # TraceRelaxation!WellFormed checks that x - xu is a lattice vector of those axes
        w = list(v)
        for k in range(d - 1, -1, -1):
            if wrap_axes[k] == 1:
                n = w[k] // H[k][k]
                w = [w[m] - n * H[k][m] for m in range(d)]
        return w
    x = [[wrap(xu[f][i]) for i in range(N)] for f in range(T)]
    hasCond = rng.randint(0, 1)
    cond = []
    for f in range(T):
        m = [rng.randint(0, 1) if hasCond else 1 for _ in range(N)]
        m[rng.randrange(N)] = 1
        cond.append(m)
    hasNb = rng.randint(0, 1)
    nb = []
    for f in range(T):
        fr = []
        for i in range(N):
            others = [j + 1 for j in range(N) if j != i]
            cn = rng.randint(1, min(3, len(others)))
            fr.append(rng.sample(others, cn))
        nb.append(fr)
    q = rng.choice([{"pi": 1, "n": 2, "d": 1}, {"pi": 1, "n": 1, "d": 1}, {"pi": 0, "n": 7, "d": 2},
                    {"pi": 0, "n": 31, "d": 10}, {"pi": 1, "n": 5, "d": 2}])
    c = {"d": d, "T": T, "N": N, "S": S, "H": H,
         "ppp": ppp, "ts": None, "types": [rng.randint(1, 2) for _ in range(N)],
         "dia": rng.choice([[[1, 1], [1, 1]], [[1, 1], [2, 1]], [[3, 2], [1, 1]], [[1, 2], [2, 1]]]),
         "a": rng.choice([[3, 10], [1, 2], [3, 4]]), "cal": rng.choice(["slow", "fast"]), "mode": mode,
         "xu": xu, "x": x, "hasCond": hasCond, "cond": cond, "hasNb": hasNb, "nb": nb,
         "nmax": rng.choice([30, 30, 2]), "q": q}
    t0, iv = rng.choice([0, 50, 1000]), rng.choice([1, 10, 500])
    c["ts"] = [t0 + iv * f for f in range(T)]
    return c


def gen_record(rng, tmpdir):
    c = gen_case(rng)
    op = rng.choice(["lin", "lin", "log", "s4"])
    if op == "s4" and any(c["H"][i][j] != 0 for i in range(c["d"]) for j in range(c["d"]) if i != j):
        op = "lin"                                   # the S(q) routine assumes an orthogonal box
    T = c["T"]
    dt = rng.choice([[1, 500], [1, 100], [1, 4], [5, 2]])
    if op == "log":
        tsq, cur = [], rng.choice([0, 7])
        for f in range(T):
            tsq.append(cur)
            cur += max(1, 2 ** f // 2) * rng.choice([1, 3])
    else:
        tsq = list(c["ts"])
    nt = rng.randint(1, T - 1) if rng.random() < 0.9 else 0
    numofq = rng.choice([2, 4, 6]) if c["d"] == 2 else rng.choice([2, 2, 4])
    rec = {"op": op, "c": c, "dt": dt, "tsq": tsq, "nt": nt, "numofq": numofq}
    ctx = {}
    dtv = dt[0] / dt[1]
    try:
        if op == "s4":
            df = call_sq4(c, tsq, dt, 10 * nt + (rng.choice([-3, 0, 4]) if nt > 0 else 0), numofq, tmpdir)
            ctx["df"] = df
            rec["obs"] = {"rows": len(df) if hasattr(df, "columns") else -1, "tq": [], "tq_ok": 1, "x4zero": 0}
        else:
            df = call_relaxation(c, tsq, dt, op, tmpdir)
            ctx["df"] = df
            if list(df.columns) != COLS:
                ctx["columns"] = list(df.columns)
                rec["obs"] = {"rows": -1, "tq": [0] * (T - 1), "tq_ok": 0, "x4zero": 0}
            else:
                tobs = [float(v) for v in df["t"].values]
                tq = [int(round(v / dtv)) for v in tobs]
                okq = all(abs(tq[k] * dtv - tobs[k]) <= 1e-9 * (1 + abs(tobs[k])) for k in range(len(tobs)))
                rec["obs"] = {"rows": len(df), "tq": (tq + [0] * T)[:T - 1], "tq_ok": int(okq),
                              "x4zero": int(bool(np.all(df["X4_Qt"].values == 0.0)))}
    except Exception as e:
        # an empty mobile subset makes sq4 divide by zero: outside the property, decided by the spec (s4.empty)
        ctx["raises"] = f"{type(e).__name__}: {str(e)[:200]}"
        rec["obs"] = {"rows": -1 if op != "s4" else 0, "tq": [0] * (T - 1), "tq_ok": 0, "x4zero": 0}
    return rec, ctx


def validate_records(records, timeout=3000):
    tmp = common.scratch_dir("verif_c06_")
    try:
        path = os.path.join(tmp, "trace.ndjson")
        with open(path, "w") as f:
            for rec in records:
                f.write(json.dumps(rec, separators=(",", ":")) + "\n")
        r = run_tlc("TraceRelaxation", dict(invariants=["Accepted", "TraceAlgDef"]), workers=1, timeout=timeout,
                    env={"TRACE_FILE": path}, keep_stdout=True)
        out = r.stdout
        printed = {}
        for p in r.cases:
            printed.setdefault(p["rec"], p)      # TLC re-evaluates actions when it rebuilds an error trace
        if r.violated == "Accepted":
            bads = common._BAD.findall(out)
            ls = common._LVAL.findall(out)
            clause = [b for b in bads if b][-1] if any(bads) else "rejected"
            idx = int(ls[-1]) - 1 if ls else -1
            r.violated = None
            r.stdout = out[-2000:]
            return r, (idx, clause), printed
        if r.violated or r.error:
            raise MachineryError(f"trace validation with TraceRelaxation failed:\n{out[-3000:]}")
        if sorted(printed) != list(range(1, len(records) + 1)):
            raise MachineryError(f"TraceRelaxation consumed {len(printed)} of {len(records)} records without naming a clause")
        r.stdout = out[-1000:]
        return r, None, printed
    finally:
        shutil.rmtree(tmp, ignore_errors=True)


def check_trace(chk, recs, ctxs, max_rejects=4, chunk=40):
    """Validate records in chunks (one TLC process each, in parallel) and compare the printed terms."""
    import concurrent.futures as cf
    chunks = [(s, recs[s:s + chunk]) for s in range(0, len(recs), chunk)]

    def one(args):
        start, part = args
        res = []
        offset, todo, nrej = 0, list(part), 0
        while todo:
            r, rej, printed = validate_records(todo)
            res.append((start + offset, r, rej, printed, len(todo)))
            if rej is None:
                break
            idx = rej[0]
            if idx < 0:
                raise MachineryError("trace rejected without a record index")
            nrej += 1
            if nrej >= max_rejects:
                break
            todo = todo[idx + 1:]
            offset += idx + 1
        return res

    with cf.ThreadPoolExecutor(max_workers=min(common.JOBS, max(1, len(chunks)))) as ex:
        results = [x for part in ex.map(one, chunks) for x in part]
    accepted = []
    for base, r, rej, printed, ntodo in results:
        chk.add_tlc(r, "TraceRelaxation")
        nacc = ntodo if rej is None else rej[0]
        accepted += list(range(base, base + nacc))
        for j in range(nacc):
            p = printed.get(j + 1)
            if p is None:
                raise MachineryError("TraceRelaxation accepted a record without printing its expectation")
            i = base + j
            rec, ctx = recs[i], ctxs[i]
            info = {"dir": "B", "record": rec}
            if rec["op"] == "s4":
                s4 = p["s4"]
                if s4["empty"] or s4["qtie"] or s4["mtie"]:
                    chk.tie()
                    continue
                if "raises" in ctx:
                    chk.violation("trace:raises:" + ctx["raises"].split(":")[0], {**info, "error": ctx["raises"]})
                    continue
                ok = compare_s4(chk, {**info, "masks": s4["masks"]}, s4, ctx["df"], tag="trace:s4:")
            else:
                ok, nties = compare_rows(chk, info, p["rows"], ctx["df"], tag="trace:" + rec["op"] + ":")
                for _ in range(nties):
                    chk.tie()
            if ok:
                chk.ok(("B", i, rec["op"]), nontrivial=True)
        if rej is not None:
            i = base + rej[0]
            clause = rej[1]
            if clause == "BadInput":
                raise MachineryError("the trace generator produced an ill-formed record")
            if "raises" in ctxs[i]:
                clause = "raises:" + ctxs[i]["raises"].split(":")[0]
            ctx = {k: v for k, v in ctxs[i].items() if k != "df"}
            chk.violation("trace:" + recs[i]["op"] + ":" + clause, {"dir": "B", "record": recs[i], **ctx})
    return accepted


def corrupt_one_field(chk, recs):
    """Binding self-test of the trace spec: one observed time-axis entry of one ACCEPTED record is
    changed; TraceRelaxation must reject exactly that record with clause TimeAxis."""
    cand = [r for r in recs if r["op"] in ("lin", "log")][:3]
    if len(cand) < 3:
        return
    bad = json.loads(json.dumps(cand))
    bad[1]["obs"]["tq"][-1] += 1
    r, rej, _ = validate_records(bad)
    chk.add_tlc(r, "TraceRelaxation corrupt-one-field")
    if rej is None or rej[0] != 1 or rej[1] != "TimeAxis":
        raise MachineryError(f"corrupted trace record was not rejected at that record (got {rej})")
    chk.extra["corrupt_one_field_rejected"] = True


# --------------------------------------------------------------------------
# entry point
# --------------------------------------------------------------------------

def run(tier, replay=None):
    common.import_lib()
    chk = Check("C06", tier)
    chk.rule = ("A: TLC runs the (end frame, lag) loop state machines of Relaxation.tla (lin / log / s4) on every case of the "
                "MC_Relaxation scope (hashed families d=2,3 x T=2..5 x N=2,3 x {xu,x,both} x {slow,fast} x masks x neighbour "
                "lists; exhaustive step sequences for two particles), invariants = clauses of C06; one case per (input, variant) "
                "rendered to Snapshots + neighbour file and replayed into Dynamics.relaxation / LogDynamics.relaxation / "
                "Dynamics.sq4, all columns of all rows compared. B: seeded random decimal trajectories T<=12, N<=12 recorded "
                "from the real code; TraceRelaxation.tla carries the loop state, decides rows / time axis / log chi4 = 0 and "
                "prints expected rows as terms.")
    chk.assumptions = ["float comparison at 1e-9 (alpha2 1e-8, S4 2e-8: the routine rounds per-frame values to 1e-8)",
                       "rows with an exact half-box displacement (minimum-image tie) or a squared displacement within 1e-6 "
                       "(relative) of the squared cutoff are skipped and counted as ties",
                       "chi4 asserted only when every origin of the row selects the same number of particles; "
                       "alpha2 only when the row's MSD is non-zero; S4 only when no origin has an empty subset",
                       "S4 is stated on the routine's default wave-vector set for a given numofq (the map qrange -> numofq is C04's)"]
    try:
        from PyMatterSim.dynamic.dynamics import Dynamics, LogDynamics  # noqa: F401
    except Exception as e:
        chk.violation(f"raises:{type(e).__name__}", {"dir": "import", "error": str(e)[:300]})
        return chk.finish()

    tmpdir = common.scratch_dir("verif_c06run_")
    try:
        if replay:
            data = common.load_replay(replay)
            case = data["case"]
            print("clause:", data.get("clause"))
            if case.get("dir") == "A":
                rec = {"op": case["variant"], "c": case["c"], "dt": case["dt"], "tsq": case["tsq"],
                       "nt": case.get("nt", 0), "numofq": case.get("numofq", 2)}
                tnum = case.get("tnum", 10 * rec["nt"])
            else:
                rec = dict(case["record"])
                tnum = 10 * rec["nt"]
            ctx = {}
            dtv = rec["dt"][0] / rec["dt"][1]
            T = rec["c"]["T"]
            try:
                if rec["op"] == "s4":
                    df = call_sq4(rec["c"], rec["tsq"], rec["dt"], tnum, rec["numofq"], tmpdir)
                    rec["obs"] = {"rows": len(df) if hasattr(df, "columns") else -1, "tq": [], "tq_ok": 1, "x4zero": 0}
                else:
                    df = call_relaxation(rec["c"], rec["tsq"], rec["dt"], rec["op"], tmpdir)
                    tq = [int(round(float(v) / dtv)) for v in df["t"].values]
                    rec["obs"] = {"rows": len(df), "tq": (tq + [0] * T)[:T - 1], "tq_ok": 1,
                                  "x4zero": int(bool(np.all(df["X4_Qt"].values == 0.0)))}
                ctx["df"] = df
                print("observed:")
                print(df.to_string() if hasattr(df, "to_string") else repr(df))
            except Exception as e:
                print("library raised:", type(e).__name__, e)
                ctx["raises"] = f"{type(e).__name__}: {e}"
                rec["obs"] = {"rows": -1 if rec["op"] != "s4" else 0, "tq": [0] * (T - 1), "tq_ok": 0, "x4zero": 0}
            r, rej, printed = validate_records([rec])
            if 1 in printed:
                p = printed[1]
                print("expected (spec):")
                if rec["op"] == "s4":
                    print({"masks": p["s4"]["masks"], "empty": p["s4"]["empty"]})
                    for g in p["s4"]["groups"]:
                        print("  q =", ev(g["q"]), " S4 =", ev(g["S"]))
                else:
                    for row in p["rows"]:
                        print("  ", {k: (ev(v) if isinstance(v, list) and not is_undef(v) else v) for k, v in row.items()})
            if rej:
                print("trace spec rejects the record, clause:", rej[1])
            check_trace(chk, [rec], [ctx])
            return chk.finish()

        # ---- direction A
        nsh = 8
        seen = {"lin": 0, "log": 0, "s4": 0}
        wrapped_eq = 0
        import concurrent.futures as cf
        pool = cf.ThreadPoolExecutor(max_workers=2 if tier == "quick" else 1)   # quick: both model runs start now; replay overlaps the second
        futs = {part: pool.submit(run_tlc_sharded, "MC_Relaxation",
                                  dict(constants={"Tier": tier, "Part": part, "SEED": common.SEED},
                                       invariants=INVS, properties=PROPS),
                                  nshards=nsh, timeout=5400)   # no -coverage: it disables TLC's LET caching (out of memory)
                for part in ("fam", "exh")}
        pool.shutdown(wait=False)
        for part in ("fam", "exh"):
            r = futs[part].result()
            require_model_ok(r, f"MC_Relaxation {part}")
            chk.add_tlc(r, f"MC_Relaxation {part}")
            if not r.cases:
                raise MachineryError("no cases emitted")
            # every behaviour has one initial state and prints one case at its last state; all other
            # transitions are Acc steps (the only action of the model)
            chk.coverage_actions["Init"] = chk.coverage_actions.get("Init", 0) + len(r.cases)
            chk.coverage_actions["Acc"] = chk.coverage_actions.get("Acc", 0) + r.distinct - len(r.cases)
            t_rep = time.process_time()
            for j, case in enumerate(r.cases):
                ok = replay_case(chk, case, tmpdir, csv=(j % 11 == 0))
                if ok:
                    seen[case["variant"]] += 1
                    wrapped_eq += int(case["smallDisp"] and case["c"]["mode"] == "x")
                    c = case["c"]
                    chk.ok(("A", part, j), nontrivial=True,
                           sample={"variant": case["variant"], "d": c["d"], "T": c["T"], "N": c["N"], "mode": c["mode"],
                                   "cal": c["cal"], "hasCond": c["hasCond"], "hasNb": c["hasNb"], "counts": case["counts"]})
            chk.extra["replay_cpu_s_" + part] = round(time.process_time() - t_rep, 1)
        chk.exhaustive = True
        chk.extra["cases_ok_by_variant"] = seen
        chk.extra["x_mode_cases_with_all_displacements_below_half_box"] = wrapped_eq
        if not chk.violations and min(seen.values()) == 0:
            raise MachineryError("scope is vacuous: a variant was never compared")

        # ---- direction B
        rng = random.Random(common.SEED * 7919 + 6)
        nrec = 90 if tier == "quick" else 1200
        recs, ctxs = [], []
        for _ in range(nrec):
            rec, ctx = gen_record(rng, tmpdir)
            recs.append(rec)
            ctxs.append(ctx)
        accepted = check_trace(chk, recs, ctxs, chunk=(15 if tier == "quick" else 80))
        corrupt_one_field(chk, [recs[i] for i in accepted])
        if chk.coverage_actions.get("Acc", 0) <= 0:
            raise MachineryError("action Acc has zero coverage: the loop state machines were not exercised")
        chk.samples.append({"trace_record": {"op": recs[0]["op"], "T": recs[0]["c"]["T"], "N": recs[0]["c"]["N"],
                                             "mode": recs[0]["c"]["mode"], "obs": recs[0]["obs"]}})
        return chk.finish()
    finally:
        shutil.rmtree(tmpdir, ignore_errors=True)
