"""C20 — freud Voronoi output files, their hand-off to read_neighbors, and VolumeMatrix
(PyMatterSim.neighbors.freud_neighbors, neighbors.read_neighbors) against spec/VoronoiOut.tla.

The tessellation is not modelled (the property states consistency, not geometry), so
direction B dominates: seeded random 2-D / 3-D configurations (positions and boxes exact decimals,
several origins including boxes centred on 0, 1-3 frames, also through the real dump
writer -> reader) are run through the real cal_neighbors; the three files are parsed into integer
lines (weights and volumes in quanta of 1e-6) and TraceVoronoiOut.tla decides every clause: layout,
rows in id order once per frame, cn = listed ids = listed weights, symmetric multiset of directed
entries, weights positive and equal in both directions, volumes sum to the box volume.  The same
files are then read frame by frame with the real read_neighbors on two open handles; the trace
specification carries both cursors and derives the expected matrix from the file lines.  The
volume-response matrix (raw and transformed) is requested for every frame index and must have the
right shape, rows summing to zero per displaced coordinate, equal the matrix of the one-frame
trajectory holding that frame, and (raw, small displacement) respond only to listed neighbours.

Direction A: MC_VoronoiOut.tla (TLC) proves the clauses consistent and non-vacuous on hand-built
outputs (lattices with duplicate / self neighbours) and 2300 single corruptions, each rejected by
the expected clause, and explores the two-handle reader state machine for every Nmax.  All emitted
files are rendered to text in the library's format; the good ones are read with the real
read_neighbors and compared with the matrices TLC printed; all are parsed back and re-decided by
TLC (Part = "verdict") - the text -> integer abstraction used in direction B is thereby checked.
"""
import json
import os
import random
import shutil

import numpy as np

from . import common
from .common import Check, run_tlc, run_tlc_sharded, require_model_ok, validate_trace

Q = 1000000          # quanta per unit of weights / volumes / matrix entries
INVS = ["InvSmallFaceClass", "InvGoodAccepted", "InvCorruptRejected", "InvVerdict", "InvFramesInOrder", "InvCnNeverExceedsNmax",
        "InvWidthAndPadding", "InvZeroBasedIds", "InvReadSymmetric"]
NMAXSET = [1, 2, 3, 4, 6, 200]
MAXREP = 4


class OffGrid(Exception):
    pass


def quanta(x):
    v = float(x) * Q
    r = round(v)
    if not np.isfinite(v) or abs(v - r) > 1e-3:
        raise OffGrid(f"{x!r} is not a multiple of 1e-6")
    return int(r)


class Reporter:
    def __init__(self, chk):
        self.chk = chk
        self.count = {}

    def violation(self, clause, case, key=None):
        self.count[clause] = self.count.get(clause, 0) + 1
        if self.count[clause] <= MAXREP:
            self.chk.violation(clause, case, finding_key=key)
        else:
            self.chk.replayed += 1
            self.chk.evaluations += 1
            self.chk.extra["violations_not_listed"] = self.chk.extra.get("violations_not_listed", 0) + 1


# ----------------------------------------------------------------------------
# files <-> integer lines (abstraction function of the three output files)
# ----------------------------------------------------------------------------

def parse_file(path, kind):
    """kind: 'nb' (integers) | 'w' (id cn floats) | 'ov' (id cn float).  Returns the lines of
    VoronoiOut.tla: {"h": 1, "nl": 0/1, "t": []} for a header, {"h": 0, "nl": 0, "t": [ints]} for a row."""
    out = []
    with open(path, "r", encoding="utf-8") as f:
        for ln in f.read().split("\n")[:-1]:
            tk = ln.split()
            if tk and tk[0] == "id":
                out.append({"h": 1, "nl": 1 if "neighborlist" in tk else 0, "t": []})
            elif kind == "nb":
                out.append({"h": 0, "nl": 0, "t": [int(x) for x in tk]})
            else:
                out.append({"h": 0, "nl": 0, "t": [int(x) for x in tk[:2]] + [quanta(x) for x in tk[2:]]})
    return out


def fq(m):
    s = "-" if m < 0 else ""
    m = abs(m)
    return f"{s}{m // Q}.{m % Q:06d}"


def render_files(fs, d, base):
    """Writes fs (integer lines) in the text layout of cal_neighbors; returns the three paths."""
    wname = "edgelength" if d == 2 else "facearea"
    paths = {"nb": base + ".neighbor.dat", "w": base + f".{wname}.dat", "ov": base + ".overall.dat"}
    hdr = {"nb": "id   cn   neighborlist\n", "w": f"id   cn   {wname}list\n", "ov": "id cn area_or_volume\n"}
    for kind, path in paths.items():
        with open(path, "w", encoding="utf-8") as f:
            for ln in fs[kind]:
                if ln["h"] == 1:
                    if ln["nl"] == 1:
                        f.write("id   cn   neighborlist\n")
                    else:
                        f.write(hdr[kind] if kind != "nb" else "id   cn   list\n")
                elif kind == "nb":
                    f.write("".join(f"{x} " for x in ln["t"]) + "\n")
                elif kind == "w":
                    f.write("".join(f"{x} " for x in ln["t"][:2]) + "".join(fq(x) + " " for x in ln["t"][2:]) + "\n")
                else:
                    f.write(" ".join([str(x) for x in ln["t"][:2]] + [fq(x) for x in ln["t"][2:]]) + "\n")
    return paths


class Handle:
    """An open list file with the map byte offset -> line number."""

    def __init__(self, path):
        self.off = {0: 0}
        pos = 0
        with open(path, "r", encoding="utf-8") as f:
            for i, ln in enumerate(f.read().split("\n")[:-1]):
                pos += len(ln.encode()) + 1
                self.off[pos] = i + 1
        self.f = open(path, "r", encoding="utf-8")

    def tell(self):
        return self.off.get(self.f.tell(), -1)

    def close(self):
        self.f.close()


def matrix_ints(m, which):
    m = np.asarray(m)
    if m.ndim != 2:
        raise OffGrid(f"read_neighbors returned an array of shape {m.shape}")
    if which == "nb":
        if not np.issubdtype(m.dtype, np.integer):
            raise OffGrid(f"neighbour matrix has dtype {m.dtype}")
        return [[int(x) for x in row] for row in m]
    out = []
    for row in m:
        if float(row[0]) != int(row[0]):
            raise OffGrid(f"coordination number {row[0]!r} is not an integer")
        out.append([int(row[0])] + [quanta(x) for x in row[1:]])
    return out


def call_read(read_neighbors, h, n, nmax):
    return read_neighbors(h.f, n) if nmax == 200 else read_neighbors(h.f, n, nmax) if nmax % 2 else read_neighbors(h.f, nparticle=n, Nmax=nmax)


# ----------------------------------------------------------------------------
# direction A
# ----------------------------------------------------------------------------

def dim_of(fs):
    return len(fs["L"][0])


def direction_a(chk, rep, lib, tmp, tier):
    r = run_tlc_sharded("MC_VoronoiOut", dict(constants={"Part": "model", "Gen": True}, invariants=INVS + ["Emit"]), nshards=6)
    require_model_ok(r, "MC_VoronoiOut model")
    chk.add_tlc(r, "MC_VoronoiOut Part=model")
    files = [c for c in r.cases if c["t"] == "files"]
    reads = {(c["g"], c["which"], c["f"], c["nmax"]): c for c in r.cases if c["t"] == "read"}
    if not files or not reads:
        raise common.MachineryError("MC_VoronoiOut emitted no cases")
    goods = [c for c in files if c["mut"]["c"] == "none"]
    ncorrupt = len(files) - len(goods)
    if len(goods) < 8 or len(files) < 1000 or any(c["why"] == "" for c in files if c["mut"]["c"] != "none"):
        raise common.MachineryError("MC_VoronoiOut: unexpected set of good / corrupted outputs")
    # --- every emitted output through text and the parser; TLC re-decides (Part = verdict)
    recs = []
    # quick: every good output and a seeded sample of the corrupted ones go through text + parser + TLC
    if tier == "quick":
        files = goods + common.sample([c for c in files if c["mut"]["c"] != "none"], 500, salt=20)
    for k, c in enumerate(files):
        d = dim_of(c["fs"])
        paths = render_files(c["fs"], d, os.path.join(tmp, f"a{k}"))
        back = {"N": c["fs"]["N"], "L": c["fs"]["L"], "nb": parse_file(paths["nb"], "nb"),
                "w": parse_file(paths["w"], "w"), "ov": parse_file(paths["ov"], "ov")}
        if back != c["fs"]:
            raise common.MachineryError(f"text rendering / parsing does not round-trip for emitted output {c['g']} {c['mut']}")
        recs.append({"fs": back, "why": c["why"]})
        if c["mut"]["c"] == "none":
            c["paths"] = paths
        else:
            for p in paths.values():
                os.remove(p)
    tr = os.path.join(tmp, "verdict.ndjson")
    with open(tr, "w") as f:
        for x in recs:
            f.write(json.dumps(x, separators=(",", ":")) + "\n")
    v = run_tlc_sharded("MC_VoronoiOut", dict(constants={"Part": "verdict", "Gen": False}, invariants=["InvVerdict"]),
                        nshards=2 if tier == "quick" else 6, env={"TRACE_FILE": tr})
    require_model_ok(v, "MC_VoronoiOut verdict")
    if v.distinct != len(recs):
        raise common.MachineryError(f"verdict run decided {v.distinct} of {len(recs)} outputs")
    chk.add_tlc(v, "MC_VoronoiOut Part=verdict")
    chk.extra["corrupted_outputs_rejected_by_expected_clause"] = ncorrupt
    chk.extra["outputs_through_text_parser_and_verdict_run"] = len(recs)
    # --- the good outputs through the real read_neighbors, two handles, every Nmax
    rng = random.Random(common.SEED * 31 + 20)
    for c in goods:
        N = c["fs"]["N"]
        scheds = [[nm] * len(N) for nm in NMAXSET] + [[rng.choice(NMAXSET) for _ in N] for _ in range(3)]
        for sched in scheds:
            hs = {"nb": Handle(c["paths"]["nb"]), "w": Handle(c["paths"]["w"])}
            ok = True
            try:
                order = [(w, f) for f in range(len(N)) for w in (("nb", "w") if rng.random() < 0.5 else ("w", "nb"))]
                for which, f in order:
                    e = reads[(c["g"], which, f + 1, sched[f])]
                    ctx = {"dir": "A", "output": c["g"], "file": which, "frame": f + 1, "nmax": sched[f]}
                    try:
                        m = matrix_ints(call_read(lib.read_neighbors, hs[which], N[f], sched[f]), which)
                    except OffGrid as ex:
                        rep.violation("ReadableByNeighborReader", dict(ctx, error=str(ex), expected=e["m"]))
                        ok = False
                        break
                    except Exception as ex:
                        rep.violation(f"raises:{type(ex).__name__}", dict(ctx, error=str(ex)[:200], expected=e["m"]))
                        ok = False
                        break
                    if m != e["m"]:
                        rep.violation("ReadableByNeighborReader", dict(ctx, expected=e["m"], observed=m))
                        ok = False
                        break
                    if hs[which].tell() != e["tell"]:
                        rep.violation("Cursor", dict(ctx, expected=e["tell"], observed=hs[which].tell()))
                        ok = False
                        break
            finally:
                for h in hs.values():
                    h.close()
            if ok:
                chk.ok(("A", c["g"], str(sched)), sample={"output": c["g"], "N": N, "nmax_per_frame": sched,
                                                          "neighbour_matrix_frame1": reads[(c["g"], "nb", 1, sched[0])]["m"]})
    return goods, reads


# ----------------------------------------------------------------------------
# direction B
# ----------------------------------------------------------------------------

def gen_config(rng, d, n, origin_kind):
    """Box lengths as integers in units of 10^(-6/d) (their product = volume in quanta), origin and
    positions as integers in units of 1e-3."""
    if d == 2:
        Lq = [rng.randint(2000, 30000) for _ in range(2)]           # 1e-3
        Lm = list(Lq)
    else:
        Lq = [rng.randint(150, 1000) for _ in range(3)]             # 1e-2
        Lm = [10 * x for x in Lq]
    if origin_kind == 0:
        lo = [0] * d
    elif origin_kind == 1:                                          # centred on 0 (even lengths in 1e-3)
        if d == 2:
            Lq = [x + (x % 2) for x in Lq]
            Lm = list(Lq)
        lo = [-(x // 2) for x in Lm]
    elif origin_kind == 2:
        lo = [rng.randint(-20000, 20000) for _ in range(d)]
    else:                                                           # bounds sum to zero, box not centred
        lo = [rng.randint(-9000, 9000) for _ in range(d - 1)]
        s = sum(2 * a + b for a, b in zip(lo, Lm[:-1])) + Lm[-1]
        if s % 2:
            lo[0] += 1
            s += 2
        lo.append(-(s // 2))
    pos = [[lo[k] + rng.randint(0, Lm[k] - 1) for k in range(d)] for _ in range(n)]
    return Lq, Lm, lo, pos


# a 3-D configuration for which freud lists a small face (area 0.001724) for one of its two
# cells only (9 -> 5 three times, 5 -> 9 twice): (Lq, Lm, lo, positions) in the units of gen_config
SENTINEL = (3, [([439, 508, 418], [4390, 5080, 4180], [-2195, -2540, -2090], [[-481, 1625, -33], [875, 808, 315], [-817, -2362, -799], [610, 1728, -483], [1377, 243, 432],
              [1908, 2326, -615], [53, -2485, 1761], [108, 1307, 110], [-305, 1791, 1238]])])


def related_frames(rng, d, frames):
    """frames 2.. take their box from frame 1: kind 0 the edge lengths permuted (same volume, other shape), kind 1 (2-D)
    L x L -> (L p / q) x (L q / p) (same volume), kind 2 the same lengths at a shifted origin, kind 3 the same box."""
    out = [frames[0]]
    Lq0, Lm0, lo0, _ = frames[0]
    for j in range(1, len(frames)):
        n = len(frames[j][3])
        kind = rng.choice([0, 0, 1, 2, 3])
        Lq, Lm, lo = list(Lq0), list(Lm0), list(lo0)
        if kind == 0:
            perm = list(range(d))
            while perm == list(range(d)) and len(set(Lq0)) > 1:
                rng.shuffle(perm)
            Lq, Lm = [Lq0[k] for k in perm], [Lm0[k] for k in perm]
        elif kind == 1 and d == 2:
            p_, q_ = rng.choice([(3, 4), (4, 3), (2, 3), (1, 2)])
            a = (Lq0[0] // (p_ * q_)) * p_ * q_
            if a >= 2000:
                if out[0][0] != [a, a] and j == 1:       # frame 1 becomes the a x a square box
                    n0 = len(frames[0][3])
                    out[0] = ([a, a], [a, a], list(lo0), [[lo0[k] + rng.randint(0, a - 1) for k in range(2)] for _ in range(n0)])
                    Lq0, Lm0 = [a, a], [a, a]
                Lq = [a * p_ // q_, a * q_ // p_]
                Lm = list(Lq)
        elif kind == 2:
            lo = [x + rng.randint(-3000, 3000) for x in lo0]
        pos = [[lo[k] + rng.randint(0, Lm[k] - 1) for k in range(d)] for _ in range(n)]
        out.append((Lq, Lm, lo, pos))
    return out


def make_snap(lib, Lm, lo, pos, ts):
    L = np.array(Lm, dtype=float) / 1000
    lo_ = np.array(lo, dtype=float) / 1000
    return lib.SingleSnapshot(timestep=ts, nparticle=len(pos), particle_type=np.ones(len(pos), dtype=int),
                              positions=np.array(pos, dtype=float).reshape(len(pos), len(Lm)) / 1000, boxlength=L,
                              boxbounds=np.c_[lo_, lo_ + L], realbounds=None, hmatrix=np.diag(L))


def via_dump(lib, tmp, k, frames, d):
    """The same frames through the real header writer and the real dump reader."""
    path = os.path.join(tmp, f"s{k}.atom")
    with open(path, "w", encoding="utf-8") as f:
        for ts, (Lq, Lm, lo, pos) in enumerate(frames):
            b = np.array([[lo[i], lo[i] + Lm[i]] for i in range(d)], dtype=float) / 1000
            f.write(lib.write_dump_header(ts, len(pos), b, ""))
            for i, p in enumerate(pos):
                f.write(f"{i + 1} 1 " + " ".join(f"{x / 1000:.3f}" for x in p) + "\n")
    return lib.read_lammps_wrapper(path, d)


def vm_ints(M):
    M = np.asarray(M, dtype=float)
    if M.ndim != 2 or not np.all(np.isfinite(M)) or np.abs(M).max() > 2000:
        raise OffGrid(f"matrix of shape {M.shape} with non-finite or huge entries")
    return [[int(x) for x in row] for row in np.rint(M * Q)]


def gen_session(lib, rng, tmp, k, fixed=None):
    recs, ctx = [], []
    d = rng.choice([2, 3])
    nfr = rng.randint(1, 3)
    # (one to three particles per box: every cell meets the same neighbours - or itself - through several periodic images)
    n0 = rng.choice([1, 2, 3]) if rng.random() < 0.25 else rng.randint(4, 40 if d == 2 else 28)
    same = rng.random() < 0.6
    okind = rng.choice([0, 1, 1, 2, 3])
    frames = [gen_config(rng, d, n0 if same else rng.randint(2, 30), okind if rng.random() < 0.8 else rng.randint(0, 3))
              for _ in range(nfr)]
    # histories: consecutive frames that share an attribute of the box while the box itself differs (a deformation at
    # constant volume: edge lengths permuted, or a x a -> (a p / q) x (a q / p); the same box at another origin; the very same box)
    if nfr > 1 and rng.random() < 0.6:
        frames = related_frames(rng, d, frames)
    dumped = rng.random() < 0.4
    if fixed is not None:
        d, frames = fixed
        nfr = len(frames)
    base = {"d": d, "frames": [{"L": [x / 1000 for x in Lm], "lo": [x / 1000 for x in lo], "pos_milli": pos} for _, Lm, lo, pos in frames],
            "via_dump_reader": dumped}
    try:
        snaps = via_dump(lib, tmp, k, frames, d) if dumped else \
            lib.Snapshots(nsnapshots=nfr, snapshots=[make_snap(lib, Lm, lo, pos, ts) for ts, (_, Lm, lo, pos) in enumerate(frames)])
        out = os.path.join(tmp, f"s{k}")
        lib.cal_neighbors(snaps, out)
    except Exception as e:
        return recs, ctx, [(f"raises:{type(e).__name__}", dict(base, call="cal_neighbors", error=str(e)[:200]), None)]
    wname = "edgelength" if d == 2 else "facearea"
    paths = {"nb": out + ".neighbor.dat", "w": out + f".{wname}.dat", "ov": out + ".overall.dat"}
    try:
        fs = {"N": [len(f[3]) for f in frames], "L": [f[0] for f in frames],
              "nb": parse_file(paths["nb"], "nb"), "w": parse_file(paths["w"], "w"), "ov": parse_file(paths["ov"], "ov")}
    except (OffGrid, ValueError, OSError) as e:
        return recs, ctx, [("Layout", dict(base, error=str(e)[:200]), None)]
    recs.append({"op": "files", "d": d, "fs": fs, "tolerate": 0})
    ctx.append(base)
    extra = []
    # ---- frame locality: the one-frame trajectory holding frame f gives the lines of frame f
    if nfr > 1:
        for f in range(nfr):
            one = lib.Snapshots(nsnapshots=1, snapshots=[snaps.snapshots[f]])
            out1 = os.path.join(tmp, f"s{k}_one{f}")
            info = dict(base, call=f"cal_neighbors on the one-frame trajectory holding frame {f}")
            try:
                lib.cal_neighbors(one, out1)
                fs1 = {"N": [fs["N"][f]], "L": [fs["L"][f]], "nb": parse_file(out1 + ".neighbor.dat", "nb"),
                       "w": parse_file(out1 + f".{wname}.dat", "w"), "ov": parse_file(out1 + ".overall.dat", "ov")}
            except Exception as e:
                extra.append((f"raises:{type(e).__name__}", dict(info, error=str(e)[:200]), None))
                continue
            recs.append({"op": "files_ref", "k": f, "fs": fs1})
            ctx.append(info)
    # ---- hand-off to read_neighbors: two handles, frames in order, random Nmax
    hs = {"nb": Handle(paths["nb"]), "w": Handle(paths["w"])}
    try:
        order = [(w, f) for f in range(nfr) for w in (("nb", "w") if rng.random() < 0.5 else ("w", "nb"))]
        for which, f in order:
            nmax = rng.choice([1, 2, 3, 5, 8, 12, 200, 200])
            rec = {"op": "read", "file": which, "nmax": nmax}
            try:
                rec["obs"] = matrix_ints(call_read(lib.read_neighbors, hs[which], fs["N"][f], nmax), which)
                rec["tell"] = hs[which].tell()
            except Exception as e:
                extra.append((f"raises:{type(e).__name__}" if not isinstance(e, OffGrid) else "ReadableByNeighborReader",
                              dict(base, call="read_neighbors", file=which, frame=f, nmax=nmax, error=str(e)[:200]), None))
                break
            recs.append(rec)
            ctx.append(dict(base, file=which, frame=f, nmax=nmax))
    finally:
        for h in hs.values():
            h.close()
    # ---- volume-response matrix for every frame index
    for f in range(nfr):
        if fs["N"][f] > 24 and rng.random() < 0.5:
            continue
        tr = 1 if (rng.random() < 0.3 and fs["N"][f] >= 3) else 0
        small = rng.random() < 0.8
        kw = dict(ndim=d, transform_matrix=bool(tr))
        if small:
            kw["deltar"] = 1e-5
        save = rng.random() < 0.5
        one = lib.Snapshots(nsnapshots=1, snapshots=[snaps.snapshots[f]])
        before = [s.positions.copy() for s in snaps.snapshots]
        for op, ss, idx in (("vm_ref", one, 0), ("vm", snaps, f)):
            rec = {"op": op, "k": f, "tr": tr, "loc": 1 if small else 0}
            info = dict(base, call=f"VolumeMatrix(nconfig={idx}, transform_matrix={bool(tr)}, deltar={'1e-5' if small else 'default'})",
                        frames_in_trajectory=ss.nsnapshots)
            try:
                path = os.path.join(tmp, f"vm{k}_{f}_{op}.npy")
                M = lib.VolumeMatrix(ss, nconfig=idx, outputfile=path if (save and op == "vm") else "", **kw)
                rec["obs"] = vm_ints(M)
                if save and op == "vm":
                    if not os.path.exists(path) or not np.array_equal(np.load(path), M):
                        extra.append(("SavedMatrix", info, None))
            except OffGrid as e:
                extra.append(("VolumeMatrixShape", dict(info, error=str(e)), None))
                continue
            except Exception as e:
                key = None
                if isinstance(e, IndexError) and idx != 0:
                    key = "VolumeMatrix:frame_index"
                elif isinstance(e, TypeError) and save and not tr:
                    key = "VolumeMatrix:np_save"
                elif isinstance(e, np.linalg.LinAlgError):
                    key = "VolumeMatrix:singular_inverse"
                extra.append((f"raises:{type(e).__name__}", dict(info, error=str(e)[:200]), key))
                continue
            recs.append(rec)
            ctx.append(info)
        if any(not np.array_equal(b, s.positions) for b, s in zip(before, snaps.snapshots)):
            extra.append(("InputUnchanged", dict(base, call="VolumeMatrix", note="snapshot positions differ bitwise after the call"),
                          "VolumeMatrix:aliased_positions"))
    return recs, ctx, extra


def validate_sessions(chk, rep, sessions):
    flat = [(si, r, c) for si, (recs, ctx, _) in enumerate(sessions) for r, c in zip(recs, ctx)]
    res_all = common.TlcResult()
    start = 0
    rejected = 0
    while start < len(flat):
        recs = [r for _, r, _ in flat[start:]]
        res, rej = validate_trace("TraceVoronoiOut", recs)
        res_all.merge(res)
        if rej is None:
            for _ in recs:
                chk.ok(None)
            break
        idx, clause = rej
        for _ in range(idx):
            chk.ok(None)
        si, r, c = flat[start + idx]
        small = {k: v for k, v in r.items() if k not in ("fs", "obs")}
        if clause == "SymmetricMultiset:SmallFaceMissing" and r.get("tolerate") == 0:
            # the known pattern of the tessellation library: report it, then let the specification
            # skip exactly this pattern for this record so that the rest of the session is still decided
            rep.violation("trace:" + clause, {"dir": "B", "record": small, **c}, "cal_neighbors:small_face_missing")
            r["tolerate"] = 1
            start = start + idx
            continue
        rep.violation("trace:" + clause, {"dir": "B", "record": small, **c})
        rejected += 1
        nxt = start + idx + 1
        while nxt < len(flat) and flat[nxt][0] == si:     # files / cursors / remembered matrices are spec state
            nxt += 1
        start = nxt
        if rejected >= 8:
            break
    chk.add_tlc(res_all, "TraceVoronoiOut")


def corrupt_selftest(chk, goods, reads):
    """Non-vacuity of the trace specification, independent of the library: a session built from
    TLC's own two-frame output (square + rectangular lattice) and expected matrices is accepted;
    with ONE field changed it is rejected at that record by the expected clause."""
    c = next(x for x in goods if x["fs"]["N"] == [4, 4])
    fs = {k: c["fs"][k] for k in ("N", "L", "nb", "w", "ov")}

    def synth(f, v):            # a matrix with zero row sums that responds to one listed neighbour
        M = []
        for p in range(1, 5):
            ids = fs["nb"][(f - 1) * 5 + p]["t"][2:]
            i = next(x for x in ids if x != p)
            row = [0] * 8
            row[2 * (i - 1)] = v
            row[2 * (p - 1)] = -v
            M.append(row)
        return M

    r1, r2 = reads[(c["g"], "nb", 1, 200)], reads[(c["g"], "w", 1, 2)]
    base = [{"op": "files", "d": 2, "fs": fs, "tolerate": 0},
            {"op": "read", "file": "nb", "nmax": 200, "obs": r1["m"], "tell": r1["tell"]},
            {"op": "read", "file": "w", "nmax": 2, "obs": r2["m"], "tell": r2["tell"]},
            {"op": "vm_ref", "k": 0, "tr": 0, "loc": 1, "obs": synth(1, 5000)},
            {"op": "vm", "k": 0, "tr": 0, "loc": 1, "obs": synth(1, 5000)},
            {"op": "vm_ref", "k": 1, "tr": 0, "loc": 1, "obs": synth(2, 7000)},
            {"op": "vm", "k": 1, "tr": 0, "loc": 1, "obs": synth(2, 7000)},
            {"op": "files_ref", "k": 1, "fs": {"N": [4], "L": [fs["L"][1]], "nb": fs["nb"][5:10], "w": fs["w"][5:10],
                                               "ov": [fs["ov"][0]] + fs["ov"][5:9]}}]

    def variant(name):
        t = json.loads(json.dumps(base))
        if name == "cursor":
            t[1]["tell"] += 1
            return t, 1, "Cursor"
        if name == "matrix":
            t[2]["obs"][0][1] += 1
            return t, 2, "ReadableByNeighborReader"
        if name == "symmetry":
            t[0]["fs"]["nb"][1]["t"][2] = 3
            return t, 0, "SymmetricMultiset"
        if name == "rowsum":
            t[4]["obs"][2][0] += 5000
            return t, 4, "RowsSumToZero"
        if name == "frame":
            t[6]["obs"] = t[3]["obs"]
            return t, 6, "RequestedFrame"
        if name == "support":
            t[3]["obs"][0][6] += 9000       # particle 1 responds to particle 4, not a listed neighbour
            t[3]["obs"][0][0] -= 9000
            return t, 3, "RequestedFrame:LocalSupport"
        if name == "local":                 # the one-frame run lists another neighbour for particle 1
            ids = t[7]["fs"]["nb"][1]["t"]
            ids[2] = next(x for x in (1, 2, 3, 4) if x != ids[2])
            return t, 7, "FrameLocal"
        if name == "localweight":
            t[7]["fs"]["w"][2]["t"][2] += 2
            return t, 7, "FrameLocal"
        return t, None, None

    names = ["intact", "cursor", "matrix", "symmetry", "rowsum", "frame", "support", "local", "localweight"]
    import concurrent.futures as cf
    with cf.ThreadPoolExecutor(max_workers=4) as ex:
        outs = list(ex.map(lambda n: (n, variant(n), validate_trace("TraceVoronoiOut", variant(n)[0])), names))
    for name, (_, i, clause), (res, rej) in outs:
        chk.add_tlc(res, f"TraceVoronoiOut corrupt-one-field ({name})")
        if (i is None and rej is not None) or (i is not None and (rej is None or rej[0] != i or not rej[1].startswith(clause))):
            raise common.MachineryError(f"TraceVoronoiOut self-test '{name}': expected {(i, clause)}, got {rej}")
    chk.extra["corrupt_one_field_rejected"] = names[1:]


def load_lib():
    from types import SimpleNamespace as NS
    try:
        from PyMatterSim.neighbors import freud_neighbors as FN
    except Exception as e:         # the routines deliver nothing: a violation, not a machinery failure
        return None, e
    from PyMatterSim.neighbors.read_neighbors import read_neighbors
    from PyMatterSim.reader.reader_utils import SingleSnapshot, Snapshots
    from PyMatterSim.reader.lammps_reader_helper import read_lammps_wrapper
    from PyMatterSim.writer.lammps_writer import write_dump_header
    return NS(cal_neighbors=FN.cal_neighbors, VolumeMatrix=FN.VolumeMatrix, read_neighbors=read_neighbors,
              SingleSnapshot=SingleSnapshot, Snapshots=Snapshots, read_lammps_wrapper=read_lammps_wrapper,
              write_dump_header=write_dump_header), None


def run(tier, replay=None):
    common.import_lib()
    chk = Check("C20", tier)
    rep = Reporter(chk)
    chk.rule = ("B (dominant): seeded random 2-D/3-D configurations (N 1..40, 1-3 frames, origins 0 / centred / random / "
                "zero-sum, direct Snapshots or real writer -> dump reader) through cal_neighbors; files parsed to integer lines; "
                "TraceVoronoiOut.tla decides Layout, RowsInIdOrder, CnEqualsListed, IdsInRange, SymmetricMultiset, "
                "WeightsPositive, WeightsSymmetric(+-1 quantum), VolumesSumToBox(+-N quanta); read_neighbors on two handles "
                "with random Nmax (cursors are spec variables); VolumeMatrix raw/transformed for every frame index: shape, "
                "RowsSumToZero, equality with the one-frame trajectory (RequestedFrame), LocalSupport on listed neighbours.  "
                "A: MC_VoronoiOut.tla: 8 hand-built outputs accepted, every single corruption rejected by the expected clause, "
                "two-handle reader state machine for every Nmax; emitted files rendered, read by the real reader, parsed back "
                "and re-decided by TLC.")
    chk.assumptions = ["the tessellation itself (which cells are adjacent, the magnitude of weights, volumes and matrix entries) is not modelled",
                       "weights / volumes compared at the written precision 1e-6; a weight printed as 0.000000 is admissible",
                       "matrix entries rounded to 1e-6; LocalSupport only for deltar = 1e-5 with tolerance 2e-3",
                       "positions inside the box, exact decimals with 3 digits"]
    lib, err = load_lib()
    tmp = common.scratch_dir("verif_c20_")
    try:
        if replay:
            stored = common.load_replay(replay)
            case = stored["case"]
            print(f"clause: {stored['clause']}")
            if lib is None or "frames" not in case:
                print(json.dumps(case, indent=1)[:8000])
                return 0
            d = case["d"]
            frames = []
            for fr in case["frames"]:
                Lm = [int(round(x * 1000)) for x in fr["L"]]
                frames.append((Lm if d == 2 else [x // 10 for x in Lm], Lm, [int(round(x * 1000)) for x in fr["lo"]], fr["pos_milli"]))
            bad = 0
            for k in range(6):          # the random choices of the session (Nmax, raw / transformed, ...) vary
                s = gen_session(lib, random.Random(k), tmp, k, (d, frames))
                for clause, c, key in s[2]:
                    print("STILL VIOLATED:", clause, c.get("call", ""), c.get("error", ""))
                    bad += 1
                validate_sessions(chk, rep, [s])
            for clause, c in chk.violations:
                print("STILL VIOLATED:", clause, json.dumps(c.get("record", {}))[:300])
                bad += 1
            if not bad:
                print("no violation on the current tree")
            return 1 if bad else 0
        if lib is None:
            rep.violation(f"raises:{type(err).__name__}", {"call": "import PyMatterSim.neighbors.freud_neighbors", "error": str(err)[:300]})
            return chk.finish()
        goods, reads = direction_a(chk, rep, lib, tmp, tier)
        rng = random.Random(common.SEED * 104729 + 20)
        nsess = 36 if tier == "quick" else 500
        sessions = []
        zero_w = 0
        for k in range(nsess):
            s = gen_session(lib, rng, tmp, k, SENTINEL if (k == 0 and tier == "thorough") else None)
            sessions.append(s)
            for clause, case, key in s[2]:
                rep.violation(clause, case, key)
            if s[0]:
                zero_w += sum(1 for ln in s[0][0]["fs"]["w"] if ln["h"] == 0 for x in ln["t"][2:] if x == 0)
            for fn in os.listdir(tmp):
                if fn.startswith(f"s{k}.") or fn.startswith(f"vm{k}_"):
                    os.remove(os.path.join(tmp, fn))
        chk.skipped_tie += zero_w          # weights below the written precision: admissible, not decided
        chunk = 60
        for i in range(0, len(sessions), chunk):
            validate_sessions(chk, rep, sessions[i:i + chunk])
        corrupt_selftest(chk, goods, reads)
        chk.extra["sessions"] = nsess
        chk.extra["frames"] = sum(len(s[0][0]["fs"]["N"]) for s in sessions if s[0])
        first = next((s for s in sessions if s[0]), None)
        if first:
            fs = first[0][0]["fs"]
            chk.samples.append({"d": first[0][0]["d"], "N": fs["N"], "L": fs["L"], "neighbour_rows": [ln["t"] for ln in fs["nb"][1:4]]})
        chk.exhaustive = False
        return chk.finish()
    finally:
        shutil.rmtree(tmp, ignore_errors=True)
