"""CLI: ./check <Cxx> quick|thorough [--replay <path>]"""
import importlib
import os
import sys
import traceback


def main(argv):
    if len(argv) < 2:
        print(__doc__)
        return 2
    pid = argv[0].upper()
    replay = None
    tier = os.environ.get("VERIF_TIER", "quick")
    rest = argv[1:]
    i = 0
    while i < len(rest):
        if rest[i] == "--replay":
            replay = rest[i + 1]
            i += 2
        else:
            tier = rest[i]
            i += 1
    if tier not in ("quick", "thorough"):
        print("tier must be quick or thorough")
        return 2
    from . import common
    try:
        mod = importlib.import_module(f"harness.{pid.lower()}")
        return mod.run(tier, replay=replay)
    except common.MachineryError as e:
        print(f"MACHINERY-ERROR {pid}: {e}")
        return 2
    except Exception:
        traceback.print_exc()
        print(f"MACHINERY-ERROR {pid}: unexpected exception in the harness")
        return 2


if __name__ == "__main__":
    sys.exit(main(sys.argv[1:]))
