"""CLI: ./check <Cxx> quick|thorough [--replay <path>]"""
import importlib
import os
import sys
import traceback


def main(argv):
    if len(argv) < 2:
        print(__doc__)
        return 2
    pid = argv[0].upper()
    replay = None
    tier = os.environ.get("VERIF_TIER", "quick")
    rest = argv[1:]
    i = 0
    while i < len(rest):
        if rest[i] == "--replay":
            replay = rest[i + 1]
            i += 2
        else:
            tier = rest[i]
            i += 1
    if tier not in ("quick", "thorough"):
        print("tier must be quick or thorough")
        return 2
    from . import common
    try:
        mod = importlib.import_module(f"harness.{pid.lower()}")
        return mod.run(tier, replay=replay)
    except common.MachineryError as e:
        print(f"MACHINERY-ERROR {pid}: {e}")
        return 2
    except Exception as e:
        tb = traceback.format_exc()
        cause = _library_cause(e, tb, common)
        if cause and not replay:
            # An exception that escaped the per-call handlers of the check but was RAISED INSIDE THE LIBRARY (or is the
            # conversion of a NaN / infinity the library returned): the routine did not deliver a result on an input of the
            # scope - a violation of the property (DESIGN 3.5), not a failure of the machinery.
            chk = common.Check(pid, tier)
            chk.rule = "the check was interrupted by an exception raised inside the library; see the violation"
            chk.violation(cause, {"traceback": tb[-3000:]})
            return chk.finish()
        print(tb)
        print(f"MACHINERY-ERROR {pid}: unexpected exception in the harness")
        return 2


def _library_cause(e, tb, common):
    """'raises:<Type>' if some frame of the traceback (also of a worker process: RemoteTraceback text) lies in the library
    under test, 'NonFiniteOutput' if a NaN / infinity was converted by the harness, else None"""
    import os
    lib = os.path.join(os.path.realpath(common.SRC), "PyMatterSim") + os.sep
    texts, x, seen = [tb], e, set()
    while x is not None and id(x) not in seen:
        seen.add(id(x))
        texts.append("".join(traceback.format_exception(type(x), x, x.__traceback__)))
        texts.append(str(getattr(x, "tb", "")))
        x = x.__cause__ or x.__context__
    blob = "\n".join(texts)
    if lib in blob or (os.sep + "PyMatterSim" + os.sep in blob and common.SRC in blob):
        return f"raises:{type(e).__name__}"
    if isinstance(e, (ValueError, OverflowError)) and any(t in str(e) for t in ("NaN", "infinity", "inf to int")):
        return "NonFiniteOutput"
    return None


if __name__ == "__main__":
    sys.exit(main(sys.argv[1:]))
