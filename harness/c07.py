"""C07 — symmetries of the observables (metamorphic replay) against spec/Symmetry.tla.

The real code is its own oracle; the SPECIFICATION supplies the transformation and the expected
relation.  spec/Symmetry.tla defines the generators (rigid translation with / without the cell
origin and with / without re-wrapping, per-particle lattice image shifts, id relabelling, species
swap, axis permutation with the cell, rational rotations of open clusters, dilation) with their exact
action on an abstract configuration and on every observable; MC_Symmetry.tla checks on every word of
its scope that the MODEL observables of PairHist, DensityModes, Neighbors, Boo2D, Boo3D, LocalOrder
and VectorField are equivariant (one INVARIANT per family) and prints the word, both configurations
and the action (id permutation, species map, column renaming, the linear map on bond vectors, the
phase factor of psi_l).

Direction A (small): every emitted case is rendered twice (base, transformed) into the public API:
gr, sq, Nnearests / cutoffneighbors / cutoffneighbors_particletype / freud cal_neighbors, boo_3d,
boo_2d, q8_tetrahedral, S2.particle_s2, HessianMatrix.diagonalize_hessian, Dynamics.relaxation,
LogDynamics.relaxation, gyration_tensor, participation_ratio; the two results must stand in the
relation the specification states.  The Python applier of generator parameters (needed for the big
inputs below) is validated on every small case: applied to the base configuration it must
reproduce TLC's transformed configuration and action exactly, in integers.  The specification also decides the
degrees of the 3-D bond-order observables (Symmetry!BooDegrees: 4, 6; every degree 1..13 where the word moves bond
directions) and the evaluation schedule (Symmetry!Schedule): base and transformed configuration are analysed in one
process, into one output directory with fixed file names; axis words on periodic cells run base, transformed, base
again and the transformed result must agree with both (module-level state of the library is part of the process).

Direction A (trajectories): the repository's own sample trajectories are read with the real dump
reader and sub-sampled (box unchanged); TLC (mode "traj") decides which generic words apply to
each (particle number, species number, cell shape, mask) and prints their parameters and the
re-indexed species tables; the validated applier transforms the real coordinates.  Margins of
float-fragile decisions are measured from the code's own distances; affected particles / bins
are counted as ties, never as violations.
"""
import json
import math
import os
import random
import shutil
import tempfile
import time
import warnings

import numpy as np

from . import common
from .common import Check, run_tlc_sharded, require_model_ok
from .realeval import ev

INVS = ["InvBaseTieFree", "InvTieFreeKept", "InvTables", "InvCell", "InvPairVectors", "InvPairHist", "InvDensityModes",
        "InvNeighbors", "InvBonds", "InvPsi", "InvQl", "InvTetra", "InvGyration", "InvField", "InvDisplacements",
        "InvGroupLaw", "InvRelabelWrap"]
SAMPLES = "/repo/tests/sample_test_data"
RTOL = 1e-9
TRAJ_S = 1000        # generator parameters for trajectories are lengths in units 1/1000

ARR = ("H", "org", "ppp", "types", "frames", "field", "vecs", "R", "dia", "E", "ms")
NUM = ("d", "S", "wn", "rc", "rn", "nn", "nd", "an", "ad")


# ============================================================================================
# configurations and the applier of generator parameters
# ============================================================================================
def cfg_from_json(c):
    out = {k: np.array(c[k], dtype=np.int64) for k in ARR}
    for k in NUM:
        out[k] = int(c[k])
    out["nb"] = [[list(r) for r in fr] for fr in c["nb"]]
    out["wt"] = [[list(r) for r in fr] for fr in c["wt"]]
    return out


def cfg_equal(a, b):
    for k in ARR:
        if a[k].shape != b[k].shape or not np.array_equal(a[k], b[k]):
            return k
    for k in NUM:
        if a[k] != b[k]:
            return k
    if a["nb"] != b["nb"]:
        return "nb"
    if a["wt"] != b["wt"]:
        return "wt"
    return None


def _adj_det(H):
    """adjugate and determinant of a 2x2 / 3x3 matrix, exact for integer input"""
    d = H.shape[0]
    if d == 2:
        adj = np.array([[H[1, 1], -H[0, 1]], [-H[1, 0], H[0, 0]]], dtype=H.dtype)
        det = H[0, 0] * H[1, 1] - H[0, 1] * H[1, 0]
        return adj, det
    adj = np.empty((3, 3), dtype=H.dtype)
    for i in range(3):
        for j in range(3):
            r = [x for x in range(3) if x != j]
            c = [x for x in range(3) if x != i]
            m = H[r[0], c[0]] * H[r[1], c[1]] - H[r[0], c[1]] * H[r[1], c[0]]
            adj[i, j] = m if (i + j) % 2 == 0 else -m
    det = sum(H[0, k] * adj[k, 0] for k in range(3))
    return adj, det


def _wrap(cfg, pos):
    """fractional coordinates (relative to the origin) of the periodic axes brought into [0, 1)"""
    H, org, ppp = cfg["H"], cfg["org"], cfg["ppp"]
    rel = pos - org
    if np.issubdtype(pos.dtype, np.integer):
        adj, det = _adj_det(H)
        fn = rel @ adj
        if det < 0:
            fn, det = -fn, -det
        n = (fn // det) * ppp
    else:
        n = np.floor(rel @ np.linalg.inv(H)) * ppp
    return pos - n @ H


def _rot_num(q):
    if len(q) == 2:
        a, b = q
        m2 = a * a + b * b
        m = math.isqrt(m2)
        assert m * m == m2
        return np.array([[a, -b], [b, a]], dtype=np.int64), m
    w, x, y, z = q
    Rn = np.array([[w * w + x * x - y * y - z * z, 2 * (x * y - w * z), 2 * (x * z + w * y)],
                   [2 * (x * y + w * z), w * w - x * x + y * y - z * z, 2 * (y * z - w * x)],
                   [2 * (x * z - w * y), 2 * (y * z + w * x), w * w - x * x - y * y + z * z]], dtype=np.int64)
    return Rn, w * w + x * x + y * y + z * z


def _rescale(c, M, m, s):
    dt = c["frames"].dtype
    M = M.astype(dt)
    c["S"] = c["S"] * s
    c["H"] = c["H"] * m
    c["org"] = c["org"] * m
    c["frames"] = c["frames"] @ M.T
    c["field"] = c["field"] @ M.T.astype(c["field"].dtype)
    for k in ("wn", "rc", "rn"):
        c[k] = c[k] * m
    c["R"] = c["R"] * m
    c["dia"] = c["dia"] * m
    return c


def apply_word(cfg, word):
    """The action of spec/Symmetry.tla (Apply / StepG) on a configuration whose numbers are in units
    1/S: integers (TLC's small configurations: exact) or floats (real trajectories)."""
    c = dict(cfg)
    n = len(c["types"])
    K = len(c["dia"])
    d = c["d"]
    act = {"pi": list(range(1, n + 1)), "sigma": list(range(1, K + 1)), "ax": list(range(1, d + 1)),
           "lin": np.eye(d, dtype=np.int64), "S0": cfg["S"], "rotated": False, "dilated": False,
           "wrapped": False, "imgfr": False}
    for g in word:
        kind = g["kind"]
        lin = np.eye(d, dtype=np.int64)
        if kind == "trans":
            t = np.array(g["t"], dtype=c["frames"].dtype)
            c["frames"] = c["frames"] + t
            if g["box"] == 1:
                c["org"] = c["org"] + t
            if g["wrap"] == 1:
                c["frames"] = _wrap(c, c["frames"])
                act["wrapped"] = True
        elif kind == "image":
            F = c["frames"].shape[0]
            i = np.arange(1, n + 1)[None, :, None]
            f = np.arange(1, F + 1)[:, None, None]
            a = np.array(g["a"])[None, None, :]
            b = np.array(g["b"])[None, None, :]
            coef = (((a * i + b + g["fr"] * f) % g["m"]) - g["m"] // 2) * c["ppp"][None, None, :]
            c["frames"] = c["frames"] + coef.astype(c["frames"].dtype) @ c["H"]
            act["imgfr"] = act["imgfr"] or g["fr"] != 0
        elif kind == "relabel":
            mul = n - 1 if g["mul"] == 0 else g["mul"]
            pi = [((i - 1) * mul + g["add"]) % n + 1 for i in range(1, n + 1)]
            assert sorted(pi) == list(range(1, n + 1))
            idx = np.empty(n, dtype=np.int64)
            idx[np.array(pi) - 1] = np.arange(n)            # new slot j holds old particle idx[j]
            c["types"] = c["types"][idx]
            c["frames"] = c["frames"][:, idx, :]
            c["field"] = c["field"][idx]
            c["nb"] = [[[pi[j - 1] for j in fr[idx[jn]]] for jn in range(n)] for fr in c["nb"]]
            if c.get("wt") is not None:
                c["wt"] = [[list(fr[idx[jn]]) for jn in range(n)] for fr in c["wt"]]
            act["pi"] = [pi[p - 1] for p in act["pi"]]
        elif kind == "swap":
            sig = list(range(1, K + 1))
            sig[g["a"] - 1], sig[g["b"] - 1] = g["b"], g["a"]
            inv = np.argsort(np.array(sig))                  # inv[sig[a]-1] = a-1
            c["types"] = np.array(sig, dtype=c["types"].dtype)[c["types"] - 1]
            for k in ("R", "E"):
                c[k] = c[k][np.ix_(inv, inv)]
            for k in ("dia", "ms"):
                c[k] = c[k][inv]
            act["sigma"] = [sig[s - 1] for s in act["sigma"]]
        elif kind == "axes":
            p = np.array(g["p"]) - 1
            c["H"] = c["H"][np.ix_(p, p)]
            c["org"] = c["org"][p]
            c["ppp"] = c["ppp"][p]
            c["frames"] = c["frames"][:, :, p]
            c["field"] = c["field"][:, p]
            c["vecs"] = c["vecs"][:, p]
            act["ax"] = [act["ax"][k] for k in p]
            lin = np.zeros((d, d), dtype=np.int64)
            lin[np.arange(d), p] = 1
        elif kind == "rot":
            Rn, m = _rot_num(g["q"])
            c = _rescale(c, Rn, m, m)
            lin = Rn
            act["rotated"] = True
        elif kind == "dil":
            lin = np.eye(d, dtype=np.int64) * g["p"]
            c = _rescale(c, lin, g["p"], g["q"])
            act["dilated"] = True
        else:
            raise common.MachineryError(f"unknown generator {kind}")
        act["lin"] = lin @ act["lin"]
    act["S1"] = c["S"]
    act["mm"] = int((act["lin"][0] * act["lin"][0]).sum())
    return c, act


def lenfac(act):
    """factor by which real lengths change"""
    return math.sqrt(act["mm"]) * act["S0"] / act["S1"]


# ============================================================================================
# rendering into the public API and the observables
# ============================================================================================
class Rendered:
    pass


def render(cfg):
    R = Rendered()
    S = float(cfg["S"])
    R.S = S
    R.d = cfg["d"]
    R.H = np.array(cfg["H"], dtype=float) / S
    R.frames = np.array(cfg["frames"], dtype=float) / S
    R.org = np.array(cfg["org"], dtype=float) / S
    R.types = np.array(cfg["types"], dtype=np.int32)
    R.ppp = np.array(cfg["ppp"], dtype=np.int64)
    R.n = len(R.types)
    R.K = len(cfg["dia"])
    R.snaps = common.make_snapshots(list(R.frames), R.types, R.H,
                                    timesteps=[100 * f for f in range(len(R.frames))], origin=R.org)
    R.rdelta = cfg["wn"] / S
    R.rc = cfg["rc"] / S
    R.Rm = np.array(cfg["R"], dtype=float) / S
    R.dia = np.array(cfg["dia"], dtype=float) / S
    R.E = np.array(cfg["E"], dtype=float)
    R.ms = np.array(cfg["ms"], dtype=float)
    R.s2_rdelta = cfg["rn"] / S
    R.nd = cfg["nd"]
    R.nn = cfg["nn"]
    R.a = cfg["an"] / cfg["ad"]
    R.nb = cfg["nb"]
    R.wt = cfg.get("wt")            # given weights of the listed neighbours (None: no weighted evaluation)
    R.field = np.array(cfg["field"], dtype=float)
    R.vecs = np.array(cfg["vecs"], dtype=np.int64)
    return R


def write_nb(path, nb, header="id     cn     neighborlist"):
    with open(path, "w") as f:
        for fr in nb:
            f.write(header + "\n")
            for i, row in enumerate(fr):
                f.write(f"{i + 1} {len(row)} " + " ".join(str(j) for j in row) + "\n")


def read_nb(path, n):
    """frames of rows (lists of 1-based ids) of a written neighbour file"""
    frames, cur = [], None
    with open(path) as f:
        for line in f:
            tok = line.split()
            if not tok:
                continue
            if tok[0] == "id":
                cur = [None] * n
                frames.append(cur)
                continue
            cur[int(tok[0]) - 1] = [int(x) for x in tok[2:2 + int(tok[1])]]
    return frames


def read_weights(path, n):
    frames, cur = [], None
    with open(path) as f:
        for line in f:
            tok = line.split()
            if not tok:
                continue
            if tok[0] == "id":
                cur = [None] * n
                frames.append(cur)
                continue
            cur[int(tok[0]) - 1] = [float(x) for x in tok[2:2 + int(tok[1])]]
    return frames


def ob_gr(R, tmp):
    from PyMatterSim.static.gr import gr
    return gr(R.snaps, ppp=R.ppp, rdelta=R.rdelta).getresults()


def ob_sq(R, tmp):
    from PyMatterSim.static.sq import sq
    lmax = float(np.max(np.diag(R.H)))
    out = {"list": sq(R.snaps, qvector=R.vecs.copy()).getresults()}
    # the default set for numofq = 4 (int(qrange * Lmax / pi) with half a unit of margin)
    out["range"] = sq(R.snaps, qrange=4.5 * math.pi / lmax, onlypositive=False).getresults()
    return out


def _writer(R, tmp, which):
    from PyMatterSim.neighbors.calculate_neighbors import Nnearests, cutoffneighbors, cutoffneighbors_particletype
    fn = os.path.join(tmp, which + ".dat")
    if which == "nn":
        Nnearests(R.snaps, N=R.nn, ppp=R.ppp, fnfile=fn)
    elif which == "cut":
        cutoffneighbors(R.snaps, r_cut=R.rc, ppp=R.ppp, fnfile=fn)
    else:
        cutoffneighbors_particletype(R.snaps, r_cut=R.Rm.copy(), ppp=R.ppp, fnfile=fn)
    return read_nb(fn, R.n)


def ob_nn(R, tmp):
    return _writer(R, tmp, "nn")


def ob_cut(R, tmp):
    return _writer(R, tmp, "cut")


def ob_cuttype(R, tmp):
    return _writer(R, tmp, "cuttype")


def ob_voro(R, tmp):
    from PyMatterSim.neighbors.freud_neighbors import cal_neighbors
    base = os.path.join(tmp, "voro")
    cal_neighbors(R.snaps, outputfile=base)
    nbf = read_nb(base + ".neighbor.dat", R.n)
    wf = read_weights(base + (".edgelength.dat" if R.d == 2 else ".facearea.dat"), R.n)
    vol = np.loadtxt(base + ".overall.dat", skiprows=1).reshape(len(nbf), R.n, 3)[:, :, 2]
    return {"nb": nbf, "w": wf, "vol": vol}


def ob_boo3(R, tmp):
    """degrees and what is evaluated per degree come from the specification (Symmetry!BooDegrees):
    kind 0 = q_l, Q_l; 1 = + w_l, w-hat_l; 2 = + coarse-grained W-hat_l"""
    from PyMatterSim.static.boo import boo_3d
    nf = os.path.join(tmp, "nb3.dat")
    write_nb(nf, R.nb)
    out = {}
    wf = None
    if R.wt is not None:
        wf = os.path.join(tmp, "wt3.dat")
        write_nb(wf, R.wt, header="id     cn     facearealist")
    for l, kind in R.boo3:
        with np.errstate(all="ignore"):
            b = boo_3d(R.snaps, l, nf, ppp=R.ppp, Nmax=30)
            out[f"q{l}"] = b.ql_Ql(coarse_graining=False)
            out[f"Q{l}"] = b.ql_Ql(coarse_graining=True)
            if wf:
                bw = boo_3d(R.snaps, l, nf, weightsfile=wf, ppp=R.ppp, Nmax=30)
                out[f"qweighted{l}"] = bw.ql_Ql(coarse_graining=False)
                out[f"Qweighted{l}"] = bw.ql_Ql(coarse_graining=True)
            if kind >= 1:
                out[f"w{l}"], out[f"what{l}"] = b.w_W_cap(coarse_graining=False)
            if kind >= 2:
                out[f"What{l}"] = b.w_W_cap(coarse_graining=True)[1]
    return out


def ob_boo2(R, tmp):
    from PyMatterSim.static.boo import boo_2d
    nf = os.path.join(tmp, "nb2.dat")
    write_nb(nf, R.nb)
    out = {(l, ""): boo_2d(R.snaps, l, nf, ppp=R.ppp, Nmax=10).ParticlePhi for l in (4, 6, 3)}
    if R.wt is not None:       # the given weights (weighted average of the bond phases)
        wf = os.path.join(tmp, "wt2.dat")
        write_nb(wf, R.wt, header="id     cn     edgelengthlist")
        for l in (6, 3):
            out[(l, "weighted ")] = boo_2d(R.snaps, l, nf, weightsfile=wf, ppp=R.ppp, Nmax=10).ParticlePhi
    return out


def ob_tetra(R, tmp):
    from PyMatterSim.static.geometric import q8_tetrahedral
    return q8_tetrahedral(R.snaps, ppp=R.ppp)


def ob_s2(R, tmp):
    from PyMatterSim.static.pairentropy import S2
    with np.errstate(all="ignore"):
        return S2(R.snaps, sigmas=0.1 * R.Rm, ppp=R.ppp, rdelta=R.s2_rdelta, ndelta=R.nd).particle_s2()


def ob_hess(R, tmp):
    import pandas as pd
    from PyMatterSim.static import hessians as hs
    sig = (R.dia[:, None] + R.dia[None, :]) / 2
    rcs = np.maximum(R.Rm, R.Rm.T)
    masses = {t + 1: float(R.ms[t]) ** 2 for t in range(R.K)}
    out = {}
    models = [("lj", hs.InteractionParams(model_name=hs.ModelName.lennard_jones), rcs),
              ("hertz", hs.InteractionParams(model_name=hs.ModelName.harmonic_hertz, harmonic_hertz_alpha=2.5), rcs)]
    for name, ip, rc in models:
        hm = hs.HessianMatrix(snapshot=R.snaps.snapshots[0], masses=masses, epsilons=R.E.copy(), sigmas=(sig if name == "lj" else rc),
                              r_cuts=rc.copy(), ppp=R.ppp, shiftpotential=True)
        o = os.path.join(tmp, "h" + name)
        with np.errstate(all="ignore"):
            hm.diagonalize_hessian(interaction_params=ip, saveevecs=False, savehessian=False, outputfile=o)
        out[name] = pd.read_csv(o + ".omega_PR.csv")
    return out


def _dyn(R, tmp, cls_name, mode):
    from PyMatterSim.dynamic import dynamics as dy
    cls = getattr(dy, cls_name)
    dia = {t + 1: float(R.dia[t]) for t in range(R.K)}
    out = {}
    nf = os.path.join(tmp, "nbd.dat")
    write_nb(nf, R.nb)
    variants = [("slow", "", None), ("fast", "", None), ("slow", nf, None)]
    for cal, nfile, _ in variants:
        kw = {"x_snapshots": R.snaps} if mode == "x" else {"xu_snapshots": R.snaps}
        ppp = R.ppp if mode == "x" else np.zeros(R.d, dtype=np.int64)
        with warnings.catch_warnings():
            warnings.simplefilter("ignore")
            with np.errstate(all="ignore"):
                obj = cls(ppp=ppp, diameters=dia, a=R.a, cal_type=cal, neighborfile=nfile, **kw)
                out[(cal, bool(nfile))] = obj.relaxation(qconst=2.0)
    return out


def ob_relax_x(R, tmp):
    return _dyn(R, tmp, "Dynamics", "x")


def ob_relax_xu(R, tmp):
    return _dyn(R, tmp, "Dynamics", "xu")


def ob_logrelax(R, tmp):
    return _dyn(R, tmp, "LogDynamics", "xu")


def ob_gyr(R, tmp):
    from PyMatterSim.static.shape import gyration_tensor
    with np.errstate(all="ignore"):
        vals = gyration_tensor(R.frames[0].copy())
    # (numpy.linalg.eig may return the eigenvalues of the symmetric tensor as complex numbers with zero imaginary part)
    return [complex(x) for x in vals]


def ob_pr(R, tmp):
    from PyMatterSim.static.vector import participation_ratio
    return float(participation_ratio(R.field.copy()))


OBS = {"gr": ob_gr, "sq": ob_sq, "nn": ob_nn, "cut": ob_cut, "cuttype": ob_cuttype, "voro": ob_voro, "boo3": ob_boo3,
       "boo2": ob_boo2, "tetra": ob_tetra, "s2": ob_s2, "hess": ob_hess, "relax_x": ob_relax_x, "relax_xu": ob_relax_xu,
       "logrelax": ob_logrelax, "gyr": ob_gyr, "pr": ob_pr}


def compute(name, cfg, R=None, tmp=None, boo3=None):
    """-> ("ok", result) | ("raises", text).  With `tmp` the routine writes into that directory, under the same
    file names as every other evaluation of the process (Symmetry!Schedule: a script that loops over configurations)"""
    own = tmp is None
    if own:
        tmp = tempfile.mkdtemp(prefix="verif_c07_")
    try:
        R = R or render(cfg)
        if boo3 is not None:
            R.boo3 = [(int(l), int(k)) for l, k in boo3]
        try:
            return ("ok", OBS[name](R, tmp))
        except Exception as e:     # the routine delivers no result on a valid input
            return ("raises", f"{type(e).__name__}: {str(e)[:160]}")
    finally:
        if own:
            shutil.rmtree(tmp, ignore_errors=True)


# ============================================================================================
# margins measured from the code's own distances (trajectories)
# ============================================================================================
def measured_margins(R, eps=1e-7):
    """Float-fragile decisions of a rendered configuration, from the library's own minimum image.
    -> dict: bins (set of fragile g(r) bins), nn/cut/cuttype/tetra/s2 (per frame sets of particles)."""
    from PyMatterSim.utils.pbc import remove_pbc
    out = {"bins": set(), "nn": [], "cut": [], "cuttype": [], "tetra": [], "s2": [], "half": []}
    lmin = float(np.min(np.diag(R.H)))
    maxbin = int(lmin / 2.0 / R.rdelta)
    rmax_s2 = (R.nd - 1) * R.s2_rdelta + R.s2_rdelta / 2
    Hinv = np.linalg.inv(R.H)
    for pos in R.frames:
        fr = {k: set() for k in ("nn", "cut", "cuttype", "tetra", "s2", "half")}
        for i in range(R.n):
            raw = pos - pos[i]
            frac = raw @ Hinv
            if np.any((np.abs(np.abs(frac - np.rint(frac)) - 0.5) < eps) & (R.ppp[None, :] == 1)):
                fr["half"].add(i)
            rij = remove_pbc(raw, R.H, R.ppp)
            dist = np.linalg.norm(rij, axis=1)
            dd = np.delete(dist, i)
            k = dd / R.rdelta
            near = np.abs(k - np.rint(k)) < eps * np.maximum(1.0, np.rint(k))
            for kk in np.rint(k[near]).astype(int):
                out["bins"].update({kk - 1, kk})
            srt = np.sort(dd)
            for key, nn in (("nn", R.nn), ("tetra", 4)):
                if len(srt) > nn and (srt[nn] - srt[nn - 1]) < eps * max(srt[nn], 1e-300):
                    fr[key].add(i)
            if np.any(np.abs(dd - R.rc) < eps * R.rc):
                fr["cut"].add(i)
            tcut = np.delete(R.Rm[R.types[i] - 1][R.types - 1], i)
            if np.any(np.abs(dd - tcut) < eps * tcut):
                fr["cuttype"].add(i)
            if np.any(np.abs(dd - rmax_s2) < eps * rmax_s2):
                fr["s2"].add(i)
        for k2 in fr:
            out[k2].append(fr[k2])
    q = lmin / 2.0 / R.rdelta
    out["nbins_fragile"] = abs(q - round(q)) < 1e-9 * max(1.0, q)
    out["maxbin"] = maxbin
    return out


# ============================================================================================
# comparison: the relation the specification states, per observable
# ============================================================================================
def _close(a, b, rtol=RTOL, atol=RTOL):
    a = np.asarray(a)
    b = np.asarray(b)
    if a.shape != b.shape:
        return False
    return bool(np.all(np.abs(a - b) <= atol + rtol * np.abs(b)) and not (np.isnan(a).any() ^ np.isnan(b).any()))


class Cmp:
    """collects the outcome of one (observable, case) comparison"""

    def __init__(self):
        self.bad = []       # (clause, detail)
        self.ties = 0
        self.checked = 0

    def fail(self, clause, **detail):
        if len(self.bad) < 3:
            self.bad.append((clause, detail))


def perm_index(act, n):
    """index array p with new[p[i]] <-> old[i]"""
    return np.array(act["pi"], dtype=np.int64) - 1


def cmp_gr(r0, r1, act, ctx, out):
    lf = lenfac(act)
    if len(r0) != len(r1):
        if ctx.get("nbins_fragile"):
            out.ties += 1
            return
        return out.fail("gr:NumberOfBins", base=len(r0), transformed=len(r1))
    if not _close(r1["r"].values, r0["r"].values * lf):
        return out.fail("gr:BinCentresScale", factor=lf)
    skip = np.zeros(len(r0), dtype=bool)
    for k in ctx.get("bins", ()):
        if 0 <= k < len(r0):
            skip[k] = True
    out.ties += int(skip.sum())
    for a, b in act["gr_cols"]:
        if a not in r0.columns or b not in r1.columns:
            return out.fail("gr:Columns", base=list(r0.columns), transformed=list(r1.columns), expected=[a, b])
        v0, v1 = r0[a].values[~skip], r1[b].values[~skip]
        out.checked += len(v0)
        if not _close(v1, v0):
            k = int(np.argmax(np.abs(v1 - v0)))
            return out.fail("gr:PartialColumnsFollowLabels" if a != b else "gr:Unchanged", column=[a, b], bin=k,
                            base=float(v0[k]), transformed=float(v1[k]))
    if set(r1.columns) != set(r0.columns):
        out.fail("gr:Columns", base=list(r0.columns), transformed=list(r1.columns))


def cmp_sq(r0, r1, act, ctx, out):
    lf = lenfac(act)
    for key in ("list", "range"):
        a, b = r0[key].sort_values("q").reset_index(drop=True), r1[key].sort_values("q").reset_index(drop=True)
        if len(a) != len(b):
            # grouping is by the rounded |q|: a different number of groups can only come from a rounding boundary
            qs = np.concatenate([a["q"].values, b["q"].values * lf]) * 1e6
            if np.any(np.abs(qs - np.floor(qs) - 0.5) < 1e-3):
                out.ties += 1
                continue
            return out.fail("sq:Groups", mode=key, base=len(a), transformed=len(b))
        if not np.allclose(b["q"].values * lf, a["q"].values, atol=2e-6 * max(1.0, lf), rtol=1e-9):
            return out.fail("sq:WaveNumbers", mode=key, base=a["q"].values[:4].tolist(), transformed=b["q"].values[:4].tolist())
        for ca, cb in act["sq_cols"]:
            if ca not in a.columns or cb not in b.columns:
                return out.fail("sq:Columns", base=list(a.columns), transformed=list(b.columns))
            out.checked += len(a)
            if not np.allclose(b[cb].values, a[ca].values, atol=2.5e-6, rtol=0):
                k = int(np.argmax(np.abs(b[cb].values - a[ca].values)))
                return out.fail("sq:PartialColumnsFollowLabels" if ca != cb else "sq:Unchanged", mode=key, column=[ca, cb],
                                q=float(a["q"].values[k]), base=float(a[ca].values[k]), transformed=float(b[cb].values[k]))


def _cmp_sets(name, r0, r1, act, fragile, out, multiset=False):
    p = perm_index(act, len(r0[0]))
    if len(r0) != len(r1):
        return out.fail(f"{name}:Frames", base=len(r0), transformed=len(r1))
    for f in range(len(r0)):
        for i in range(len(r0[f])):
            if i in fragile[f]:
                out.ties += 1
                continue
            exp = sorted(int(p[j - 1]) + 1 for j in r0[f][i])
            obs = sorted(r1[f][p[i]])
            if not multiset:
                exp, obs = sorted(set(exp)), sorted(set(obs))
            out.checked += 1
            if exp != obs:
                return out.fail(f"{name}:NeighbourSetsFollowIds", frame=f, particle=i + 1, new_id=int(p[i]) + 1,
                                expected=exp, observed=obs)


def cmp_nn(r0, r1, act, ctx, out):
    _cmp_sets("nn", r0, r1, act, ctx["nn"], out)


def cmp_cut(r0, r1, act, ctx, out):
    _cmp_sets("cut", r0, r1, act, ctx["cut"], out)


def cmp_cuttype(r0, r1, act, ctx, out):
    _cmp_sets("cuttype", r0, r1, act, ctx["cuttype"], out)


def cmp_voro(r0, r1, act, ctx, out):
    # freud stores coordinates in single precision: cell volumes and face sizes carry a relative error of about
    # 1e-6 L / (cell size); faces / edges that are small on that scale are degenerate Voronoi vertices and either
    # answer is admissible
    lf = lenfac(act)
    d = ctx["d"]
    p = perm_index(act, len(r0["nb"][0]))
    fragile = []
    for f in range(len(r0["nb"])):
        allw = np.array([w for row in r0["w"][f] for w in row] or [1.0])
        small0 = 2e-3 * float(np.median(allw))
        small1 = small0 * lf ** (d - 1)
        fr = set()
        for i in range(len(r0["nb"][f])):
            if any(w < small0 for w in r0["w"][f][i]) or any(w < small1 for w in r1["w"][f][p[i]]):
                fr.add(i)
        fragile.append(fr)
    _cmp_sets("voro", r0["nb"], r1["nb"], act, fragile, out, multiset=False)
    v0, v1 = r0["vol"] * lf ** d, r1["vol"][:, p]
    out.checked += v0.size
    if not np.allclose(v1, v0, atol=3e-5 * float(np.max(v0)) + 2e-6, rtol=3e-4):
        k = np.unravel_index(int(np.argmax(np.abs(v1 - v0))), v0.shape)
        out.fail("voro:CellVolumes", particle=int(k[1]) + 1, base=float(v0[k]), transformed=float(v1[k]))


def _cmp_perparticle(name, a0, a1, act, out, fragile=None, scale=1.0, rtol=RTOL, atol=RTOL):
    a0, a1 = np.asarray(a0), np.asarray(a1)
    if a0.shape != a1.shape:
        return out.fail(f"{name}:Shape", base=list(a0.shape), transformed=list(a1.shape))
    p = perm_index(act, a0.shape[1])
    b1 = a1[:, p]
    mask = np.ones(a0.shape, dtype=bool)
    if fragile is not None:
        for f in range(a0.shape[0]):
            for i in fragile[f]:
                mask[f, i] = False
    both_nan = np.isnan(a0) & np.isnan(b1)
    mask &= ~both_nan
    out.ties += int((~mask).sum())
    out.checked += int(mask.sum())
    x0, x1 = a0[mask] * scale, b1[mask]
    ok = np.abs(x1 - x0) <= atol + rtol * np.abs(x0)
    if not np.all(ok):
        k = int(np.argmax(~ok))
        idx = np.argwhere(mask)[k]
        out.fail(f"{name}:PerParticleValuesFollowIds", frame=int(idx[0]), particle=int(idx[1]) + 1, new_id=int(p[idx[1]]) + 1,
                 base=complex(x0[k]) if np.iscomplexobj(x0) else float(x0[k]),
                 transformed=complex(x1[k]) if np.iscomplexobj(x1) else float(x1[k]))


def cmp_boo3(r0, r1, act, ctx, out):
    for key in r0:
        if key.startswith("w") or key.startswith("W"):
            # w-hat = w / |q|^3 is 0/0 where q_l vanishes (perfectly symmetric environments)
            l = key.lstrip("wWhat")
            base_q = r0[("Q" if key[0] == "W" else "q") + l]
            frag = [set(np.where(base_q[f] < 1e-6)[0]) | ctx["bondtie"][f] for f in range(base_q.shape[0])]
        else:
            frag = ctx["bondtie"]
        _cmp_perparticle("boo3:" + key, r0[key], r1[key], act, out, fragile=frag,
                         rtol=1e-8 if key.startswith(("w", "W")) else RTOL)


def cmp_boo2(r0, r1, act, ctx, out):
    for key in r0:
        l, wd = key
        _cmp_perparticle(f"boo2:{wd}|psi_{l}|", np.abs(r0[key]), np.abs(r1[key]), act, out, fragile=ctx["bondtie"])
        # psi itself: multiplied by (rho/|rho|)^l, after conjugation when the word contains a reflection
        ph = complex(ev(act["psi_phase"][l - 1])) if act.get("psi_phase") else 1.0 + 0j
        exp = (np.conj(r0[key]) if act.get("reflects") else r0[key]) * ph
        _cmp_perparticle(f"boo2:{wd}psi_{l}Covariant", exp, r1[key], act, out, fragile=ctx["bondtie"])


def cmp_tetra(r0, r1, act, ctx, out):
    _cmp_perparticle("tetra", r0, r1, act, out, fragile=ctx["tetra"])


def cmp_s2(r0, r1, act, ctx, out):
    _cmp_perparticle("s2", r0, r1, act, out, fragile=ctx["s2"], rtol=1e-8, atol=1e-9)


def cmp_hess(r0, r1, act, ctx, out):
    lf = lenfac(act)
    for name in r0:
        a, b = r0[name], r1[name]
        if len(a) != len(b):
            return out.fail("hess:Size", model=name)
        lam0 = np.where(a["omega"].values > 0, a["omega"].values ** 2, a["omega"].values) / lf ** 2
        lam1 = np.where(b["omega"].values > 0, b["omega"].values ** 2, b["omega"].values)
        scale = max(1e-300, float(np.max(np.abs(lam0))))
        out.checked += len(lam0)
        if not np.all(np.abs(lam1 - lam0) <= 1e-9 * scale + 1e-12):
            k = int(np.argmax(np.abs(lam1 - lam0)))
            return out.fail("hess:SpectrumUnchanged", model=name, mode=k, base=float(lam0[k]), transformed=float(lam1[k]), scale=scale)
        # participation ratios of isolated modes (within a degenerate eigenspace the eigenvectors are arbitrary)
        gap = np.full(len(lam0), np.inf)
        if len(lam0) > 1:
            dl = np.diff(lam0)
            gap[:-1] = np.minimum(gap[:-1], dl)
            gap[1:] = np.minimum(gap[1:], dl)
        iso = gap > 1e-4 * scale
        out.ties += 1 if not np.all(iso) else 0
        out.checked += int(iso.sum())
        p0, p1 = a["PR"].values[iso], b["PR"].values[iso]
        if not np.all(np.abs(p1 - p0) <= 1e-5 * np.abs(p0) + 1e-7):
            k = int(np.argmax(np.abs(p1 - p0)))
            return out.fail("hess:ParticipationRatioUnchanged", model=name, base=float(p0[k]), transformed=float(p1[k]))


def _cmp_relax(name, r0, r1, act, ctx, out):
    lf = lenfac(act)
    for key in r0:
        a, b = r0[key], r1[key]
        if list(a.columns) != list(b.columns) or len(a) != len(b):
            return out.fail(f"{name}:Shape", variant=str(key))
        for col in a.columns:
            if col == "isf" and act["rotated"]:
                continue        # the axis-wise ISF is not a rotational invariant
            scale = lf ** 2 if col == "msd" else 1.0
            out.checked += len(a)
            va, vb = a[col].values * scale, b[col].values
            fin = np.isfinite(va) | np.isfinite(vb)
            if col == "alpha2":      # <dr^4>/<dr^2>^2 is 0/0 where nothing moved (identical cage-relative displacements)
                still = (a["msd"].values < 1e-18) | (b["msd"].values < 1e-18)
                out.ties += int(still.sum())
                fin &= ~still
            if not np.all(np.abs(vb[fin] - va[fin]) <= 1e-9 + 1e-9 * np.abs(va[fin])):
                k = int(np.argmax(np.abs(np.where(fin, vb - va, 0))))
                return out.fail(f"{name}:Unchanged", variant=str(key), column=col, row=k, base=float(va[k]), transformed=float(vb[k]))


def cmp_relax_x(r0, r1, act, ctx, out):
    _cmp_relax("relax_x", r0, r1, act, ctx, out)


def cmp_relax_xu(r0, r1, act, ctx, out):
    _cmp_relax("relax_xu", r0, r1, act, ctx, out)


def cmp_logrelax(r0, r1, act, ctx, out):
    _cmp_relax("logrelax", r0, r1, act, ctx, out)


def cmp_gyr(r0, r1, act, ctx, out):
    lf = lenfac(act)
    d = ctx["d"]
    names = ["radius_of_gyration", "asphericity", "acylindricity", "shape_anisotropy", "fractal_dimension"] if d == 3 else \
            ["radius_of_gyration", "acylindricity", "fractal_dimension"]
    power = {"radius_of_gyration": 1, "asphericity": 2, "acylindricity": 2, "shape_anisotropy": 0, "fractal_dimension": None}
    if any(abs(complex(x).imag) > 1e-9 * (1.0 + abs(complex(x))) for x in list(r0) + list(r1)):
        return out.fail("gyr:ComplexDescriptor", base=[str(x) for x in r0], transformed=[str(x) for x in r1])
    r0, r1 = [complex(x).real for x in r0], [complex(x).real for x in r1]
    rg2 = r0[0] ** 2
    for nm, a, b in zip(names, r0, r1):
        pw = power[nm]
        if pw is None:
            if abs(lf - 1.0) > 1e-12:
                continue        # log N / log Rg is not scale free
            pw = 0
        out.checked += 1
        tol = 1e-9 * (rg2 if pw == 2 else 1.0) * lf ** pw + 1e-9 * abs(a) * lf ** pw
        if nm == "fractal_dimension":
            tol = 1e-7 * abs(a) + 1e-9
        if not abs(b - a * lf ** pw) <= tol:
            return out.fail("gyr:" + nm, base=a, transformed=b, factor=lf ** pw)


def cmp_pr(r0, r1, act, ctx, out):
    out.checked += 1
    if not abs(r1 - r0) <= 1e-9 * abs(r0) + 1e-12:
        out.fail("pr:Unchanged", base=r0, transformed=r1)


CMP = {"gr": cmp_gr, "sq": cmp_sq, "nn": cmp_nn, "cut": cmp_cut, "cuttype": cmp_cuttype, "voro": cmp_voro, "boo3": cmp_boo3,
       "boo2": cmp_boo2, "tetra": cmp_tetra, "s2": cmp_s2, "hess": cmp_hess, "relax_x": cmp_relax_x, "relax_xu": cmp_relax_xu,
       "logrelax": cmp_logrelax, "gyr": cmp_gyr, "pr": cmp_pr}


# ============================================================================================
# replay
# ============================================================================================
def word_kinds(word):
    return "+".join(g["kind"] for g in word)


def small_ctx(case, cfg):
    n = len(cfg["types"])
    F = cfg["frames"].shape[0]
    fl = case["flags"]
    none = [set() for _ in range(F)]
    return {"d": cfg["d"], "bins": set(), "nbins_fragile": False,
            "nn": [{i for i in range(n) if not fl["nn_ok"][f][i]} for f in range(F)],
            "tetra": [{i for i in range(n) if not fl["tetra_ok"][i]} for f in range(F)],
            "cut": none, "cuttype": none, "s2": none, "bondtie": none}


def replay_group(job):
    """One base configuration with a list of (word, transformed configuration, action, observables).
    Everything is evaluated in THIS process, into one output directory with fixed file names, in the order of the
    specification's schedule (Symmetry!Schedule): "b" = base, "t" = transformed; the first base evaluation is shared by
    the items of the job, a later "b" is a fresh evaluation AFTER the transformed configuration has been analysed.
    Returns a list of (verdict, clause, detail, key) tuples."""
    common.import_lib()
    base_cfg, items, label = job["cfg"], job["items"], job["label"]
    res = []
    cache = {}
    Rb = render(base_cfg)
    tmp = tempfile.mkdtemp(prefix="verif_c07_")

    def base_fresh(name, it):
        return compute(name, base_cfg, Rb, tmp, boo3=it.get("boo3"))

    def base_obs(name, it):
        if name != "boo3":
            if name not in cache:
                cache[name] = base_fresh(name, it)
            return cache[name]
        merged = {}
        for deg in it["boo3"]:       # per degree, so that items with different degree lists share the work
            k = ("boo3",) + tuple(deg)
            if k not in cache:
                cache[k] = compute(name, base_cfg, Rb, tmp, boo3=[deg])
            if cache[k][0] == "raises":
                return cache[k]
            merged.update(cache[k][1])
        return ("ok", merged)

    def compare(name, r0, r1, it, detail, key, count=True):
        out = Cmp()
        try:
            CMP[name](r0, r1, it["act"], it["ctx"], out)
        except Exception as e:  # comparison itself failed: report as machinery problem
            res.append(("machinery", f"{name}: {type(e).__name__}: {e}", detail, key))
            return
        if out.ties and count:
            res.append(("tie", out.ties, None, key))
        if out.bad:
            clause, d2 = out.bad[0]
            res.append(("violation", clause, dict(detail, **_jsonable(d2)), key))
        elif out.checked:
            res.append(("ok", None, {"input": detail["input"], "observable": name, "word": word_kinds(it["word"]),
                                     "compared": out.checked, "order": detail["order"]}, key))

    try:
        for it in items:
            cfg2, ctx, obs, ident = it["cfg2"], it["ctx"], it["obs"], it["ident"]
            sched = it.get("sched") or ["b", "t"]
            if sched[:2] != ["b", "t"] or any(x != "b" for x in sched[2:]):
                res.append(("machinery", f"schedule {sched} not understood", None, None))
                continue
            R2 = render(cfg2)
            for name in obs:
                key = (label, name, word_kinds(it["word"]))
                detail = {"input": ident, "observable": name, "word": it["word"], "order": "base first"}
                t_start = time.time()
                s0, r0 = base_obs(name, it)
                if s0 == "raises":
                    res.append(("violation", f"raises:{name}:base:{r0.split(':')[0]}", dict(detail, error=r0), key))
                    continue
                s1, r1 = compute(name, cfg2, R2, tmp, boo3=it.get("boo3"))
                if s1 == "raises":
                    res.append(("time", time.time() - t_start, None, key))
                    res.append(("violation", f"raises:{name}:{r1.split(':')[0]}", dict(detail, error=r1), key))
                    continue
                if label == "traj" and name in ("nn", "cut", "cuttype", "gr"):
                    rec = trace_record(name, base_cfg, cfg2, it["word"], r0, r1, ctx)
                    if rec is not None:
                        res.append(("trace", rec, {"input": ident, "observable": name, "word": it["word"]}, key))
                compare(name, r0, r1, it, detail, key)
                for _ in sched[2:]:
                    d2 = dict(detail, order="transformed first")
                    s0b, r0b = base_fresh(name, it)
                    if s0b == "raises":
                        res.append(("violation", f"raises:{name}:base:{r0b.split(':')[0]}", dict(d2, error=r0b), key))
                        continue
                    compare(name, r0b, r1, it, d2, key + ("again",), count=False)
                res.append(("time", time.time() - t_start, None, key))
    finally:
        shutil.rmtree(tmp, ignore_errors=True)
    return res


def gr_counts(df, cfg):
    """abstraction function: the integer pair counts behind a g(r) table (column order of PairHist!ColSeq: total,
    like pairs, unlike pairs), with a closeness check; None when a value is not an integer count"""
    S = float(cfg["S"])
    d = cfg["d"]
    F = cfg["frames"].shape[0]
    V = float(np.prod(np.diag(np.asarray(cfg["H"], dtype=float)))) / S ** d
    types = np.asarray(cfg["types"])
    n = len(types)
    K = len(cfg["dia"])
    cnt = [int((types == a + 1).sum()) for a in range(K)]
    r = df["r"].values
    w = cfg["wn"] / S
    cd = 4.0 / 3.0 if d == 3 else 1.0
    shell = cd * math.pi * ((r + w / 2) ** d - (r - w / 2) ** d)
    cols = [("gr", n * n / 2.0)]
    if 2 <= K <= 5:
        cols += [(f"gr{a + 1}{a + 1}", cnt[a] * cnt[a] / 2.0) for a in range(K)]
        cols += [(f"gr{a + 1}{b + 1}", float(cnt[a] * cnt[b])) for a in range(K) for b in range(a + 1, K)]
    out = []
    for name, pairs in cols:
        if name not in df.columns:
            return None
        c = df[name].values * F * shell * pairs / V
        if np.any(np.abs(c - np.rint(c)) > 1e-5 * np.maximum(1.0, np.abs(c))):
            return None
        out.append([int(x) for x in np.rint(c)])
    return out


def trace_record(name, cfg, cfg2, word, r0, r1, ctx):
    if name == "gr":
        b, i = gr_counts(r0, cfg), gr_counts(r1, cfg2)
        if b is None or i is None or len(r0) != len(r1):
            return None       # left to the direct comparison (reports the clause)
        return {"op": "hist", "K": len(cfg["dia"]), "word": word, "base": b, "img": i,
                "skip": sorted(int(k) + 1 for k in ctx["bins"] if 0 <= k < len(r0))}
    return {"op": "sets", "N": len(cfg["types"]), "word": word, "base": [[int(j) for j in r] for r in r0[0]],
            "img": [[int(j) for j in r] for r in r1[0]],
            "skip": sorted(int(i) + 1 for i in ctx[name][0])}


def _jsonable(d):
    def conv(x):
        if isinstance(x, (np.integer,)):
            return int(x)
        if isinstance(x, (np.floating,)):
            return float(x)
        if isinstance(x, complex):
            return [x.real, x.imag]
        if isinstance(x, np.ndarray):
            return x.tolist()
        if isinstance(x, (list, tuple)):
            return [conv(y) for y in x]
        return x
    return {k: conv(v) for k, v in d.items()}


def collect(chk, results, covered, trace):
    for group in results:
        for verdict, clause, detail, key in group:
            if verdict == "trace":
                trace.append((clause, detail, key))
            elif verdict == "time":
                tb = chk.extra.setdefault("wall_s_by_observable", {})
                tb[key[0] + ":" + key[1]] = round(tb.get(key[0] + ":" + key[1], 0.0) + clause, 2)
            elif verdict == "ok":
                covered.add(key[1:3])
                if len(key) > 3:
                    chk.extra["comparisons_transformed_first"] = chk.extra.get("comparisons_transformed_first", 0) + 1
                chk.ok(key, sample=detail)
            elif verdict == "tie":
                chk.skipped_tie += clause
                chk.evaluations += clause
                tb = chk.extra.setdefault("ties_by_observable", {})
                tb[key[0] + ":" + key[1]] = tb.get(key[0] + ":" + key[1], 0) + clause
            elif verdict == "machinery":
                raise common.MachineryError(clause)
            else:
                chk.violation(clause, detail)


# ---------------------------------------------------------------------------- small cases
def small_jobs(cases, quick):
    """validates the applier on every case, then groups the cases by base configuration"""
    by_base = {}
    for case in cases:
        base = cfg_from_json(case["c"])
        want = cfg_from_json(case["c2"])
        got, act = apply_word(base, case["word"])
        bad = cfg_equal(got, want)
        ta = case["act"]
        if bad is None:
            if act["pi"] != ta["pi"] or act["sigma"] != ta["sigma"] or act["ax"] != ta["ax"] or \
                    act["lin"].tolist() != ta["lin"] or act["mm"] != ta["mm"] or act["S1"] != ta["S1"]:
                bad = "action"
        if bad is not None:
            raise common.MachineryError(f"the driver's applier disagrees with Symmetry!Apply on field {bad} "
                                        f"for base {case['base']} word {json.dumps(case['word'])}")
        _validate_float_applier(base, want, case)
        actd = dict(ta)
        obs = list(case["obs"])
        by_base.setdefault(case["base"], {"cfg": base, "items": [], "label": "small"})["items"].append(
            {"word": case["word"], "cfg2": want, "act": actd, "ctx": small_ctx(case, base), "obs": obs,
             "boo3": case["boo3"], "sched": list(case["sched"]),
             "ident": {"base": case["base"], "margin": case["margin"], "cell": case["cellrel"]}})
    jobs = []
    for bid in sorted(by_base):
        g = by_base[bid]
        # split big groups so that the pool is used evenly (the base observables are recomputed per chunk)
        step = 6 if quick else 12
        for k in range(0, len(g["items"]), step):
            jobs.append({"cfg": g["cfg"], "items": g["items"][k:k + step], "label": "small"})
    return jobs


def _validate_float_applier(base, want, case):
    """the floating-point path of the applier (used for the trajectories) on the same case: equal to TLC's
    transformed configuration up to rounding; a particle sitting exactly on the cell boundary may be re-wrapped to
    either side (a lattice vector apart)"""
    fb = dict(base)
    for k in ("H", "org", "frames", "field", "R", "dia"):
        fb[k] = np.array(base[k], dtype=float)
    got, _ = apply_word(fb, case["word"])
    for k in ("H", "org", "field", "R", "dia"):
        if not np.allclose(got[k], want[k], rtol=1e-12, atol=1e-9):
            raise common.MachineryError(f"float applier differs from Symmetry!Apply on {k}: {json.dumps(case['word'])}")
    diff = got["frames"] - want["frames"]
    if np.max(np.abs(diff)) > 1e-7:
        coef = diff @ np.linalg.inv(np.array(want["H"], dtype=float))
        if not (np.allclose(coef, np.rint(coef), atol=1e-9) and any(g["kind"] == "trans" and g["wrap"] == 1 for g in case["word"])):
            raise common.MachineryError(f"float applier differs from Symmetry!Apply on frames: {json.dumps(case['word'])}")


def select_small(cases, tier):
    """quick: every single-generator word, and of the longer words a seeded sample that still holds every
    (observable, generator kind) combination that occurs"""
    if tier != "quick":
        return cases
    ones = [c for c in cases if len(c["word"]) == 1]
    longer = [c for c in cases if len(c["word"]) > 1]
    rng = random.Random(common.SEED * 7919 + 7)
    rng.shuffle(longer)
    need = set()
    for c in longer:
        for ob in c["obs"]:
            need.add((ob, word_kinds(c["word"])))
    picked, have = [], set()
    for c in longer:
        new = {(ob, word_kinds(c["word"])) for ob in c["obs"]} - have
        if new and len(picked) < 90:
            picked.append(c)
            have |= new
    keep = ones          # every single-generator word of the catalogue on every base
    return keep + picked


# ---------------------------------------------------------------------------- trajectories
TRAJ = [  # file, dimension, sub-sample size (quick, thorough), frames used, lengths (1/1000): wn, rc, rn, nd, nn
    dict(id=1, file="unary.dump", d=3, n=(160, 400), nfr=1, wn=50, rc=1600, rn=20, nd=120, nn=12),
    dict(id=2, file="dump_2D.atom", d=2, n=(220, 600), nfr=3, wn=40, rc=1500, rn=20, nd=120, nn=6),
    dict(id=3, file="2d_triclinic.atom", d=2, n=(220, 600), nfr=1, wn=40, rc=1500, rn=20, nd=120, nn=6),
    dict(id=4, file="dump_3D.atom", d=3, n=(200, 500), nfr=1, wn=50, rc=1300, rn=20, nd=100, nn=12),
    dict(id=5, file="ternary.dump", d=3, n=(180, 450), nfr=1, wn=50, rc=1700, rn=20, nd=120, nn=8),
    dict(id=6, file="quarternary.dump", d=3, n=(150, 300), nfr=3, wn=50, rc=1700, rn=20, nd=120, nn=8),
    dict(id=7, file="dump_2D.atom", d=2, n=(160, 400), nfr=2, wn=40, rc=1500, rn=20, nd=120, nn=6, open=True),
    dict(id=8, file="unary.dump", d=3, n=(120, 300), nfr=1, wn=50, rc=1600, rn=20, nd=120, nn=12, open=True),
]


def load_traj(spec, tier):
    """reads a sample trajectory with the real reader and sub-samples it: the particles nearest to the
    cell centre for open clusters, else a compact slab of the cell (lowest coordinates along the last axis)
    so that neighbour relations survive; the box is kept (sub-sampling is only for speed)"""
    from PyMatterSim.reader.dump_reader import DumpReader
    rd = DumpReader(os.path.join(SAMPLES, spec["file"]), ndim=spec["d"])
    rd.read_onefile()
    ss = rd.snapshots.snapshots[:spec["nfr"]]
    s0 = ss[0]
    n = spec["n"][0 if tier == "quick" else 1]
    d = spec["d"]
    pos0 = np.array(s0.positions, dtype=float)
    if spec.get("open"):
        centre = pos0.mean(axis=0)
        order = np.argsort(np.linalg.norm(pos0 - centre, axis=1))
    else:
        order = np.argsort(pos0[:, d - 1], kind="stable")
    keep = np.sort(order[:n])
    types_raw = np.array(s0.particle_type)[keep]
    # species present in the sub-sample, renumbered 1..K in increasing order
    present = sorted(set(int(t) for t in types_raw))
    ren = {t: k + 1 for k, t in enumerate(present)}
    types = np.array([ren[int(t)] for t in types_raw], dtype=np.int64)
    K = len(present)
    H = np.array(s0.hmatrix, dtype=float)
    lo = np.array(s0.realbounds[:, 0] if s0.realbounds is not None and np.ndim(s0.realbounds) == 2 else s0.boxbounds[:, 0], dtype=float)
    frames = np.array([np.array(s.positions, dtype=float)[keep] for s in ss])
    ppp = np.zeros(d, dtype=np.int64) if spec.get("open") else np.ones(d, dtype=np.int64)
    if spec.get("open"):
        H = np.diag(np.diag(H))
    cfg = {"d": d, "S": TRAJ_S, "H": H * TRAJ_S, "org": lo * TRAJ_S, "ppp": ppp, "types": types, "frames": frames * TRAJ_S,
           "field": None, "vecs": None, "wn": spec["wn"], "rc": spec["rc"], "rn": spec["rn"], "nd": spec["nd"], "nn": spec["nn"],
           "an": 3, "ad": 10, "nb": None, "wt": None, "R": None, "dia": None, "E": None, "ms": None}
    diag = bool(np.allclose(H, np.diag(np.diag(H))))
    desc = {"id": spec["id"], "d": d, "N": int(n), "K": K, "diag": 1 if diag else 0, "ppp": [int(x) for x in ppp],
            "nfr": len(ss), "L": [int(round(H[k, k] * TRAJ_S)) for k in range(d)],
            "wn": spec["wn"], "rc": spec["rc"], "rn": spec["rn"], "nd": spec["nd"], "nn": spec["nn"]}
    return cfg, desc


def finish_traj_cfg(cfg, case):
    """species tables and wave vectors come from the specification (mode "traj"); the given neighbour lists are the
    library's own N-nearest lists of the base configuration; the vector field is a displacement-like field"""
    c = dict(cfg)
    for k in ("R", "dia", "E", "ms"):
        c[k] = np.array(case["tab"][k], dtype=np.int64)
    c["an"], c["ad"] = case["tab"]["an"], case["tab"]["ad"]
    c["vecs"] = np.array(case["vecs"], dtype=np.int64)
    n = len(c["types"])
    rng = np.random.default_rng(12345 + n)
    c["field"] = rng.normal(size=(n, c["d"]))
    return c


def traj_jobs(loaded, cases, tier, chk):
    rng = random.Random(common.SEED * 104729 + 11)
    by_id = {}
    for case in cases:
        by_id.setdefault(case["base"], []).append(case)
    jobs = []
    for tid in sorted(loaded):
        cfg0, desc = loaded[tid]
        cs = sorted(by_id.get(tid, []), key=lambda c: json.dumps(c["word"], sort_keys=True))
        if not cs:
            continue
        cfg = finish_traj_cfg(cfg0, cs[0])
        R = render(dict(cfg, nb=[[[] for _ in cfg["types"]] for _ in cfg["frames"]]))
        tmp = tempfile.mkdtemp(prefix="verif_c07_")
        try:
            cfg["nb"] = _writer(R, tmp, "nn")
        finally:
            shutil.rmtree(tmp, ignore_errors=True)
        R.nb = cfg["nb"]
        mm = measured_margins(R)
        ones = [c for c in cs if len(c["word"]) == 1]
        twos = [c for c in cs if len(c["word"]) > 1]
        if tier == "quick":
            # one word of every generator kind (seeded choice among the instances) and a few longer ones
            kinds = {}
            for c in ones:
                kinds.setdefault(c["word"][0]["kind"], []).append(c)
            pick = [rng.choice(v) for _, v in sorted(kinds.items())] + rng.sample(twos, min(3, len(twos)))
            budget = OBS_QUICK.get(tid)
        else:
            pick = ones + rng.sample(twos, min(12, len(twos)))
            budget = None
        items = []
        for case in pick:
            cfg2, act = apply_word(cfg, case["word"])
            # the applier must agree with what the specification printed for this word: re-indexed species tables,
            # species map, mapped wave vectors, the linear map and the scale
            same = all(np.array_equal(np.asarray(cfg2[k]), np.array(case["tab2"][k])) for k in ("R", "dia", "E", "ms"))
            if not same or act["sigma"] != case["sigma"] or cfg2["vecs"].tolist() != case["vecs2"] or act["ax"] != case["ax"] or \
                    act["lin"].tolist() != case["lin"] or act["mm"] != case["mm"] or act["S1"] != case["S1"]:
                raise common.MachineryError(f"applier disagrees with the specification on trajectory {tid} word {case['word']}")
            act = dict(act)
            for k in ("gr_cols", "sq_cols", "reflects", "psi_phase"):
                act[k] = case[k]
            obs = [o for o in case["obs"] if budget is None or o in budget]
            ctx = {"d": cfg["d"], "bins": mm["bins"], "nbins_fragile": mm["nbins_fragile"], "nn": mm["nn"], "tetra": mm["tetra"],
                   "cut": mm["cut"], "cuttype": mm["cuttype"], "s2": mm["s2"], "bondtie": mm["half"]}
            items.append({"word": case["word"], "cfg2": cfg2, "act": act, "ctx": ctx, "obs": obs,
                          "boo3": case["boo3"], "sched": list(case["sched"]),
                          "ident": {"trajectory": TRAJ[tid - 1]["file"], "subsample": desc["N"], "open": bool(TRAJ[tid - 1].get("open")),
                                    "same_diag_other_cell": bool(case["same_diag"])}})
        step = 2 if tier == "quick" else 4
        for k in range(0, len(items), step):
            jobs.append({"cfg": cfg, "items": items[k:k + step], "label": "traj"})
    return jobs


# observables exercised per trajectory in the quick tier (the slow O(N^2) Python loops on the smaller inputs)
OBS_QUICK = {
    1: {"gr", "sq", "nn", "cut", "voro", "boo3", "tetra", "s2", "hess", "pr"},
    2: {"gr", "sq", "nn", "cuttype", "voro", "boo2", "relax_x", "relax_xu", "logrelax", "s2"},
    3: {"gr", "nn", "cut", "cuttype", "boo2", "s2"},
    4: {"gr", "sq", "cut", "voro", "boo3", "tetra"},
    5: {"gr", "sq", "cuttype", "s2", "hess"},
    6: {"gr", "sq", "relax_x", "relax_xu", "logrelax", "cuttype", "boo3"},
    7: {"gr", "nn", "cut", "boo2", "gyr", "pr", "relax_xu", "s2", "hess"},
    8: {"nn", "boo3", "tetra", "gyr", "pr", "hess", "s2"},
}


# ============================================================================================
def tlc_consts(tier, mode, gen, maxlen, sample, salt):
    return {"Tier": tier, "Mode": mode, "Gen": gen, "MAXLEN": maxlen, "SAMPLE": sample, "SALT": salt}


def run(tier, replay=None):
    common.import_lib()
    chk = Check("C07", tier)
    chk.rule = ("TLC enumerates base configurations x words of generators (translation with/without cell origin and re-wrapping, "
                "image shifts, relabelling, species swap, axis permutation with the cell, rational rotations of open clusters, dilation) "
                "and checks equivariance of the model observables (PairHist counts per bin and column, DensityModes phases / circular "
                "correlations, Neighbors canonical lists with tie groups, bonds, psi_l covariance, exact q_l^2, four-nearest sets, gyration "
                "tensor, field norms, displacements) as invariants; every emitted case is rendered twice into the public API and the two "
                "results must stand in the relation the specification states. The same generators (parameters from TLC, mode traj) are "
                "applied to sub-samples of the repository's sample trajectories. distinct = (input kind, observable, generator kinds of the word).")
    chk.assumptions = ["the code is its own oracle: only relations between two runs are asserted",
                       "float comparison at 1e-9 (1e-6 where the code rounds: S(q), Voronoi files); Hessian spectra relative to the spectral radius",
                       "participation ratios are compared on non-degenerate modes only; w-hat where q_l > 1e-6",
                       "decisions within 1e-7 (relative) of a bin edge / cut-off / equal-distance tie / half cell are counted as ties",
                       "every axis permutation of every cell (a tilted cell becomes a permuted LAMMPS cell P H P^T; the routines take the "
                       "h-matrix as given); rotations only for open boundaries; S(q) and Voronoi only in orthogonal cells (documented domain)",
                       "base and transformed configuration are analysed in one process, into the same output file names, in the order of "
                       "Symmetry!Schedule (axis words on periodic cells: base, transformed, base again)",
                       "3-D bond order: degrees of Symmetry!BooDegrees (4, 6; for axis permutations / rotations of small inputs also 12 and a "
                       "rotating further degree out of 1..13)"]
    if replay:
        case = common.load_replay(replay)
        print(json.dumps(case, indent=1)[:6000])
        return 0
    quick = tier == "quick"
    covered = set()
    # ---- model checking + emission, small scope
    maxlen, sample = (2, 8) if quick else (3, 4)
    salt = common.SEED
    g = run_tlc_sharded("MC_Symmetry", dict(constants=tlc_consts(tier, "small", True, maxlen, sample, salt), invariants=INVS + ["Emit"]))
    require_model_ok(g, "MC_Symmetry small")
    chk.add_tlc(g, f"small: 12 base configurations x words up to length {maxlen} (longer words sampled 1/{sample})")
    if not g.cases:
        raise common.MachineryError("no cases emitted")
    cases = select_small(g.cases, tier)
    jobs = small_jobs(cases, quick)
    # non-vacuity of the widened axis generator: tilted cells whose axes are renumbered, among them cells whose image has
    # the same edge lengths in the same order (equal edges exchanged), all evaluated in both orders
    chk.extra["small_cases_tilted_cell_axes"] = sum(1 for c in cases if c["cellrel"]["tilted_axes"])
    chk.extra["small_cases_same_diagonal_other_cell"] = sum(1 for c in cases if c["cellrel"]["same_diag"])
    chk.extra["small_cases_both_orders"] = sum(1 for c in cases if len(c["sched"]) > 2)
    chk.extra["small_cases_boo3_degrees"] = sorted({int(l) for c in cases if "boo3" in c["obs"] for l, _ in c["boo3"]})
    if not any(c["cellrel"]["same_diag"] and len(c["sched"]) > 2 for c in cases) or 12 not in chk.extra["small_cases_boo3_degrees"]:
        raise common.MachineryError("scope lost: no renumbered tilted cell with equal edges / no degree above 10 among the replayed cases")
    # ---- trajectories: descriptors -> TLC -> words
    loaded = {}
    for spec in TRAJ:
        try:
            loaded[spec["id"]] = load_traj(spec, tier)
        except Exception as e:
            chk.violation(f"raises:reader:{type(e).__name__}", {"file": spec["file"], "error": str(e)[:200]})
    tmp = tempfile.mkdtemp(prefix="verif_c07_")
    try:
        path = os.path.join(tmp, "traj.ndjson")
        ids = sorted(loaded)
        with open(path, "w") as f:
            for tid in ids:
                f.write(json.dumps(loaded[tid][1], separators=(",", ":")) + "\n")
        t = run_tlc_sharded("MC_Symmetry", dict(constants=tlc_consts(tier, "traj", True, 2, 16 if quick else 4, salt), invariants=["Emit"]),
                            env={"TRACE_FILE": path}, nshards=8 if quick else None)
        require_model_ok(t, "MC_Symmetry traj")
        chk.add_tlc(t, "traj: applicable generic words per sample trajectory")
    finally:
        shutil.rmtree(tmp, ignore_errors=True)
    tjobs = traj_jobs(loaded, t.cases, tier, chk)
    chk.extra["traj_items_same_diagonal_other_cell"] = sum(1 for j in tjobs for it in j["items"] if it["ident"]["same_diag_other_cell"])
    chk.extra["traj_items_both_orders"] = sum(1 for j in tjobs for it in j["items"] if len(it["sched"]) > 2)
    results = common.pmap(replay_group, jobs + tjobs, chunksize=1)
    trace = []
    collect(chk, results, covered, trace)
    # ---- direction B: the recorded discrete outputs (neighbour lists, pair counts) of the trajectory runs are
    # accepted or rejected by TraceSymmetry.tla, which re-derives the permutation and the species map itself
    if trace:
        recs = [t[0] for t in trace]
        res, rejects = common.validate_trace_all("TraceSymmetry", recs, max_rejects=5)
        chk.add_tlc(res, "TraceSymmetry (direction B)")
        rejected = {i for i, _ in rejects}
        for i, clause in rejects:
            chk.violation("trace:" + clause, trace[i][1])
        for i, t in enumerate(trace):
            if i not in rejected:
                chk.ok(("B",) + tuple(t[2][1:]), sample=None)
        chk.extra["trace_records"] = len(recs)
    chk.extra["observable_x_generators_covered"] = len(covered)
    chk.extra["pairs_single_generator"] = sorted({f"{o}:{k}" for (o, k) in covered if "+" not in k})
    chk.exhaustive = not quick
    return chk.finish()
