"""C18 - purity of the analysis entry points, against spec/Session.tla.

Layer-2 specification Session.tla: a user session over two shared Snapshots objects, the
shared array arguments, the shared neighbour / weight files and a user-owned open neighbour-file
handle.  Actions are the public API calls (registry of entry points in Session.tla: stateless
functions, constructors, state-setting methods, methods, the handle reader).  The specification is
pure by construction; MC_Session.tla (TLC) enumerates the call words (every f,g,f pattern over all
argument variants; all words of length <= 3 over the entry points), checks InputsUnchanged,
RepeatAgrees, FileHoldsReturned, ... on every state, shows that each impure action (MutatingCall,
CachedCall, FileFromOtherObject, StateCorruptingCall, CursorStealingCall) violates its invariant
when added to Next, and emits one schedule per behaviour.

Direction A: every selected schedule is executed against the real code in a freshly forked
process (so module-level state never leaks between sessions); the steps (planned by the spec,
including the constructor / setter steps a call needs) are executed literally; the `same` relation
printed by the spec (step i has the call identity of step j) and the expected cursor are compared.
Direction B: after every call the driver digests every array of both Snapshots objects, every
shared array argument (plain, non-contiguous view + its base, read-only, integer), the shared input
files, the state arrays of the analysis objects and the result (deep, bitwise, NaN-safe) and checks
the requested output files against the returned value to the written precision; TraceSession.tla
replays the records (all sessions of a world in one run, memo shared across sessions) and accepts a
record only if no object changed that the entry point does not own, the result agrees with memo and
the file holds the returned value.  Python only renders inputs, calls the API, digests and parses.
"""
import os

for _k in ("OMP_NUM_THREADS", "OPENBLAS_NUM_THREADS", "MKL_NUM_THREADS", "NUMEXPR_NUM_THREADS",
           "VECLIB_MAXIMUM_THREADS"):
    os.environ[_k] = "1"          # bitwise repeatability must not depend on BLAS threading

import hashlib
import json
import random
import shutil
import struct
import sys
import time
import traceback
import warnings

import numpy as np

from . import common
from .common import Check, MachineryError, run_tlc, run_tlc_sharded, require_model_ok

SAMPLE = os.path.join(common.SRC, "tests", "sample_test_data")
if not os.path.isdir(SAMPLE):
    SAMPLE = "/repo/tests/sample_test_data"

MODEL_INVS = ["TypeOK", "InputsUnchanged", "RepeatAgrees", "ResultDetermined", "FileHoldsReturned",
              "StateOnlyByOwner", "CursorOnlyByReader", "PlannedOnly"]


# ----------------------------------------------------------------------------
# digests (bitwise, NaN-safe)
# ----------------------------------------------------------------------------

def dg_array(a):
    """bytes, dtype, shape, strides, writeable flag of an input array"""
    h = hashlib.sha1()
    h.update(f"{a.dtype.str}|{a.shape}|{a.strides}|{int(a.flags.writeable)}|".encode())
    if a.dtype == object:
        h.update(repr(a.tolist()).encode())
    else:
        h.update(a.tobytes())
    return h.hexdigest()[:16]


def _deep(x, h):
    import pandas as pd
    if x is None:
        h.update(b"N;")
    elif isinstance(x, pd.DataFrame):
        h.update(f"DF{x.shape}|{[str(c) for c in x.columns]}|".encode())
        _deep(np.asarray(x.index), h)
        for c in x.columns:
            _deep(x[c].to_numpy(), h)
    elif isinstance(x, pd.Series):
        h.update(f"SR{x.shape}|{x.name}|".encode())
        _deep(np.asarray(x.index), h)
        _deep(x.to_numpy(), h)
    elif isinstance(x, np.ndarray):
        h.update(f"A{x.dtype.str}|{x.shape}|".encode())
        if x.dtype == object:
            for y in x.ravel().tolist():
                _deep(y, h)
        else:
            h.update(x.tobytes())
    elif isinstance(x, (tuple, list)):
        h.update(f"{type(x).__name__}{len(x)}[".encode())
        for y in x:
            _deep(y, h)
        h.update(b"]")
    elif isinstance(x, dict):
        h.update(f"D{len(x)}{{".encode())
        for k in sorted(x, key=str):
            h.update(str(k).encode() + b":")
            _deep(x[k], h)
        h.update(b"}")
    elif isinstance(x, (bool, np.bool_)):
        h.update(b"b1" if x else b"b0")
    elif isinstance(x, (int, np.integer)):
        h.update(f"i{int(x)};".encode())
    elif isinstance(x, (float, np.floating)):
        h.update(b"f" + struct.pack("<d", float(x)))
    elif isinstance(x, (complex, np.complexfloating)):
        h.update(b"c" + struct.pack("<dd", complex(x).real, complex(x).imag))
    elif isinstance(x, (str, bytes)):
        h.update(b"s" + (x.encode() if isinstance(x, str) else x) + b";")
    else:
        h.update(b"o" + repr(x).encode())


def dg_deep(x):
    h = hashlib.sha1()
    _deep(x, h)
    return h.hexdigest()[:16]


def dg_file(path):
    if not os.path.exists(path):
        return "missing"
    with open(path, "rb") as f:
        return hashlib.sha1(f.read()).hexdigest()[:16]


# ----------------------------------------------------------------------------
# output files vs returned values (to the written precision)
# ----------------------------------------------------------------------------

def _num_close(fv, rv, dec):
    fv = np.asarray(fv)
    rv = np.asarray(rv)
    if fv.shape != rv.shape:
        return False
    if np.iscomplexobj(rv) or np.iscomplexobj(fv):
        return _num_close(np.real(fv), np.real(rv), dec) and _num_close(np.imag(fv), np.imag(rv), dec)
    fv = fv.astype(float)
    rv = rv.astype(float)
    nan_f, nan_r = np.isnan(fv), np.isnan(rv)
    if not np.array_equal(nan_f, nan_r):
        return False
    inf = np.isinf(rv)
    if not np.array_equal(fv[inf], rv[inf]):
        return False
    ok = ~(nan_r | inf)
    if dec is None:
        return bool(np.array_equal(fv[ok], rv[ok]))
    tol = 0.5 * 10.0 ** (-dec)
    return bool(np.all(np.abs(fv[ok] - rv[ok]) <= tol * (1 + 1e-6) + 1e-12 * np.abs(rv[ok])))


def csv_holds(path, df, dec):
    """CSV written by DataFrame.to_csv(float_format='%.<dec>f') (dec None: shortest repr, exact)."""
    import pandas as pd
    if not os.path.exists(path):
        return False
    got = pd.read_csv(path, float_precision="round_trip")
    if [str(c) for c in got.columns] != [str(c) for c in df.columns] or len(got) != len(df):
        return False
    return all(_num_close(got[c].to_numpy(), df[c].to_numpy(), dec) for c in got.columns)


def npy_holds(path, arr):
    if not os.path.exists(path):
        return False
    got = np.load(path, allow_pickle=False)
    arr = np.asarray(arr)
    return got.dtype == arr.dtype and got.shape == arr.shape and got.tobytes() == arr.tobytes()


def txt_holds(path, arr, dec, skiprows=0):
    if not os.path.exists(path):
        return False
    got = np.loadtxt(path, skiprows=skiprows, ndmin=2)
    arr = np.asarray(arr)
    if arr.ndim == 1:
        arr = arr[:, None]
    return _num_close(got, arr, dec)


# ----------------------------------------------------------------------------
# worlds: the shared inputs of a session
# ----------------------------------------------------------------------------

def _lattice(rng, n, H, jitter=0.22):
    """n points on a jittered lattice inside the cell with rows H (fractional coordinates -> H)."""
    d = H.shape[0]
    m = int(np.ceil(n ** (1.0 / d)))
    while m ** d < n:
        m += 1
    cells = np.array(np.unravel_index(rng.permutation(m ** d)[:n], (m,) * d)).T.astype(float)
    frac = (cells + 0.5 + rng.uniform(-jitter, jitter, size=cells.shape)) / m
    return frac, frac @ H


def _write_dump(path, frames, types, timesteps, lo, H, cols=None):
    """LAMMPS dump text: orthogonal boxes through the library's own header writer, triclinic boxes in the
    LAMMPS bounding-box convention; coordinates with repr precision."""
    from PyMatterSim.writer.lammps_writer import write_dump_header
    d = H.shape[0]
    tri = bool(np.any(H - np.diag(np.diag(H))))
    with open(path, "w") as f:
        for fi, (t, pos) in enumerate(zip(timesteps, frames)):
            n = len(types)
            if not tri:
                bounds = np.c_[lo, lo + np.diag(H)]
                hdr = write_dump_header(int(t), n, bounds, addson=" ".join(cols[0]) if cols else "")
                f.write(hdr)
            else:
                xy = float(H[1, 0])
                xz = float(H[2, 0]) if d == 3 else 0.0
                yz = float(H[2, 1]) if d == 3 else 0.0
                xlo, ylo = float(lo[0]), float(lo[1])
                xhi, yhi = xlo + float(H[0, 0]), ylo + float(H[1, 1])
                zlo, zhi = (float(lo[2]), float(lo[2] + H[2, 2])) if d == 3 else (-0.5, 0.5)
                f.write(f"ITEM: TIMESTEP\n{int(t)}\nITEM: NUMBER OF ATOMS\n{n}\nITEM: BOX BOUNDS xy xz yz pp pp pp\n")
                f.write(f"{xlo + min(0.0, xy, xz, xy + xz)!r} {xhi + max(0.0, xy, xz, xy + xz)!r} {xy!r}\n")
                f.write(f"{ylo + min(0.0, yz)!r} {yhi + max(0.0, yz)!r} {xz!r}\n")
                f.write(f"{zlo!r} {zhi!r} {yz!r}\n")
                f.write("ITEM: ATOMS id type " + " ".join("xyz"[:d]) + (" " + " ".join(cols[0]) if cols else "") + "\n")
            for i in range(n):
                row = [str(i + 1), str(int(types[i]))] + [repr(float(x)) for x in pos[i]]
                if cols:
                    row += [repr(float(x)) for x in cols[1][fi][i]]
                f.write(" ".join(row) + "\n")


class World:
    """Two shared Snapshots objects + array arguments + neighbour / weight files, built once in the
    parent process (the sessions run in forked children, so every session starts from identical bits)."""

    def __init__(self, name, dim, tmp, seed):
        self.name, self.dim, self.dir = name, dim, os.path.join(tmp, name)
        os.makedirs(self.dir, exist_ok=True)
        self.S = {}        # target -> Snapshots
        self.ORI = {}      # target -> orientation Snapshots (2-D worlds)
        self.T = {}
        self.lin = {}
        self.K = {}
        self.nbr = {}      # target -> neighbour file
        self.wts = {}      # target -> weight file
        self.vor = {}      # target -> Voronoi index file (input of indicehis)
        self.nnb = {}      # neighbours per particle in the shared file
        self.A = {}        # (name, target) -> array argument
        self.heavy = False
        self.rng = np.random.default_rng(1000 * seed + sum(map(ord, name)))

    # ---- array arguments and flavours
    def add(self, name, s, arr, view=False, ro=False):
        arr = np.array(arr)
        if view:            # non-contiguous view of a larger base array (the base is a shared object too)
            base = np.zeros(arr.shape[:-1] + (2 * arr.shape[-1] + 1,), dtype=arr.dtype)
            base[..., 1::2] = arr
            self.A[(name + "@base", s)] = base
            arr = base[..., 1::2]
            assert not arr.flags.c_contiguous or arr.size <= 1
        if ro:
            arr.setflags(write=False)
        self.A[(name, s)] = arr
        return arr

    def a(self, name, s):
        return self.A[(name, s)]

    def flavours(self, name, s, arr, kinds="pvr"):
        """register plain / view / read-only copies of the same values: name, name_v, name_r"""
        if "p" in kinds:
            self.add(name, s, arr)
        if "v" in kinds:
            self.add(name + "_v", s, arr, view=True)
        if "r" in kinds:
            self.add(name + "_r", s, arr, ro=True)

    def fl(self, name, s, v):
        """argument `name` in the flavour a call variant asks for: 0 plain, 1 view, 2 read-only (falls back to plain)"""
        for nm in ((name, name + "_v", name + "_r")[v % 3], name):
            if (nm, s) in self.A:
                return self.A[(nm, s)]
        raise KeyError(name)


def _read(path, ndim, vec=None):
    from PyMatterSim.reader.dump_reader import DumpReader
    from PyMatterSim.reader.reader_utils import DumpFileType
    if vec:
        rd = DumpReader(path, ndim=ndim, filetype=DumpFileType.LAMMPSVECTOR, columnsids=vec)
    else:
        rd = DumpReader(path, ndim=ndim)
    rd.read_onefile()
    return rd.snapshots


def _head(snaps, k):
    from PyMatterSim.reader.reader_utils import Snapshots
    k = min(k, snaps.nsnapshots)
    return Snapshots(nsnapshots=k, snapshots=list(snaps.snapshots[:k]))


def _weights_file(path, nbrfile, n, rng):
    """a weight file consistent with the neighbour file (same cn per row), positive 6-decimal weights"""
    out = []
    with open(nbrfile) as f:
        for ln in f:
            tk = ln.split()
            if not tk:
                continue
            if tk[0] == "id":
                out.append("id   cn   weightlist\n")
            else:
                cn = int(tk[1])
                out.append(f"{tk[0]} {cn} " + " ".join(f"{w:.6f}" for w in rng.uniform(0.2, 1.5, size=cn)) + "\n")
    with open(path, "w") as f:
        f.writelines(out)


def _fill_args(W, s):
    """the shared array arguments derived from target s (plain, non-contiguous view, read-only, integer flavours)"""
    rng = W.rng
    S = W.S[s]
    T, N, d, K = S.nsnapshots, S.snapshots[0].nparticle, W.dim, W.K[s]
    W.flavours("cond_s", s, rng.normal(size=(T, N)))
    W.flavours("cond_i", s, rng.integers(1, 5, size=(T, N)), "p")
    b = rng.random((T, N)) > 0.4
    b[:, :3] = True
    W.flavours("cond_b", s, b, "pr")
    W.flavours("cond_c", s, rng.normal(size=(T, N)) + 1j * rng.normal(size=(T, N)), "pvr")
    W.flavours("cond_v", s, rng.normal(size=(T, N, d)))
    W.flavours("cond_t", s, rng.normal(size=(T, N, d, d)), "pr")
    W.flavours("vec", s, rng.normal(size=(N, d)))
    W.flavours("vec_i", s, rng.integers(1, 4, size=(N, d)) * rng.choice([-1, 1], size=(N, d)), "p")
    W.flavours("vecs", s, rng.normal(size=(T, N, d)), "pr")
    q = [[1, 0], [0, 1], [1, 1], [-1, 1], [2, 0], [0, 2], [2, 1]] if d == 2 else \
        [[1, 0, 0], [0, 1, 0], [0, 0, 1], [1, 1, 0], [-1, 0, 1], [1, 1, 1], [2, 0, 0], [0, 1, -1]]
    W.flavours("qvec", s, np.array(q, dtype=np.int64), "pv")
    # the same table with a floating dtype (np.loadtxt / np.round give such tables): `astype(float, copy=False)` and
    # `np.asarray(x, float)` alias it, so an in-place scaling of the converted table would modify the caller's argument.
    # It sits in the third flavour slot (fl(..., v) with v % 3 = 2) of the wave-vector argument.
    W.add("qvec_r", s, np.array(q, dtype=np.float64))
    W.flavours("ppp", s, np.ones(d, dtype=np.int64), "pr")
    sig = 0.5 * (np.linspace(1.0, 0.7, K)[:, None] + np.linspace(1.0, 0.7, K)[None, :]) * W.scale
    W.flavours("sigmas", s, sig, "pr")
    W.flavours("s2sig", s, 0.3 * sig, "pr")
    W.flavours("eps", s, 1.0 + 0.25 * np.add.outer(np.arange(K), np.arange(K)), "p")
    W.flavours("rcuts", s, 1.6 * sig * (1.0 + 0.05 * np.triu(np.ones((K, K)), 1)))    # asymmetric cut-off matrix
    W.flavours("ngrids", s, np.array([3, 2] if d == 2 else [2, 3, 2], dtype=np.int64), "p")
    M = 5
    W.flavours("efreq", s, rng.uniform(0.5, 3.0, size=M), "pv")
    W.flavours("evecs", s, rng.normal(size=(N * d, M)), "pv")
    tt = np.arange(21) * 0.1
    W.flavours("fil_C", s, np.exp(-tt) * np.cos(3 * tt))
    W.flavours("fil_t", s, tt, "p")
    tt2 = np.arange(22) * 0.1
    W.flavours("fil_C2", s, np.exp(-tt2) * np.cos(2 * tt2), "pr")
    W.flavours("fil_t2", s, tt2, "pr")
    p0 = np.array(S.snapshots[0].positions)
    W.flavours("tri", s, p0[:3])
    W.flavours("tri_i", s, np.rint(p0[:3] * 3).astype(np.int64), "p")
    W.flavours("moi", s, rng.normal(size=(7, 3)))
    W.flavours("moi_i", s, rng.integers(-3, 4, size=(7, 3)), "p")
    W.flavours("gyr", s, p0[:9])
    W.flavours("rij", s, rng.normal(scale=3.0, size=(10, d)))
    W.flavours("rij_i", s, rng.integers(-9, 10, size=(10, d)), "p")
    W.flavours("rii", s, rng.normal(scale=0.3, size=(N, d)), "pv")
    bins = (np.arange(12) + 0.5) * 0.2
    g = np.abs(1 + 0.4 * np.sin(3 * bins) * np.exp(-bins))
    g[:2] = 0.0
    W.flavours("s2_gr", s, g, "pr")
    W.flavours("s2_bins", s, bins, "p")
    W.flavours("dist", s, np.abs(rng.normal(size=15)), "pv")
    for i, p in enumerate([[0.0, 0.0], [2.0, 0.0], [2.0, 2.0], [0.0, 2.0]]):
        W.flavours(f"sqP{i + 1}", s, np.array(p) + 0.25 * s, "p")
    W.flavours("sqR0", s, np.array([1.1, 0.8]) + 0.25 * s, "p")
    W.flavours("sqvec", s, np.array([0.7, -1.9]), "p")
    W.flavours("angles", s, np.array([0.3 + 0.2 * s, 1.1, 2.0]), "p")


def _finish_world(W):
    """neighbour / weight files with the real Nnearests, the neighbour matrix of frame 0, arguments"""
    from PyMatterSim.neighbors.calculate_neighbors import Nnearests
    from PyMatterSim.neighbors.read_neighbors import read_neighbors
    for s in (1, 2):
        S = W.S[s]
        W.T[s] = S.nsnapshots
        ts = [x.timestep for x in S.snapshots]
        W.lin[s] = len(set(np.diff(ts))) <= 1
        W.K[s] = int(np.unique(S.snapshots[0].particle_type).shape[0])
        W.nbr[s] = os.path.join(W.dir, f"nbr{s}.dat")
        W.nnb[s] = 6 if W.dim == 2 else 8
        Nnearests(S, N=W.nnb[s], ppp=np.ones(W.dim, dtype=int), fnfile=W.nbr[s])
        W.wts[s] = os.path.join(W.dir, f"wts{s}.dat")
        _weights_file(W.wts[s], W.nbr[s], S.snapshots[0].nparticle, W.rng)
        with open(W.nbr[s]) as f:
            W.add("cnlist", s, read_neighbors(f, S.snapshots[0].nparticle, 30))
        W.vor[s] = os.path.join(W.dir, f"voroindex{s}.dat")      # a Voronoi-index file as voro++ analysis writes it
        with open(W.vor[s], "w") as f:
            f.write("id   voro_index\n")
            for i in range(min(S.snapshots[0].nparticle, 60)):
                f.write(f"{i + 1} 0 0 0 " + " ".join(str(int(x)) for x in W.rng.integers(0, 4, size=4)) + " 0 0\n")
        _fill_args(W, s)
    np.set_printoptions(edgeitems=3, threshold=1000, linewidth=75)   # undo what Nnearests set while building inputs
    return W


def build_small(name, dim, tmp, seed):
    W = World(name, dim, tmp, seed)
    rng = W.rng
    W.scale, W.rdelta, W.qrange, W.acut = 1.0, 0.25, 4.0, 0.3
    if dim == 2:
        cfg = {1: dict(n=24, steps=[0, 10, 20, 30, 40], lo=[1.0, -2.0], H=[[6.0, 0], [0, 6.0]]),
               2: dict(n=20, steps=[0, 1, 2, 4], lo=[0.0, 0.5], H=[[7.0, 0], [1.5, 5.0]], K=3)}
    else:   # target 1: orthogonal box whose bounds are centred on the origin (bounds sum to zero)
        cfg = {1: dict(n=30, steps=[0, 5, 10, 15], lo=[-2.5, -3.0, -2.0], H=[[5.0, 0, 0], [0, 6.0, 0], [0, 0, 4.0]]),
               2: dict(n=27, steps=[0, 1, 3], lo=[0.5, 0.0, -1.0], H=[[5.0, 0, 0], [1.0, 5.0, 0], [0.5, -1.0, 4.0]], K=5)}
    for s, c in cfg.items():
        H = np.array(c["H"])
        lo = np.array(c["lo"])
        n = c["n"]
        frac, _ = _lattice(rng, n, H)
        frames, oris = [], []
        for _t in c["steps"]:
            frac = (frac + rng.normal(scale=0.012, size=frac.shape)) % 1.0
            frames.append(lo + frac @ H)
            th = rng.uniform(0, 2 * np.pi, size=n)
            oris.append(np.c_[np.cos(th), np.sin(th)])
        K = c.get("K", 2)          # species 1..K, unequal composition (g(r) / S(q) branches unary .. quinary)
        types = np.sort(np.r_[np.arange(1, K + 1), 1 + (np.arange(n - K) * 7 % (2 * K)) // 2 % K])
        path = os.path.join(W.dir, f"traj{s}.atom")
        _write_dump(path, frames, types, c["steps"], lo, H, cols=(("mux", "muy"), oris) if dim == 2 else None)
        W.S[s] = _read(path, dim)
        if dim == 2:
            W.ORI[s] = _read(path, dim, vec=[5, 6])
    if dim == 3:
        assert W.S[1].snapshots[0].boxbounds.sum() == 0
    return _finish_world(W)


def build_sample(name, dim, tmp, seed):
    W = World(name, dim, tmp, seed)
    W.heavy = True
    W.rdelta, W.qrange, W.acut = 0.5, 1.5, 2.0
    if dim == 3:
        W.scale = 1.0
        W.S[1] = _head(_read(os.path.join(SAMPLE, "quarternary.dump"), 3), 3)
        W.S[2] = _read(os.path.join(SAMPLE, "unary.dump"), 3)
    else:
        W.scale = 1.0
        W.S[1] = _head(_read(os.path.join(SAMPLE, "2d", "2ddump.s.atom"), 2), 2)
        W.S[2] = _head(_read(os.path.join(SAMPLE, "2d", "dump.nematic.atom"), 2), 1)
        W.ORI[2] = _head(_read(os.path.join(SAMPLE, "2d", "dump.nematic.atom"), 2, vec=[5, 6]), 1)
    return _finish_world(W)


BUILDERS = {"w2": lambda t, sd: build_small("w2", 2, t, sd), "w3": lambda t, sd: build_small("w3", 3, t, sd),
            "s2": lambda t, sd: build_sample("s2", 2, t, sd), "s3": lambda t, sd: build_sample("s3", 3, t, sd)}


def world_descriptor(W):
    return {"dim": W.dim, "T": [W.T[1], W.T[2]], "lin": [bool(W.lin[1]), bool(W.lin[2])],
            "ori": [1 in W.ORI, 2 in W.ORI], "heavy": bool(W.heavy)}


# ----------------------------------------------------------------------------
# a session against the real code
# ----------------------------------------------------------------------------

class Handle:
    """the user's open neighbour file; frame() = frames consumed so far (-1: not on a frame boundary)"""

    def __init__(self, path, nparticle):
        self.path, self.n = path, nparticle
        self.bound = {0: 0}
        pos = 0
        with open(path, "r", encoding="utf-8") as f:
            for i, ln in enumerate(f.read().split("\n")[:-1]):
                pos += len(ln.encode()) + 1
                if (i + 1) % (nparticle + 1) == 0:
                    self.bound[pos] = (i + 1) // (nparticle + 1)
        self.f = open(path, "r", encoding="utf-8")

    def frame(self):
        return self.bound.get(self.f.tell(), -1)

    def reopen(self):
        self.f.close()
        self.f = open(self.path, "r", encoding="utf-8")


# state arrays of the analysis objects (owned by the family: only its constructor / setter may change them)
STATE = {"gr": ["typenumber", "typecount", "rhotype", "ppp"], "sq": ["qvector", "qvalue", "typenumber", "typecount"],
         "boo3d": ["smallqlm", "largeQlm", "ppp"], "boo2d": ["ParticlePhi", "ppp"], "nematic": ["QIJ"],
         "s2": ["s2_results", "sigmas", "typecount"], "dyn": ["time", "diameters", "a2_cuts", "neighborlists"],
         "logdyn": ["time", "diameters", "a2_cuts", "neighborlists"], "hess": ["epsilons", "sigmas", "r_cuts"]}
FAMS = sorted(STATE)


class Sess:
    def __init__(self, W, sdir):
        self.W, self.dir = W, sdir
        self.obj = {}
        self.cv = {}
        self.h = {s: Handle(W.nbr[s], W.S[s].snapshots[0].nparticle) for s in (1, 2)}
        self.k = 0

    def out(self, ext=""):
        self.k += 1
        return os.path.join(self.dir, f"o{self.k}{ext}")

    def one(self, s):
        return self.W.S[s].snapshots[0]

    def state_digest(self, fam, s):
        o = self.obj.get((fam, s))
        if o is None:
            return "none"
        h = hashlib.sha1()
        for a in STATE[fam]:
            v = getattr(o, a, None)
            h.update(a.encode())
            if isinstance(v, np.ndarray):
                h.update(dg_array(v).encode())
            else:
                _deep(v, h)
        return h.hexdigest()[:16]


def shared_objects(W):
    """(name, owner family, target, getter(Z)) of every shared object of a session, in a fixed order"""
    objs = []
    for s in (1, 2):
        for tag, ss in (("S", W.S.get(s)), ("ORI", W.ORI.get(s))):
            if ss is None:
                continue

            def struct(Z, ss=ss):
                h = hashlib.sha1(f"{ss.nsnapshots}|{len(ss.snapshots)}".encode())
                for x in ss.snapshots:
                    h.update(f"{id(x)}|{x.timestep}|{x.nparticle}|".encode())
                    for fld in ("particle_type", "positions", "boxlength", "boxbounds", "realbounds", "hmatrix"):
                        h.update(f"{id(getattr(x, fld))}|".encode())
                return h.hexdigest()[:16]
            objs.append((f"{tag}{s}.struct", "", s, struct))
            for fi, x in enumerate(ss.snapshots):
                for fld in ("particle_type", "positions", "boxlength", "boxbounds", "realbounds", "hmatrix"):
                    arr = getattr(x, fld)
                    if isinstance(arr, np.ndarray):
                        objs.append((f"{tag}{s}.f{fi}.{fld}", "", s, lambda Z, arr=arr: dg_array(arr)))
        for (nm, t) in sorted(k for k in W.A if k[1] == s):
            arr = W.A[(nm, t)]
            objs.append((f"arg{s}.{nm}", "", s, lambda Z, arr=arr: dg_array(arr)))
        objs.append((f"file{s}.neighbours", "", s, lambda Z, p=W.nbr[s]: dg_file(p)))
        objs.append((f"file{s}.weights", "", s, lambda Z, p=W.wts[s]: dg_file(p)))
        objs.append((f"file{s}.voroindex", "", s, lambda Z, p=W.vor[s]: dg_file(p)))
        for fam in FAMS:
            objs.append((f"state{s}.{fam}", fam, s, lambda Z, fam=fam, s=s: Z.state_digest(fam, s)))
    return objs


# ---- the entry points: IMPL[name](Z, s, v) -> (result, file_ok) ; file_ok None = no output file requested

def _ppp(Z, s, v=0):
    return Z.W.fl("ppp", s, 2 if v % 2 else 0)


def i_conditional_gr(Z, s, v):
    from PyMatterSim.static.gr import conditional_gr
    W = Z.W
    cond, ctype = [(W.a("cond_s", s)[0], None), (W.a("cond_b_r", s)[0], None), (W.a("cond_c_v", s)[0], None),
                   (W.a("cond_v", s)[0], "vector"), (W.a("cond_t_r", s)[0], "tensor"), (W.a("cond_i", s)[0], None)][v]
    return conditional_gr(Z.one(s), cond, ctype, ppp=_ppp(Z, s, v), rdelta=W.rdelta), None


def i_conditional_sq(Z, s, v):
    from PyMatterSim.static.sq import conditional_sq
    W = Z.W
    cond = [W.a("cond_b", s)[0], W.a("cond_s_v", s)[0], W.a("cond_v_r", s)[0], W.a("cond_i", s)[0]][v]
    return conditional_sq(Z.one(s), W.fl("qvec", s, v), cond), None


def i_q8(Z, s, v):
    from PyMatterSim.static.geometric import q8_tetrahedral
    if v == 0:
        return q8_tetrahedral(Z.W.S[s], ppp=_ppp(Z, s)), None
    out = Z.out(".npy")
    r = q8_tetrahedral(Z.W.S[s], ppp=_ppp(Z, s, 1), outputfile=out)
    return r, npy_holds(out, r)


def i_packing(Z, s, v):
    from PyMatterSim.static.geometric import packing_capability_2d
    W = Z.W
    if v == 0:
        return packing_capability_2d(W.S[s], W.a("sigmas", s), W.nbr[s], ppp=_ppp(Z, s)), None
    out = Z.out(".npy")
    r = packing_capability_2d(W.S[s], W.a("sigmas_r", s), W.nbr[s], ppp=_ppp(Z, s, 1), outputfile=out)
    return r, npy_holds(out, r)


def i_gyration(Z, s, v):
    from PyMatterSim.static.shape import gyration_tensor
    if v == 3:      # a view of the snapshot's own positions (a user selecting a cluster by slicing)
        return gyration_tensor(Z.one(s).positions[:9]), None
    return gyration_tensor(Z.W.fl("gyr", s, v)), None


def i_participation(Z, s, v):
    from PyMatterSim.static.vector import participation_ratio
    return participation_ratio(Z.W.a("vec_i", s) if v == 3 else Z.W.fl("vec", s, v)), None


def i_alignment(Z, s, v):
    from PyMatterSim.static.vector import local_vector_alignment
    return local_vector_alignment(Z.W.fl("vec", s, v), Z.W.nbr[s]), None


def i_phase_quotient(Z, s, v):
    from PyMatterSim.static.vector import phase_quotient
    return phase_quotient(Z.W.fl("vec", s, v), Z.W.nbr[s]), None


def i_divcurl(Z, s, v):
    from PyMatterSim.static.vector import divergence_curl
    return divergence_curl(Z.one(s), Z.W.fl("vec", s, v), _ppp(Z, s, v), Z.W.nbr[s]), None


def i_vibrability(Z, s, v):
    from PyMatterSim.static.vector import vibrability
    W = Z.W
    n = W.S[s].snapshots[0].nparticle
    if v == 0:
        return vibrability(W.a("efreq", s), W.a("evecs", s), n), None
    out = Z.out(".npy")
    r = vibrability(W.a("efreq_v", s), W.a("evecs_v", s), n, outputfile=out)
    return r, npy_holds(out, r)


def i_vecdecomp(Z, s, v):
    from PyMatterSim.static.vector import vector_decomposition_sq
    W = Z.W
    if v == 1:
        out = Z.out(".csv")
        r = vector_decomposition_sq(Z.one(s), W.a("qvec_v", s), W.a("vec_v", s), outputfile=out)
        return r, csv_holds(out, r[1], 8)
    return vector_decomposition_sq(Z.one(s), W.a("qvec", s), W.fl("vec", s, v)), None


def i_vecfft(Z, s, v):
    from PyMatterSim.static.vector import vector_fft_corr
    W = Z.W
    out = Z.out("")
    r = vector_fft_corr(W.S[s], W.fl("qvec", s, v), W.a("vecs_r" if v == 1 else "vecs", s), dt=0.002, outputfile=out)
    ok = all(npy_holds(f"{out}.{h}.npy", r[h].values) for h in ("FFT", "T_FFT", "L_FFT")) and os.path.exists(out + ".spectra.csv")
    return r, ok


def i_timecorr(Z, s, v):
    from PyMatterSim.dynamic.time_corr import time_correlation
    W = Z.W
    cond = [W.a("cond_s", s), W.a("cond_c_v", s), W.a("cond_v_r", s), W.a("cond_t", s)][v]
    if v in (1, 3):
        out = Z.out(".csv")
        r = time_correlation(W.S[s], cond, dt=0.002, outputfile=out)
        return r, csv_holds(out, r, 8)
    return time_correlation(W.S[s], cond, dt=0.002), None


def _files(*paths):
    return tuple((os.path.basename(p).split(".", 1)[-1], dg_file(p)) for p in paths)


def i_nnearests(Z, s, v):
    from PyMatterSim.neighbors.calculate_neighbors import Nnearests
    out = Z.out(".dat")
    r = Nnearests(Z.W.S[s], N=[4, 3][v], ppp=_ppp(Z, s, v), fnfile=out)
    return (r, _files(out)), None


def i_cutoff(Z, s, v):
    from PyMatterSim.neighbors.calculate_neighbors import cutoffneighbors
    out = Z.out(".dat")
    r = cutoffneighbors(Z.W.S[s], r_cut=[1.5, 1.25][v] * Z.W.scale, ppp=_ppp(Z, s, v), fnfile=out)
    return (r, _files(out)), None


def i_cutoff_type(Z, s, v):
    from PyMatterSim.neighbors.calculate_neighbors import cutoffneighbors_particletype
    out = Z.out(".dat")
    r = cutoffneighbors_particletype(Z.W.S[s], r_cut=Z.W.fl("rcuts", s, v), ppp=_ppp(Z, s, v), fnfile=out)
    return (r, _files(out)), None


def i_read_neighbors(Z, s, v):
    from PyMatterSim.neighbors.read_neighbors import read_neighbors
    return read_neighbors(Z.h[s].f, Z.W.S[s].snapshots[0].nparticle, [200, 3][v]), None


def i_reopen(Z, s, v):
    Z.h[s].reopen()
    return None, None


def i_cal_neighbors(Z, s, v):
    from PyMatterSim.neighbors.freud_neighbors import cal_neighbors
    out = Z.out("")
    r = cal_neighbors(Z.W.S[s], outputfile=out)
    w = "edgelength" if Z.W.dim == 2 else "facearea"
    return (r, _files(out + ".neighbor.dat", out + f".{w}.dat", out + ".overall.dat")), None


def i_volume_matrix(Z, s, v):
    from PyMatterSim.neighbors.freud_neighbors import VolumeMatrix
    W = Z.W
    if v == 0:
        return VolumeMatrix(W.S[s], ndim=W.dim, nconfig=0), None
    if v == 1:
        out = Z.out(".npy")
        r = VolumeMatrix(W.S[s], ndim=W.dim, nconfig=0, transform_matrix=False, outputfile=out)
        return r, npy_holds(out, r)
    return VolumeMatrix(W.S[s], ndim=W.dim, nconfig=W.T[s] - 1, deltar=0.02), None


def i_remove_pbc(Z, s, v):
    from PyMatterSim.utils.pbc import remove_pbc
    rij = Z.W.a("rij_i", s) if v == 3 else Z.W.fl("rij", s, v)
    return remove_pbc(rij, Z.one(s).hmatrix, _ppp(Z, s, v)), None


def _period(Z, s):
    ts = [x.timestep for x in Z.W.S[s].snapshots]
    return 2.5 * (ts[1] - ts[0]) * 0.002


def i_time_average(Z, s, v):
    from PyMatterSim.utils.coarse_graining import time_average
    W = Z.W
    prop = [W.a("cond_c", s), W.a("cond_s_v", s), W.a("cond_c_r", s), W.a("cond_i", s)][v]
    return time_average(W.S[s], prop, time_period=_period(Z, s), dt=0.002), None


def i_spatial_average(Z, s, v):
    from PyMatterSim.utils.coarse_graining import spatial_average
    W = Z.W
    if v == 1:
        out = Z.out(".npy")
        r = spatial_average(W.a("cond_v_v", s), W.nbr[s], Nmax=30, outputfile=out)
        return r, npy_holds(out, r)
    return spatial_average([W.a("cond_s", s), None, W.a("cond_t_r", s), W.a("cond_i", s)][v], W.nbr[s], Nmax=[30, 0, 4, 30][v]), None


def i_gaussian_blurring(Z, s, v):
    from PyMatterSim.utils.coarse_graining import gaussian_blurring
    W = Z.W
    sig, cut = 1.0 * W.scale, 3.0 * W.scale
    if v == 0:
        return gaussian_blurring(W.S[s], W.a("cond_s", s), W.a("ngrids", s), sigma=sig, ppp=_ppp(Z, s), gaussian_cut=cut), None
    out = Z.out("")
    r = gaussian_blurring(W.S[s], W.a("cond_v_v", s), W.a("ngrids", s), sigma=sig, ppp=_ppp(Z, s, 1), gaussian_cut=cut,
                          outputfile=out)
    return r, npy_holds(out + "_positions.npy", r[0]) and npy_holds(out + "_properties.npy", r[1])


def i_triangle_area(Z, s, v):
    from PyMatterSim.utils.geometry import triangle_area
    tri = Z.W.a("tri_i", s) if v == 3 else Z.W.fl("tri", s, v)
    return triangle_area(tri, Z.one(s).hmatrix, _ppp(Z, s, v)), None


def i_moment_of_inertia(Z, s, v):
    from PyMatterSim.utils.funcs import moment_of_inertia
    if v == 3:
        return moment_of_inertia(Z.W.a("moi_i", s), m=2, matrix=True), None
    return moment_of_inertia(Z.W.fl("moi", s, v)), None


def i_filon(Z, s, v):
    from PyMatterSim.utils.fft import Filon_COS
    W = Z.W
    if v == 0:
        return Filon_COS(W.a("fil_C", s), W.a("fil_t", s)), None
    if v == 1:
        out = Z.out(".csv")
        r = Filon_COS(W.a("fil_C_v", s), W.a("fil_t", s), a=0.5, outputfile=out)
        return r, csv_holds(out, r, 6)
    return Filon_COS(W.a("fil_C2_r", s), W.a("fil_t2_r", s)), None


def i_lines_intersection(Z, s, v):
    from PyMatterSim.utils.geometry import lines_intersection
    W = Z.W
    return lines_intersection(W.a("sqP1", s), W.a("sqP3", s), W.a("sqP2", s), W.a("sqP4", s)), None


def i_line_within_square(Z, s, v):
    from PyMatterSim.utils.geometry import LineWithinSquare
    W = Z.W
    return LineWithinSquare(W.a("sqP1", s), W.a("sqP2", s), W.a("sqP3", s), W.a("sqP4", s), W.a("sqR0", s), W.a("sqvec", s)), None


def i_cage_relative(Z, s, v):
    from PyMatterSim.dynamic.dynamics import cage_relative
    return cage_relative(Z.W.fl("rii", s, v), Z.W.a("cnlist", s)), None


def i_s2_integral(Z, s, v):
    from PyMatterSim.static.pairentropy import s2_integral
    return s2_integral(Z.W.a("s2_gr_r" if v else "s2_gr", s), Z.W.a("s2_bins", s), Z.W.dim), None


def i_grid_gaussian(Z, s, v):
    from PyMatterSim.utils.funcs import grid_gaussian
    return grid_gaussian(Z.W.fl("dist", s, v), sigma=0.8), None


def i_choosewavevector(Z, s, v):
    from PyMatterSim.utils.wavevector import choosewavevector
    return choosewavevector(Z.W.dim, 4 + s, onlypositive=bool(v)), None


def i_sph_harm(Z, s, v):
    from PyMatterSim.utils.spherical_harmonics import sph_harm_l
    a = Z.W.a("angles", s)
    return sph_harm_l([4, 6, 12][v], float(a[0]), float(a[1])), None


def i_wigner(Z, s, v):
    from PyMatterSim.utils.funcs import Wignerindex
    return Wignerindex(1 + s), None


def i_write_dump_header(Z, s, v):
    from PyMatterSim.writer.lammps_writer import write_dump_header
    x = Z.one(s)
    return write_dump_header(x.timestep, x.nparticle, x.boxbounds, addson="q6"), None


def _fitfun(x, a, b):
    return a * np.exp(-b * x)


def i_fits(Z, s, v):
    from PyMatterSim.utils.fitting import fits
    W = Z.W
    if v == 0:
        return fits(_fitfun, W.a("fil_t", s), W.a("fil_C", s)), None
    return fits(_fitfun, W.a("fil_t2_r", s), W.a("fil_C2_r", s), rangea=0.1, rangeb=1.5, p0=[1.0, 1.0], style="log"), None


def i_continuousvector(Z, s, v):
    from PyMatterSim.utils.wavevector import continuousvector
    return continuousvector(Z.W.dim, 2 + 2 * s, onlypositive=(s == 2)), None


def i_triangle_angle(Z, s, v):
    from PyMatterSim.utils.geometry import triangle_angle
    g = Z.W.a("sigmas", s)
    return triangle_angle(g[0, 0], g[0, -1], g[-1, -1]), None


def i_indicehis(Z, s, v):
    from PyMatterSim.neighbors.voropp_neighbors import indicehis
    out = Z.out(".dat")
    r = indicehis(Z.W.vor[s], outputfile=out)
    return (r, _files(out)), None


# ---- analysis objects

def _need(Z, fam, s):
    o = Z.obj.get((fam, s))
    if o is None:
        raise MachineryError(f"step on {fam} of target {s} before its constructor (the spec plans the constructor first)")
    return o


def c_gr(Z, s, v):
    from PyMatterSim.static.gr import gr
    out = Z.out(".csv") if v == 1 else None
    o = gr(Z.W.S[s], ppp=_ppp(Z, s, v), rdelta=Z.W.rdelta, outputfile=out)
    Z.obj[("gr", s)], Z.cv[("gr", s)] = o, (v, out)
    return Z.state_digest("gr", s), None


def m_gr_getresults(Z, s, v):
    o = _need(Z, "gr", s)
    r = o.getresults()
    cv, out = Z.cv[("gr", s)]
    return r, (csv_holds(out, r, 6) if cv == 1 else None)


def c_sq(Z, s, v):
    from PyMatterSim.static.sq import sq
    W = Z.W
    if v == 0:
        o, out = sq(W.S[s], qrange=W.qrange), None
    elif v == 2:                      # float-valued wave-vector table, no output file
        o, out = sq(W.S[s], qvector=W.a("qvec_r", s)), None
    else:
        out = Z.out(".csv")
        o = sq(W.S[s], qvector=W.a("qvec_v", s), saveqvectors=True, outputfile=out)
    Z.obj[("sq", s)], Z.cv[("sq", s)] = o, (v, out)
    return Z.state_digest("sq", s), None


def m_sq_getresults(Z, s, v):
    o = _need(Z, "sq", s)
    r = o.getresults()
    cv, out = Z.cv[("sq", s)]
    return r, (csv_holds(out, r, 6) if cv == 1 else None)


def c_boo3d(Z, s, v):
    from PyMatterSim.static.boo import boo_3d
    W = Z.W
    if v == 0:
        o = boo_3d(W.S[s], l=4, neighborfile=W.nbr[s], ppp=_ppp(Z, s), Nmax=30)
    else:
        o = boo_3d(W.S[s], l=6, neighborfile=W.nbr[s], weightsfile=W.wts[s], ppp=_ppp(Z, s, 1), Nmax=30)
    Z.obj[("boo3d", s)], Z.cv[("boo3d", s)] = o, (v, None)
    return Z.state_digest("boo3d", s), None


def m_boo3d_ql(Z, s, v):
    o = _need(Z, "boo3d", s)
    if v == 0:
        return o.ql_Ql(), None
    if v == 1:
        out = Z.out(".npy")
        r = o.ql_Ql(coarse_graining=True, outputfile=out)
        return r, npy_holds(out, r)
    out = Z.out(".dat")
    r = o.ql_Ql(outputfile=out)
    return r, txt_holds(out, r, 6) and npy_holds(out + ".npy", r)


def m_boo3d_sij(Z, s, v):
    o = _need(Z, "boo3d", s)
    if v == 0:
        return o.sij_ql_Ql(c=0.6), None
    o1, o2 = Z.out(".csv"), Z.out(".dat")
    r = o.sij_ql_Ql(coarse_graining=True, c=0.6, outputqlQl=o1, outputsij=o2)
    return r, txt_holds(o2, r, 6, skiprows=1) and os.path.exists(o1)


def m_boo3d_w(Z, s, v):
    o = _need(Z, "boo3d", s)
    if v == 0:
        return o.w_W_cap(), None
    o1, o2 = Z.out(".npy"), Z.out(".dat")
    r = o.w_W_cap(coarse_graining=True, outputw=o1, outputwcap=o2)
    return r, npy_holds(o1, r[0]) and txt_holds(o2, r[1], 6) and npy_holds(o2 + ".npy", r[1])


def m_boo3d_spatial(Z, s, v):
    o = _need(Z, "boo3d", s)
    if v == 0:
        return o.spatial_corr(rdelta=Z.W.rdelta), None
    out = Z.out(".csv")
    r = o.spatial_corr(coarse_graining=True, rdelta=Z.W.rdelta, outputfile=out)
    return r, csv_holds(out, r, 8)


def m_boo3d_time(Z, s, v):
    o = _need(Z, "boo3d", s)
    if v == 0:
        return o.time_corr(), None
    out = Z.out(".csv")
    r = o.time_corr(coarse_graining=True, dt=0.002, outputfile=out)
    return r, csv_holds(out, r, 8)


def c_boo2d(Z, s, v):
    from PyMatterSim.static.boo import boo_2d
    W = Z.W
    if v == 0:
        o, ok = boo_2d(W.S[s], l=6, neighborfile=W.nbr[s], ppp=_ppp(Z, s), Nmax=10), None
    else:
        out = Z.out(".npy")
        o = boo_2d(W.S[s], l=4, neighborfile=W.nbr[s], weightsfile=W.wts[s], ppp=_ppp(Z, s, 1), Nmax=10, output_phi=out)
        ok = npy_holds(out, o.ParticlePhi)
    Z.obj[("boo2d", s)], Z.cv[("boo2d", s)] = o, (v, None)
    return Z.state_digest("boo2d", s), ok


def m_boo2d_time_average(Z, s, v):
    o = _need(Z, "boo2d", s)
    if v == 0:
        return o.time_average(time_period=_period(Z, s), dt=0.002), None
    out = Z.out(".npy")
    r = o.time_average(time_period=_period(Z, s), dt=0.002, average_complex=False, outputfile=out)
    return r, npy_holds(out, r[0]) and txt_holds(out + ".snapshot_id.dat", r[1], None, skiprows=1)


def m_boo2d_spatial(Z, s, v):
    o = _need(Z, "boo2d", s)
    if v == 0:
        return o.spatial_corr(rdelta=Z.W.rdelta), None
    out = Z.out(".csv")
    r = o.spatial_corr(rdelta=Z.W.rdelta, outputfile=out)
    return r, csv_holds(out, r, 8)


def m_boo2d_time(Z, s, v):
    o = _need(Z, "boo2d", s)
    if v == 0:
        return o.time_corr(), None
    out = Z.out(".csv")
    r = o.time_corr(dt=0.002, outputfile=out)
    return r, csv_holds(out, r, 8)


def c_nematic(Z, s, v):
    from PyMatterSim.static.nematic import NematicOrder
    o = NematicOrder(Z.W.ORI[s], Z.W.S[s])
    Z.obj[("nematic", s)], Z.cv[("nematic", s)] = o, (v, None)
    return Z.state_digest("nematic", s), None


def m_nematic_tensor(Z, s, v):
    o = _need(Z, "nematic", s)
    out = Z.out("")
    if v == 0:
        r = o.tensor(outputfile=out)
        return r, npy_holds(out + ".QIJ_raw.npy", o.QIJ) and npy_holds(out + ".Qtrace.npy", r)
    if v == 1:
        r = o.tensor(neighborfile=Z.W.nbr[s], Nmax=30, outputfile=out)
        return r, npy_holds(out + ".QIJ_cg.npy", o.QIJ) and npy_holds(out + ".Qtrace.npy", r)
    r = o.tensor(eigvals=True, outputfile=out)
    return r, npy_holds(out + ".QIJ_raw.npy", o.QIJ) and npy_holds(out + ".eigval.npy", r)


def m_nematic_spatial(Z, s, v):
    o = _need(Z, "nematic", s)
    rd = Z.W.rdelta
    if v == 0:
        return o.spatial_corr(rdelta=rd, ppp=_ppp(Z, s)), None
    out = Z.out(".csv")
    r = o.spatial_corr(rdelta=rd, ppp=_ppp(Z, s, 1), outputfile=out)
    return r, csv_holds(out, r, 8)


def m_nematic_time(Z, s, v):
    o = _need(Z, "nematic", s)
    if v == 0:
        return o.time_corr(), None
    out = Z.out(".csv")
    r = o.time_corr(dt=0.002, outputfile=out)
    return r, csv_holds(out, r, 8)


def c_s2(Z, s, v):
    from PyMatterSim.static.pairentropy import S2
    W = Z.W
    o = S2(W.S[s], sigmas=W.fl("s2sig", s, 2 * v), ppp=_ppp(Z, s, v), rdelta=0.1 * W.scale, ndelta=20)
    Z.obj[("s2", s)], Z.cv[("s2", s)] = o, (v, None)
    return Z.state_digest("s2", s), None


def m_s2_particle(Z, s, v):
    o = _need(Z, "s2", s)
    if v == 0:
        return o.particle_s2(), None
    out = Z.out(".npy")
    r = o.particle_s2(outputfile=out)
    return r, npy_holds(out, r)


def m_s2_spatial(Z, s, v):
    o = _need(Z, "s2", s)
    if v == 0:
        return o.spatial_corr(), None
    out = Z.out(".csv")
    r = o.spatial_corr(mean_norm=True, outputfile=out)
    return r, csv_holds(out, r, 8)


def m_s2_time(Z, s, v):
    o = _need(Z, "s2", s)
    if v == 0:
        return o.time_corr(), None
    out = Z.out(".csv")
    r = o.time_corr(dt=0.002, outputfile=out)
    return r, csv_holds(out, r, 6)


def _c_dyn(Z, s, v, cls, fam):
    W = Z.W
    dia = {k + 1: float(W.a("sigmas", s)[k, k]) for k in range(W.K[s])}
    if v == 0:
        o = cls(x_snapshots=W.S[s], dt=0.002, ppp=_ppp(Z, s), diameters=dia, a=W.acut)
    else:
        o = cls(xu_snapshots=W.S[s], dt=0.002, ppp=np.zeros(W.dim, dtype=int), diameters=dia, a=0.1, cal_type="fast",
                neighborfile=W.nbr[s], max_neighbors=30)
    Z.obj[(fam, s)], Z.cv[(fam, s)] = o, (v, None)
    return Z.state_digest(fam, s), None


def c_dyn(Z, s, v):
    from PyMatterSim.dynamic.dynamics import Dynamics
    return _c_dyn(Z, s, v, Dynamics, "dyn")


def c_logdyn(Z, s, v):
    from PyMatterSim.dynamic.dynamics import LogDynamics
    return _c_dyn(Z, s, v, LogDynamics, "logdyn")


def m_dyn_relaxation(Z, s, v):
    o = _need(Z, "dyn", s)
    if v == 0:
        return o.relaxation(), None
    out = Z.out(".csv")
    r = o.relaxation(qconst=5.0, condition=Z.W.a("cond_b_r", s), outputfile=out)
    return r, csv_holds(out, r, None)


def m_dyn_sq4(Z, s, v):
    o = _need(Z, "dyn", s)
    t = float(o.time[0])
    if v == 0:
        return o.sq4(t=t, qrange=Z.W.qrange), None
    out = Z.out(".csv")
    r = o.sq4(t=t * min(2, Z.W.T[s] - 1), qrange=Z.W.qrange, condition=Z.W.a("cond_b", s), outputfile=out)
    return r, csv_holds(out, r, None)


def m_logdyn_relaxation(Z, s, v):
    o = _need(Z, "logdyn", s)
    if v == 0:
        return o.relaxation(), None
    out = Z.out(".csv")
    r = o.relaxation(qconst=5.0, condition=Z.W.a("cond_b_r", s)[0], outputfile=out)
    return r, csv_holds(out, r, None)


def c_hess(Z, s, v):
    from PyMatterSim.static.hessians import HessianMatrix
    W = Z.W
    o = HessianMatrix(Z.one(s), masses={k + 1: 1.0 + 0.5 * k for k in range(W.K[s])}, epsilons=W.a("eps", s),
                      sigmas=W.a("sigmas_r", s), r_cuts=W.a("rcuts_v", s), ppp=_ppp(Z, s), shiftpotential=True)
    Z.obj[("hess", s)], Z.cv[("hess", s)] = o, (v, None)
    return Z.state_digest("hess", s), None


def m_hess_diag(Z, s, v):
    from PyMatterSim.static.hessians import InteractionParams, ModelName
    o = _need(Z, "hess", s)
    out = Z.out("")
    if v == 0:
        r = o.diagonalize_hessian(InteractionParams(model_name=ModelName.lennard_jones), saveevecs=True, outputfile=out)
        return (r, _files(out + ".omega_PR.csv", out + ".evecs.npy")), None
    r = o.diagonalize_hessian(InteractionParams(model_name=ModelName.inverse_power_law, ipl_n=10, ipl_A=1.0),
                              saveevecs=False, savehessian=True, outputfile=out)
    return (r, _files(out + ".omega_PR.csv", out + ".hessianmatrix.npy")), None


IMPL = {
    "conditional_gr": i_conditional_gr, "conditional_sq": i_conditional_sq, "q8_tetrahedral": i_q8,
    "packing_capability_2d": i_packing, "gyration_tensor": i_gyration, "participation_ratio": i_participation,
    "local_vector_alignment": i_alignment, "phase_quotient": i_phase_quotient, "divergence_curl": i_divcurl,
    "vibrability": i_vibrability, "vector_decomposition_sq": i_vecdecomp, "vector_fft_corr": i_vecfft,
    "time_correlation": i_timecorr, "Nnearests": i_nnearests, "cutoffneighbors": i_cutoff,
    "cutoffneighbors_particletype": i_cutoff_type, "read_neighbors": i_read_neighbors, "reopen": i_reopen,
    "cal_neighbors": i_cal_neighbors, "VolumeMatrix": i_volume_matrix, "remove_pbc": i_remove_pbc,
    "time_average": i_time_average, "spatial_average": i_spatial_average, "gaussian_blurring": i_gaussian_blurring,
    "triangle_area": i_triangle_area, "moment_of_inertia": i_moment_of_inertia, "Filon_COS": i_filon,
    "lines_intersection": i_lines_intersection, "LineWithinSquare": i_line_within_square,
    "cage_relative": i_cage_relative, "s2_integral": i_s2_integral, "grid_gaussian": i_grid_gaussian,
    "choosewavevector": i_choosewavevector, "sph_harm_l": i_sph_harm, "Wignerindex": i_wigner,
    "write_dump_header": i_write_dump_header, "fits": i_fits, "continuousvector": i_continuousvector,
    "triangle_angle": i_triangle_angle, "indicehis": i_indicehis,
    "gr": c_gr, "gr.getresults": m_gr_getresults, "sq": c_sq, "sq.getresults": m_sq_getresults,
    "boo_3d": c_boo3d, "boo_3d.ql_Ql": m_boo3d_ql, "boo_3d.sij_ql_Ql": m_boo3d_sij, "boo_3d.w_W_cap": m_boo3d_w,
    "boo_3d.spatial_corr": m_boo3d_spatial, "boo_3d.time_corr": m_boo3d_time,
    "boo_2d": c_boo2d, "boo_2d.time_average": m_boo2d_time_average, "boo_2d.spatial_corr": m_boo2d_spatial,
    "boo_2d.time_corr": m_boo2d_time,
    "NematicOrder": c_nematic, "NematicOrder.tensor": m_nematic_tensor, "NematicOrder.spatial_corr": m_nematic_spatial,
    "NematicOrder.time_corr": m_nematic_time,
    "S2": c_s2, "S2.particle_s2": m_s2_particle, "S2.spatial_corr": m_s2_spatial, "S2.time_corr": m_s2_time,
    "Dynamics": c_dyn, "Dynamics.relaxation": m_dyn_relaxation, "Dynamics.sq4": m_dyn_sq4,
    "LogDynamics": c_logdyn, "LogDynamics.relaxation": m_logdyn_relaxation,
    "HessianMatrix": c_hess, "HessianMatrix.diagonalize_hessian": m_hess_diag,
}


# ----------------------------------------------------------------------------
# executing schedules
# ----------------------------------------------------------------------------

WORLDS = {}      # name -> World            (built in the parent before the pool forks)
OBJS = {}        # name -> shared_objects(World)
REG = []         # the registry printed by TLC (list of dicts, index = entry number - 1)


def _digests(Z, objs):
    return [g(Z) for (_n, _o, _t, g) in objs]


def _reachable_arrays(x, out, ids, depth=0):
    """every ndarray (and the id of every container) reachable from x: what the user must NOT overwrite"""
    import pandas as pd
    if id(x) in ids or depth > 4:
        return
    ids.add(id(x))
    if isinstance(x, np.ndarray):
        out.append(x)
        if x.dtype == object and x.size < 4096:
            for y in x.ravel().tolist():
                _reachable_arrays(y, out, ids, depth + 1)
    elif isinstance(x, (pd.DataFrame, pd.Series)):
        try:
            out.append(x.to_numpy(copy=False) if isinstance(x, pd.Series) else x.values)
        except Exception:
            pass
    elif isinstance(x, (list, tuple)):
        for y in x[:4096]:
            _reachable_arrays(y, out, ids, depth + 1)
    elif isinstance(x, dict):
        for y in list(x.values())[:4096]:
            _reachable_arrays(y, out, ids, depth + 1)
    elif hasattr(x, "__dict__") and not isinstance(x, type) and not callable(x):
        for y in list(vars(x).values()):
            _reachable_arrays(y, out, ids, depth + 1)


def scribble(Z, res):
    """Session!Scribble: the user overwrites in place the value a call returned.  Only memory that belongs to
    the result alone is touched: arrays that may share memory with a snapshot array, an array argument or
    anything reachable from an analysis object (a method may legitimately hand out its state) are left alone.
    Returns (arrays overwritten, arrays left alone because they alias a tracked object)."""
    import pandas as pd
    prot, ids = [], set()
    W = Z.W
    for ss in list(W.S.values()) + list(W.ORI.values()):
        if ss is not None:
            _reachable_arrays(ss, prot, ids)
    for a in W.A.values():
        _reachable_arrays(a, prot, ids)
    for o in Z.obj.values():
        _reachable_arrays(o, prot, ids)
    done = alias = 0
    stack, seen = [res], set()
    while stack:
        x = stack.pop()
        if id(x) in seen:
            continue
        seen.add(id(x))
        if isinstance(x, (list, tuple)):
            stack.extend(x)
        elif isinstance(x, dict):
            stack.extend(x.values())
        elif isinstance(x, (pd.DataFrame, pd.Series)):
            if id(x) in ids:
                alias += 1
                continue
            try:
                if isinstance(x, pd.DataFrame):
                    for c in x.columns:
                        if x[c].dtype.kind in "fciu":
                            x[c] = -7
                else:
                    x[:] = -7
                done += 1
            except Exception:
                pass
        elif isinstance(x, np.ndarray):
            if x.dtype == object:
                stack.extend(x.ravel().tolist()[:4096])
            if id(x) in ids or any(np.may_share_memory(x, p) for p in prot):
                alias += 1
                continue
            if x.flags.writeable and x.size and x.dtype.kind in "fciubO":
                x[...] = True if x.dtype.kind == "b" else 7
                done += 1
    return done, alias


def run_session(job):
    """Executes the steps of one schedule literally, in this (freshly forked) process."""
    import tempfile
    W = WORLDS[job["w"]]
    objs = OBJS[job["w"]]
    sdir = tempfile.mkdtemp(prefix="sess_", dir=W.dir)
    os.chdir(sdir)
    warnings.simplefilter("ignore")
    np.seterr(all="ignore")
    try:
        import freud
        freud.parallel.set_num_threads(1)
    except Exception:
        pass
    out = {"sid": job["sid"], "w": job["w"], "calls": []}
    try:
        Z = Sess(W, sdir)
        cur = _digests(Z, objs)
        out["begin"] = cur
        scr = job.get("scr") or [0] * len(job["steps"])
        for (e, s, v), do_scr in zip(job["steps"], scr):
            name = REG[e - 1]["n"]
            before = _digests(Z, objs)
            rec = {"e": e, "s": s, "v": v, "before": before, "err": None}
            t0 = time.time()
            try:
                res, fok = IMPL[name](Z, s, v)
                rec["res"] = dg_deep(res)
                rec["fok"] = 2 if fok is None else (1 if fok else 0)
            except MachineryError:
                raise
            except Exception as ex:      # an exception on a valid input is a finding, not a machinery failure
                rec["err"] = f"{type(ex).__name__}: {str(ex)[:160]}"
                rec["res"] = "EXC:" + type(ex).__name__
                rec["fok"] = 2
                rec["tb"] = traceback.format_exc()[-600:]
            rec["wall"] = round(time.time() - t0, 4)
            rec["after"] = _digests(Z, objs)
            rec["cur"] = [Z.h[1].frame(), Z.h[2].frame()]
            if do_scr and not rec["err"]:
                rec["scr"] = scribble(Z, res)
            out["calls"].append(rec)
            if rec["err"]:
                break
    finally:
        os.chdir("/")
        shutil.rmtree(sdir, ignore_errors=True)
    return out


def _in_child(job):
    """one session per process: module-level state of the library can never leak between sessions"""
    import pickle
    r, w = os.pipe()
    pid = os.fork()
    if pid == 0:
        code = 0
        try:
            os.close(r)
            try:
                res = run_session(job)
            except BaseException:
                res = {"sid": job["sid"], "w": job["w"], "machinery": traceback.format_exc()[-1500:]}
            with os.fdopen(w, "wb") as f:
                pickle.dump(res, f)
        except BaseException:
            code = 1
        finally:
            os._exit(code)
    os.close(w)
    with os.fdopen(r, "rb") as f:
        data = f.read()
    _, status = os.waitpid(pid, 0)
    if not data:
        return {"sid": job["sid"], "w": job["w"], "machinery": f"session process died (status {status})"}
    return pickle.loads(data)


def call_name(e, s, v):
    return f"{REG[e - 1]['n']}[target {s}, variant {v}]"


# ----------------------------------------------------------------------------
# specification side
# ----------------------------------------------------------------------------

def mc_constants(tier, world, mode, impure="none", gen=False):
    return {"Tier": tier, "WorldName": world, "Mode": mode, "Impure": impure, "Gen": gen, "Seed": common.SEED % 1000}


NONVACUOUS = [("alias", "RepeatAgrees"), ("mutate", "InputsUnchanged"), ("mutate", "RepeatAgrees"), ("cache", "RepeatAgrees"),
              ("file", "FileHoldsReturned"), ("state", "StateOnlyByOwner"), ("state", "RepeatAgrees"),
              ("cursor", "CursorOnlyByReader"), ("cursor", "RepeatAgrees")]


def model_phase(chk, tier, worlds):
    """TLC: invariants + emission per world and mode, non-vacuity of every invariant.  Returns {(mode, world): cases}."""
    import concurrent.futures as cf
    jobs = {}
    nsh = 4 if tier == "quick" else common.JOBS

    def gen(world, mode):
        return run_tlc_sharded("MC_Session", dict(constants=mc_constants(tier, world, mode, gen=True),
                                                  invariants=MODEL_INVS + ["Emit"]), nshards=nsh, timeout=7200)

    def imp(kind, inv):
        c = dict(mc_constants("quick", "w2", "mini", impure=kind), SHARD=0, NSHARDS=1)
        return run_tlc("MC_Session", dict(constants=c, invariants=[inv]))

    with cf.ThreadPoolExecutor(max_workers=max(1, common.JOBS // nsh)) as ex:
        for w in worlds:
            jobs[("fgf", w)] = ex.submit(gen, w, "fgf")
        for w in worlds:
            if tier == "thorough" or w in ("w2", "w3"):
                jobs[("all3", w)] = ex.submit(gen, w, "all3")
        for w in worlds:
            if tier == "thorough" or w in ("w2", "w3"):
                jobs[("scr", w)] = ex.submit(gen, w, "scr")
        for kind, inv in NONVACUOUS:
            jobs[("imp", kind, inv)] = ex.submit(imp, kind, inv)
        res = {k: f.result() for k, f in jobs.items()}
    cases = {}
    for k, r in res.items():
        if k[0] == "imp":
            if r.violated != k[2]:
                raise MachineryError(f"non-vacuity: adding the impure action '{k[1]}' to Next should violate {k[2]}, "
                                     f"TLC reported {r.violated!r} {r.error or ''}")
            chk.extra.setdefault("nonvacuity", []).append({"impure_action": k[1], "violates": k[2], "states": r.distinct})
            continue
        require_model_ok(r, f"MC_Session {k}")
        if not r.cases:
            raise MachineryError(f"no schedules emitted for {k}")
        chk.add_tlc(r, f"MC_Session {k[1]} {k[0]}")
        cases[k] = r.cases
    return cases


def get_registry(tier):
    """the registry of entry points and the world descriptors, as Session.tla / MC_Session.tla define them"""
    c = dict(mc_constants(tier, "w2", "registry"), SHARD=0, NSHARDS=1)
    r = run_tlc("MC_Session", dict(constants=c, invariants=["Emit"]))
    require_model_ok(r, "MC_Session registry")
    if len(r.cases) != 1:
        raise MachineryError("registry not printed")
    reg, worlds = r.cases[0]["reg"], r.cases[0]["worlds"]
    names = [e["n"] for e in reg]
    if set(names) != set(IMPL) or len(names) != len(set(names)):
        raise MachineryError(f"registry of Session.tla and the harness differ: {sorted(set(names) ^ set(IMPL))}")
    return reg, worlds


def validate_world(world, header, records, timeout=3600):
    """TraceSession.tla on all sessions of one world; returns (TlcResult, [(record index, clause)], memo size)."""
    import tempfile
    tmp = tempfile.mkdtemp(prefix="verif_trace_")
    try:
        path = os.path.join(tmp, "trace.ndjson")
        with open(path, "w") as f:
            for rec in [header] + records:
                f.write(json.dumps(rec, separators=(",", ":")) + "\n")
        r = run_tlc("TraceSession", dict(invariants=["Report"]), workers=1, timeout=timeout, env={"TRACE_FILE": path})
        if r.violated or r.error or len(r.cases) != 1:
            raise MachineryError(f"trace validation of world {world} failed:\n{r.error or r.violated or r.stdout[-2000:]}")
        rep = r.cases[0]
        if rep["n"] != len(records) + 1:
            raise MachineryError(f"TraceSession consumed {rep['n']} of {len(records) + 1} records")
        return r, [(int(x[0]) - 2, x[1]) for x in rep["rej"]], rep["keys"]
    finally:
        shutil.rmtree(tmp, ignore_errors=True)


# ----------------------------------------------------------------------------
# selection, replay, verdicts
# ----------------------------------------------------------------------------

def select_sessions(tier, cases, rng):
    """quick: every call (entry point x target x variant) of every world at least once as the f of an
    f, g, f schedule - with g the same entry point on the other target where the specification emitted
    one, with g every other entry point of the same analysis object (same family, same target; sample
    trajectories: one of them), and once more with a seeded random g (generated worlds) - plus a seeded
    sample of the general length-3 words and every f, Scribble, f.  thorough: generated worlds: every emitted f, g, f whose g is a first variant (so all
    words f, g of length <= 2 over calls x entry points are prefixes) + 5000 general length-3 words per
    world; sample-trajectory worlds: partner + 3 seeded g per call + 300 general words."""
    chosen = []
    for (mode, w), cs in sorted(cases.items()):
        cs = sorted(cs, key=lambda c: json.dumps(c["word"]))
        heavy = w.startswith("s")
        if mode == "scr":            # every f, Scribble, f
            chosen += cs
            continue
        if mode == "all3":
            k = 160 if tier == "quick" else (300 if heavy else 5000)
            chosen += rng.sample(cs, min(len(cs), k))
            continue
        if tier == "thorough" and not heavy:
            chosen += [c for c in cs if c["word"][1][2] == 0]
            continue
        byf = {}
        for c in cs:
            byf.setdefault(tuple(c["word"][0]), []).append(c)
        for f, lst in sorted(byf.items()):
            partner = [c for c in lst if c["word"][1][0] == f[0] and tuple(c["word"][1]) != f]
            other = [c for c in partner if c["word"][1][1] != f[1]]
            fam = REG[f[0] - 1]["fam"]
            kin = [c for c in lst if fam and c["word"][1][0] != f[0] and REG[c["word"][1][0] - 1]["fam"] == fam
                   and c["word"][1][1] == f[1]]          # g = another method / the constructor of the SAME analysis object
            rest = [c for c in lst if c["word"][1][0] != f[0] and c not in kin]
            pick = []
            if kin:
                pick += kin if (tier == "thorough" or not heavy) else [rng.choice(kin)]
            if other or partner:
                pick.append(rng.choice(other or partner))
            if tier == "thorough":
                pick += rng.sample(rest, min(3, len(rest)))
            elif rest and (not heavy or not pick):
                pick.append(rng.choice(rest))
            if not pick:
                pick.append(rng.choice(lst))
            chosen += pick
    for i, c in enumerate(chosen):
        c["sid"] = i
    return chosen


class Reporter:
    """at most MAXREP violations per (clause, call) are listed with a replay file"""
    MAXREP = 2

    def __init__(self, chk):
        self.chk, self.count = chk, {}

    def violation(self, clause, call, case):
        key = (clause, call)
        self.count[key] = self.count.get(key, 0) + 1
        if self.count[key] <= self.MAXREP:
            self.chk.violation(clause, case, finding_key=f"{clause}@{call}")
        else:
            self.chk.extra["violations_not_listed"] = self.chk.extra.get("violations_not_listed", 0) + 1


def execute(chosen, jobs=None):
    import multiprocessing as mp
    todo = [{"sid": c["sid"], "w": c["w"], "steps": c["steps"], "scr": c.get("scr")} for c in chosen]
    jobs = min(jobs or common.JOBS, max(1, len(todo)))
    if jobs <= 1:
        return [_in_child(j) for j in todo]
    with mp.get_context("fork").Pool(jobs) as pool:
        return pool.map(_in_child, todo, chunksize=1)


def build_traces(chosen, results, rep):
    """direction A comparison (same / cursor / file flags against the schedule the spec printed) and the
    per-world traces for TraceSession (digest classes by first occurrence, delta-encoded vectors)."""
    traces, index = {}, {}
    classes = {}

    def cls(w, d):
        t = classes.setdefault(w, {})
        return t.setdefault(d, len(t) + 1)

    nsteps = 0
    slow = {}
    nscr = [0, 0]
    for case, out in zip(chosen, results):
        w = case["w"]
        if "machinery" in out:
            raise MachineryError(f"session {case['word']} in world {w} failed in the harness:\n{out['machinery']}")
        names = [o[0] for o in OBJS[w]]
        recs = traces.setdefault(w, [])
        idx = index.setdefault(w, [])
        recs.append({"op": "begin", "ver": [cls(w, d) for d in out["begin"]]})
        idx.append((case, None))
        prev = out["begin"]
        okA = True
        for i, c in enumerate(out["calls"]):
            nsteps += 1
            call = call_name(c["e"], c["s"], c["v"])
            slow[(w, call)] = max(slow.get((w, call), 0.0), c["wall"])
            info = {"world": w, "word": case["word"], "steps": case["steps"], "scr": case.get("scr"), "step": i + 1, "call": call}
            d0 = [[j + 1, cls(w, b)] for j, (a, b) in enumerate(zip(prev, c["before"])) if a != b]
            d1 = [[j + 1, cls(w, b)] for j, (a, b) in enumerate(zip(c["before"], c["after"])) if a != b]
            recs.append({"op": "call", "e": c["e"], "s": c["s"], "v": c["v"], "d0": d0, "d1": d1, "res": cls(w, "r" + c["res"]),
                         "err": 1 if c["err"] else 0, "fok": c["fok"], "cur": c["cur"]})
            idx.append((case, i))
            if "scr" in c:
                recs.append({"op": "scribble"})
                idx.append((case, i))
                nscr[0] += c["scr"][0]
                nscr[1] += c["scr"][1]
            prev = c["after"]
            # ---- direction A: the schedule as the specification printed it
            if c["err"]:
                rep.violation("raises:" + c["err"].split(":")[0], call, dict(info, error=c["err"], traceback=c.get("tb", "")))
                okA = False
                break
            j = case["same"][i]
            if j and out["calls"][j - 1]["res"] != c["res"]:
                rep.violation("A:RepeatDiffers", call, dict(info, same_identity_as_step=j, note="result digests differ"))
                okA = False
            if c["cur"] != case["cur"][i]:
                rep.violation("A:CursorMoved", call, dict(info, expected_frames_consumed=case["cur"][i], observed=c["cur"]))
                okA = False
            if (case["wr"][i] == 1) != (c["fok"] != 2):
                raise MachineryError(f"{call}: the specification says the step writes a file = {case['wr'][i]}, harness fok = {c['fok']}")
            if c["fok"] == 0:
                rep.violation("A:FileDiffers", call, dict(info, note="output file does not hold the returned value to the written precision"))
                okA = False
        case["_okA"] = okA
    rep.chk.extra["scribbled_result_arrays"] = {"overwritten": nscr[0], "left_alone_aliasing_tracked_object": nscr[1]}
    rep.chk.extra["slowest_calls_s"] = {f"{k[0]}:{k[1]}": v for k, v in sorted(slow.items(), key=lambda kv: -kv[1])[:12]}
    return traces, index, nsteps


def validate_chunks(w, header, recs, limit=60000):
    """one TLC run per world (memo shared by all its sessions); very long traces (thorough) are cut at session
    boundaries into chunks of at most `limit` records, each with its own memo"""
    if len(recs) <= limit:
        return validate_world(w, header, recs)
    cuts, start = [], 0
    begins = [i for i, r in enumerate(recs) if r["op"] == "begin"] + [len(recs)]
    for b in begins[1:]:
        if b - start > limit:
            last = max(x for x in begins if start < x <= start + limit)
            cuts.append((start, last))
            start = last
    cuts.append((start, len(recs)))
    res, rejects, keys = common.TlcResult(), [], 0
    for (a, b) in cuts:
        r, rej, k = validate_world(f"{w}[{a}:{b}]", header, recs[a:b])
        res.merge(r)
        rejects += [(a + i, c) for i, c in rej]
        keys = max(keys, k)
    return res, rejects, keys


def corrupt_one_field(w, header, recs, skip_sessions=()):
    """Self-test of the trace specification: five single-field corruptions of the recorded trace of one world
    (each in a different session) must be rejected at exactly that record, by the expected clause."""
    import copy
    recs = copy.deepcopy(recs)
    names, owner, ot = header["names"], header["owner"], header["ot"]
    top = 1 + max([r["res"] for r in recs if r["op"] == "call"] + [0])
    sess, want, used, seen = 0, {}, set(), set()
    todo = ["RepeatDiffers", "InputModified", "FileDiffers", "CursorMoved", "StateModified"]
    for i, r in enumerate(recs):
        if r["op"] == "begin":
            sess += 1
            continue
        if r["op"] != "call":
            continue
        role = REG[r["e"] - 1]["role"]
        key = (r["e"], r["s"], r["v"])
        if sess in used or sess in skip_sessions or r["err"] or (r["d1"] and role not in ("ctor", "setter")):
            continue            # the rest of a corrupted session is skipped by the specification; a session the
                                # specification rejects uncorrupted (a library violation) cannot serve the self-test
        kind = None
        if "RepeatDiffers" in todo and role == "fn" and key in seen:
            kind, r["res"] = "RepeatDiffers", top
            clause = "RepeatDiffers"
        elif "InputModified" in todo and role == "fn":
            j = next(k for k, nm in enumerate(names) if nm.endswith(".positions") and ot[k] == r["s"])
            kind, r["d1"] = "InputModified", [[j + 1, top]]
            clause = "InputModified:" + names[j]
        elif "FileDiffers" in todo and r["fok"] == 1:
            kind, r["fok"] = "FileDiffers", 0
            clause = "FileDiffers"
        elif "CursorMoved" in todo and role == "fn":
            kind, r["cur"] = "CursorMoved", [r["cur"][0], r["cur"][1] + 1]
            clause = "CursorMoved"
        elif "StateModified" in todo and role == "method":
            fam = REG[r["e"] - 1]["fam"]
            j = next(k for k in range(len(names)) if owner[k] == fam and ot[k] == r["s"])
            kind, r["d1"] = "StateModified", [[j + 1, top]]
            clause = "StateModified:" + names[j]
        if role == "fn" and not kind:
            seen.add(key)
        if kind:
            todo.remove(kind)
            used.add(sess)
            want[i] = clause
        if not todo:
            break
    if todo:
        raise MachineryError(f"corrupt-one-field: no record found for {todo}")
    r, rejects, _ = validate_world(w + " (corrupted)", header, recs)
    got = dict(rejects)
    for i, clause in want.items():
        if got.get(i) != clause:
            raise MachineryError(f"corrupt-one-field: record {i} corrupted for {clause!r}, TraceSession said {got.get(i)!r}")
    return r, sorted(want.values())


def header_record(w):
    W = WORLDS[w]
    d = world_descriptor(W)
    objs = OBJS[w]
    return {"op": "world", "dim": d["dim"], "T": d["T"], "lin": [int(x) for x in d["lin"]], "ori": [int(x) for x in d["ori"]],
            "heavy": int(d["heavy"]), "names": [o[0] for o in objs], "owner": [o[1] for o in objs], "ot": [o[2] for o in objs]}


def setup(tier, worlds, tmp):
    """registry from the specification; the worlds built here must be the ones MC_Session.tla describes"""
    global REG
    REG, wdesc = get_registry(tier)
    for w in worlds:
        W = BUILDERS[w](tmp, common.SEED)
        d = world_descriptor(W)
        if d != wdesc[w]:
            raise MachineryError(f"world {w}: built {d}, MC_Session.tla describes {wdesc[w]}")
        WORLDS[w] = W
        OBJS[w] = shared_objects(W)


def run(tier, replay=None):
    import tempfile
    common.import_lib()
    import PyMatterSim.static.boo, PyMatterSim.static.vector, PyMatterSim.static.nematic, PyMatterSim.static.pairentropy  # noqa
    import PyMatterSim.static.hessians, PyMatterSim.static.geometric, PyMatterSim.static.shape, PyMatterSim.dynamic.dynamics  # noqa
    import PyMatterSim.neighbors.freud_neighbors, PyMatterSim.utils.fft, PyMatterSim.utils.geometry, PyMatterSim.utils.coarse_graining  # noqa
    import PyMatterSim.utils.fitting, PyMatterSim.neighbors.voropp_neighbors, PyMatterSim.neighbors.calculate_neighbors  # noqa
    chk = Check("C18", tier)
    chk.rule = ("Session.tla is pure by construction; MC_Session (TLC) checks InputsUnchanged, RepeatAgrees, ResultDetermined, "
                "FileHoldsReturned, StateOnlyByOwner, CursorOnlyByReader, PlannedOnly on every call word (all f,g,f over all "
                "entry point x target x variant calls; all words <= 3 over the entry points) and shows each invariant violated "
                "by the impure action it forbids.  A: emitted schedules executed literally against the real code, one fresh "
                "process per session; `same`, cursor and file flags compared.  B: digest classes of every shared array / file / "
                "object state before and after every call, of the result, file-vs-returned check; TraceSession.tla decides "
                "(memo shared across all sessions of a world).  distinct = sessions; all execute at least one library call.")
    chk.assumptions = ["BLAS / OpenMP / freud threads capped at 1 (bitwise repeatability is asserted for single-threaded runs)",
                       "the abstract value of a call is a function of its identity and of the versions of the shared objects",
                       "digest = sha1 of bytes, dtype, shape, strides, writeable flag; results compared bitwise (NaN-safe)",
                       "output files compared with the returned value to the precision the routine writes"]
    worlds = ["w2", "w3", "s2", "s3"]
    tmp = tempfile.mkdtemp(prefix="verif_c18_")
    try:
        if replay:
            case = common.load_replay(replay)["case"]
            w = case["world"]
            setup(tier, [w], tmp)
            out = _in_child({"sid": 0, "w": w, "steps": case["steps"], "scr": case.get("scr")})
            names = [o[0] for o in OBJS[w]]
            print("schedule:", [call_name(*c) for c in case["steps"]])
            for c in out.get("calls", []):
                ch = [names[j] for j, (a, b) in enumerate(zip(c["before"], c["after"])) if a != b]
                print(f"  {call_name(c['e'], c['s'], c['v'])}: result {c['res']} file_ok {c['fok']} handles {c['cur']} "
                      f"changed objects {ch} {c['err'] or ''}")
            print("expected: no shared object changes except state arrays owned by the constructor / setter called; "
                  "equal call identities give equal results; files hold the returned values")
            return 0
        # ---- shared inputs (built once; every session runs in a fork of this process)
        setup(tier, worlds, tmp)
        # ---- the model: invariants on every word, non-vacuity, schedules
        cases = model_phase(chk, tier, worlds)
        chk.exhaustive = True
        chk.extra["schedules_emitted"] = {f"{k[1]}:{k[0]}": len(v) for k, v in cases.items()}
        # ---- direction A + B
        rng = random.Random(common.SEED * 9176 + 18)
        chosen = select_sessions(tier, cases, rng)
        t0 = time.time()
        results = execute(chosen)
        chk.extra["replay_wall_s"] = round(time.time() - t0, 1)
        rep = Reporter(chk)
        traces, index, nsteps = build_traces(chosen, results, rep)
        chk.extra["library_calls"] = nsteps
        import concurrent.futures as cf
        with cf.ThreadPoolExecutor(max_workers=4) as ex:
            vals = {w: ex.submit(validate_chunks, w, header_record(w), recs) for w, recs in traces.items()}
            vals = {w: f.result() for w, f in vals.items()}
        w0 = "w2" if "w2" in traces else sorted(traces)[0]
        # sessions of w0 the specification rejects as recorded (library violations, reported below) are not corrupted
        begins0 = [i for i, r in enumerate(traces[w0]) if r["op"] == "begin"]
        rej_sessions = {sum(1 for b in begins0 if b <= ridx) for ridx, _ in vals[w0][1]}
        try:
            r0, clauses = corrupt_one_field(w0, header_record(w0), traces[w0], rej_sessions)
            chk.add_tlc(r0, f"TraceSession {w0} corrupt-one-field")
            chk.extra["trace_corruptions_rejected"] = clauses
        except MachineryError as e:
            if not vals[w0][1]:
                raise
            # the recorded trace itself is rejected (violations follow): the memo shared by the sessions of a world makes
            # the corrupted copy differ in more than one place, so the self-test is not meaningful on this tree
            chk.extra["trace_corruptions_rejected"] = f"not run: the recorded trace of {w0} is rejected ({e})"
        badcases = set()
        for w, (r, rejects, nkeys) in vals.items():
            chk.add_tlc(r, f"TraceSession {w}")
            chk.extra.setdefault("trace", {})[w] = {"records": len(traces[w]), "call_identities": nkeys, "rejected": len(rejects)}
            for ridx, clause in rejects:
                case, i = index[w][ridx]
                badcases.add(id(case))
                c = case["steps"][i] if i is not None else None
                call = call_name(*c) if c else "begin"
                rep.violation("trace:" + clause, call, {"world": w, "word": case["word"], "steps": case["steps"], "scr": case.get("scr"),
                                                        "step": (i + 1) if i is not None else 0, "call": call})
        covered = set()
        for case in chosen:
            for c in case["steps"]:
                covered.add((case["w"], c[0]))
            if case.get("_okA") and id(case) not in badcases:
                chk.ok(("S", case["w"], json.dumps(case["word"])),
                       sample={"world": case["w"], "word": [call_name(*c) for c in case["word"]],
                               "steps": [call_name(*c) for c in case["steps"]], "same": case["same"]})
        if rep.count:
            chk.extra["violation_summary"] = {f"{k[0]} @ {k[1]}": n for k, n in sorted(rep.count.items())}
        chk.extra["entry_points_executed"] = len({e for (_w, e) in covered})
        chk.extra["entry_points_in_registry"] = len(REG)
        if chk.extra["entry_points_executed"] != len(REG):
            missing = [REG[e - 1]["n"] for e in range(1, len(REG) + 1) if e not in {x for (_w, x) in covered}]
            raise MachineryError(f"entry points never executed: {missing}")
        return chk.finish()
    finally:
        shutil.rmtree(tmp, ignore_errors=True)
