"""C18 - purity of the analysis entry points, against spec/Session.tla.

Layer-2 specification Session.tla: a user session over two shared Snapshots objects, the
shared array arguments, the shared neighbour / weight files and a user-owned open neighbour-file
handle.  Actions are the public API calls (registry of entry points in Session.tla: stateless
functions, constructors, state-setting methods, methods, the handle reader).  The specification is
pure by construction; MC_Session.tla (TLC) enumerates the call words (every f,g,f pattern over all
argument variants; all words of length <= 3 over the entry points), checks InputsUnchanged,
RepeatAgrees, FileHoldsReturned, ... on every state, shows that each impure action (MutatingCall,
CachedCall, FileFromOtherObject, StateCorruptingCall, CursorStealingCall) violates its invariant
when added to Next, and emits one schedule per behaviour.

Direction A: every selected schedule is executed against the real code in a freshly forked
process (so module-level state never leaks between sessions); the steps (planned by the spec,
including the constructor / setter steps a call needs) are executed literally; the `same` relation
printed by the spec (step i has the call identity of step j) and the expected cursor are compared.
Direction B: after every call the driver digests every array of both Snapshots objects, every
shared array argument (plain, non-contiguous view + its base, read-only, integer), the shared input
files, the state arrays of the analysis objects and the result (deep, bitwise, NaN-safe) and checks
the requested output files against the returned value to the written precision; TraceSession.tla
replays the records (all sessions of a world in one run, memo shared across sessions) and accepts a
record only if no object changed that the entry point does not own, the result agrees with memo and
the file holds the returned value.  Python only renders inputs, calls the API, digests and parses.
"""
import os

for _k in ("OMP_NUM_THREADS", "OPENBLAS_NUM_THREADS", "MKL_NUM_THREADS", "NUMEXPR_NUM_THREADS",
           "VECLIB_MAXIMUM_THREADS"):
    os.environ[_k] = "1"          # bitwise repeatability must not depend on BLAS threading

import hashlib
import json
import random
import shutil
import struct
import sys
import time
import traceback
import warnings

import numpy as np

from . import common
from .common import Check, MachineryError, run_tlc, run_tlc_sharded, require_model_ok

SAMPLE = os.path.join(common.SRC, "tests", "sample_test_data")
if not os.path.isdir(SAMPLE):
    SAMPLE = "/repo/tests/sample_test_data"

MODEL_INVS = ["TypeOK", "InputsUnchanged", "RepeatAgrees", "ResultDetermined", "FileHoldsReturned",
              "StateOnlyByOwner", "CursorOnlyByReader", "PlannedOnly"]


# ----------------------------------------------------------------------------
# digests (bitwise, NaN-safe)
# ----------------------------------------------------------------------------

def dg_array(a):
    """bytes, dtype, shape, strides, writeable flag of an input array"""
    h = hashlib.sha1()
    h.update(f"{a.dtype.str}|{a.shape}|{a.strides}|{int(a.flags.writeable)}|".encode())
    if a.dtype == object:
        h.update(repr(a.tolist()).encode())
    else:
        h.update(a.tobytes())
    return h.hexdigest()[:16]


def _deep(x, h):
    import pandas as pd
    if x is None:
        h.update(b"N;")
    elif isinstance(x, pd.DataFrame):
        h.update(f"DF{x.shape}|{[str(c) for c in x.columns]}|".encode())
        _deep(np.asarray(x.index), h)
        for c in x.columns:
            _deep(x[c].to_numpy(), h)
    elif isinstance(x, pd.Series):
        h.update(f"SR{x.shape}|{x.name}|".encode())
        _deep(np.asarray(x.index), h)
        _deep(x.to_numpy(), h)
    elif isinstance(x, np.ndarray):
        h.update(f"A{x.dtype.str}|{x.shape}|".encode())
        if x.dtype == object:
            for y in x.ravel().tolist():
                _deep(y, h)
        else:
            h.update(x.tobytes())
    elif isinstance(x, (tuple, list)):
        h.update(f"{type(x).__name__}{len(x)}[".encode())
        for y in x:
            _deep(y, h)
        h.update(b"]")
    elif isinstance(x, dict):
        h.update(f"D{len(x)}{{".encode())
        for k in sorted(x, key=str):
            h.update(str(k).encode() + b":")
            _deep(x[k], h)
        h.update(b"}")
    elif isinstance(x, (bool, np.bool_)):
        h.update(b"b1" if x else b"b0")
    elif isinstance(x, (int, np.integer)):
        h.update(f"i{int(x)};".encode())
    elif isinstance(x, (float, np.floating)):
        h.update(b"f" + struct.pack("<d", float(x)))
    elif isinstance(x, (complex, np.complexfloating)):
        h.update(b"c" + struct.pack("<dd", complex(x).real, complex(x).imag))
    elif isinstance(x, (str, bytes)):
        h.update(b"s" + (x.encode() if isinstance(x, str) else x) + b";")
    else:
        h.update(b"o" + repr(x).encode())


def dg_deep(x):
    h = hashlib.sha1()
    _deep(x, h)
    return h.hexdigest()[:16]


def dg_file(path):
    if not os.path.exists(path):
        return "missing"
    with open(path, "rb") as f:
        return hashlib.sha1(f.read()).hexdigest()[:16]


# ----------------------------------------------------------------------------
# output files vs returned values (to the written precision)
# ----------------------------------------------------------------------------

def _num_close(fv, rv, dec):
    fv = np.asarray(fv)
    rv = np.asarray(rv)
    if fv.shape != rv.shape:
        return False
    if np.iscomplexobj(rv) or np.iscomplexobj(fv):
        return _num_close(np.real(fv), np.real(rv), dec) and _num_close(np.imag(fv), np.imag(rv), dec)
    fv = fv.astype(float)
    rv = rv.astype(float)
    nan_f, nan_r = np.isnan(fv), np.isnan(rv)
    if not np.array_equal(nan_f, nan_r):
        return False
    inf = np.isinf(rv)
    if not np.array_equal(fv[inf], rv[inf]):
        return False
    ok = ~(nan_r | inf)
    if dec is None:
        return bool(np.array_equal(fv[ok], rv[ok]))
    tol = 0.5 * 10.0 ** (-dec)
    return bool(np.all(np.abs(fv[ok] - rv[ok]) <= tol * (1 + 1e-6) + 1e-12 * np.abs(rv[ok])))


def csv_holds(path, df, dec):
    """CSV written by DataFrame.to_csv(float_format='%.<dec>f') (dec None: shortest repr, exact)."""
    import pandas as pd
    if not os.path.exists(path):
        return False
    got = pd.read_csv(path)
    if [str(c) for c in got.columns] != [str(c) for c in df.columns] or len(got) != len(df):
        return False
    return all(_num_close(got[c].to_numpy(), df[c].to_numpy(), dec) for c in got.columns)


def npy_holds(path, arr):
    if not os.path.exists(path):
        return False
    got = np.load(path, allow_pickle=False)
    arr = np.asarray(arr)
    return got.dtype == arr.dtype and got.shape == arr.shape and got.tobytes() == arr.tobytes()


def txt_holds(path, arr, dec, skiprows=0):
    if not os.path.exists(path):
        return False
    got = np.loadtxt(path, skiprows=skiprows, ndmin=2)
    arr = np.asarray(arr)
    if arr.ndim == 1:
        arr = arr[:, None]
    return _num_close(got, arr, dec)


# ----------------------------------------------------------------------------
# worlds: the shared inputs of a session
# ----------------------------------------------------------------------------

def _lattice(rng, n, H, jitter=0.22):
    """n points on a jittered lattice inside the cell with rows H (fractional coordinates -> H)."""
    d = H.shape[0]
    m = int(np.ceil(n ** (1.0 / d)))
    while m ** d < n:
        m += 1
    cells = np.array(np.unravel_index(rng.permutation(m ** d)[:n], (m,) * d)).T.astype(float)
    frac = (cells + 0.5 + rng.uniform(-jitter, jitter, size=cells.shape)) / m
    return frac, frac @ H


def _write_dump(path, frames, types, timesteps, lo, H, cols=None):
    """LAMMPS dump text: orthogonal boxes through the library's own header writer, triclinic boxes in the
    LAMMPS bounding-box convention; coordinates with repr precision."""
    from PyMatterSim.writer.lammps_writer import write_dump_header
    d = H.shape[0]
    tri = bool(np.any(H - np.diag(np.diag(H))))
    with open(path, "w") as f:
        for fi, (t, pos) in enumerate(zip(timesteps, frames)):
            n = len(types)
            if not tri:
                bounds = np.c_[lo, lo + np.diag(H)]
                hdr = write_dump_header(int(t), n, bounds, addson=" ".join(cols[0]) if cols else "")
                f.write(hdr)
            else:
                xy = H[1, 0]
                xz = H[2, 0] if d == 3 else 0.0
                yz = H[2, 1] if d == 3 else 0.0
                xlo, ylo = lo[0], lo[1]
                xhi, yhi = xlo + H[0, 0], ylo + H[1, 1]
                zlo, zhi = (lo[2], lo[2] + H[2, 2]) if d == 3 else (-0.5, 0.5)
                f.write(f"ITEM: TIMESTEP\n{int(t)}\nITEM: NUMBER OF ATOMS\n{n}\nITEM: BOX BOUNDS xy xz yz pp pp pp\n")
                f.write(f"{xlo + min(0.0, xy, xz, xy + xz)!r} {xhi + max(0.0, xy, xz, xy + xz)!r} {xy!r}\n")
                f.write(f"{ylo + min(0.0, yz)!r} {yhi + max(0.0, yz)!r} {xz!r}\n")
                f.write(f"{zlo!r} {zhi!r} {yz!r}\n")
                f.write("ITEM: ATOMS id type " + " ".join("xyz"[:d]) + (" " + " ".join(cols[0]) if cols else "") + "\n")
            for i in range(n):
                row = [str(i + 1), str(int(types[i]))] + [repr(float(x)) for x in pos[i]]
                if cols:
                    row += [repr(float(x)) for x in cols[1][fi][i]]
                f.write(" ".join(row) + "\n")


class Obj:
    """A shared object of the session: label, kind, digest function, owner family ("" = nobody may change it)."""
    __slots__ = ("name", "get", "owner")

    def __init__(self, name, get, owner=""):
        self.name, self.get, self.owner = name, get, owner


class World:
    """Two shared Snapshots objects + array arguments + neighbour / weight files, built once in the
    parent process (the sessions run in forked children, so every session starts from identical bits)."""

    def __init__(self, name, dim, tmp, seed):
        self.name, self.dim, self.dir = name, dim, os.path.join(tmp, name)
        os.makedirs(self.dir, exist_ok=True)
        self.S = {}        # target -> Snapshots
        self.ORI = {}      # target -> orientation Snapshots (2-D worlds)
        self.T = {}
        self.lin = {}
        self.K = {}
        self.nbr = {}      # target -> neighbour file
        self.wts = {}      # target -> weight file
        self.nnb = {}      # neighbours per particle in the shared file
        self.A = {}        # (name, target) -> array argument
        self.heavy = False
        self.rng = np.random.default_rng(1000 * seed + sum(map(ord, name)))

    # ---- array arguments and flavours
    def add(self, name, s, arr, view=False, ro=False):
        arr = np.array(arr)
        if view:            # non-contiguous view of a larger base array (the base is a shared object too)
            base = np.zeros(arr.shape[:-1] + (2 * arr.shape[-1] + 1,), dtype=arr.dtype)
            base[..., 1::2] = arr
            self.A[(name + "@base", s)] = base
            arr = base[..., 1::2]
            assert not arr.flags.c_contiguous or arr.size <= 1
        if ro:
            arr.setflags(write=False)
        self.A[(name, s)] = arr
        return arr

    def a(self, name, s):
        return self.A[(name, s)]

    def flavours(self, name, s, arr, kinds="pvr"):
        """register plain / view / read-only copies of the same values: name, name_v, name_r"""
        if "p" in kinds:
            self.add(name, s, arr)
        if "v" in kinds:
            self.add(name + "_v", s, arr, view=True)
        if "r" in kinds:
            self.add(name + "_r", s, arr, ro=True)

    def fl(self, name, s, v):
        """argument `name` in the flavour a call variant asks for: 0 plain, 1 view, 2 read-only (falls back to plain)"""
        for nm in ((name, name + "_v", name + "_r")[v % 3], name):
            if (nm, s) in self.A:
                return self.A[(nm, s)]
        raise KeyError(name)


def _read(path, ndim, vec=None):
    from PyMatterSim.reader.dump_reader import DumpReader
    from PyMatterSim.reader.reader_utils import DumpFileType
    if vec:
        rd = DumpReader(path, ndim=ndim, filetype=DumpFileType.LAMMPSVECTOR, columnsids=vec)
    else:
        rd = DumpReader(path, ndim=ndim)
    rd.read_onefile()
    return rd.snapshots


def _head(snaps, k):
    from PyMatterSim.reader.reader_utils import Snapshots
    k = min(k, snaps.nsnapshots)
    return Snapshots(nsnapshots=k, snapshots=list(snaps.snapshots[:k]))
