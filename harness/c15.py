"""C15 — vector-field measures (PyMatterSim.static.vector) against spec/VectorField.tla.

Direction A: TLC checks the clauses of C15 as invariants on every input of the five
MC_VectorField sub-models (prq / divcurl / vib / decomp / corr) and prints, per state, the
input with the exact expectation (rationals, Gaussian rationals as Real terms).  Every case
is replayed into the public functions participation_ratio, local_vector_alignment,
phase_quotient, divergence_curl, vibrability, vector_decomposition_sq, vector_fft_corr.
Direction B: seeded random larger inputs (N up to 40, two-digit ids, decimal positions,
random triclinic cells, grid divisions M in {3,4,5,6,8}, wave vectors beyond +-2) are run
through the real code; TraceVectorField.tla re-derives the expectation of every record
(exactly, or as a cyclotomic Real term) and the harness compares.

Python here only renders inputs (arrays, snapshot objects, neighbour files), calls the API,
evaluates Real terms and compares.  Rendering classes: the same abstract field is handed over as a plain
float64, read-only, strided, integer-dtype or Fortran-order array (render / variant_of); neighbour
files are written with the rows in the order the specification states (VectorField!NlRows).
"""
import concurrent.futures as cf
import json
import math
import os
import random
import shutil
import warnings
import zlib

import numpy as np

from . import common
from .common import Check, MachineryError, run_tlc_sharded, require_model_ok
from .realeval import ev, close

INVS = {
    "prq": ["InvPRInRange", "InvPRScaleInvariant", "InvPRExtremes", "InvPQInRange", "InvPQExtremes", "InvAlignUniform", "InvRowOrder"],
    "divcurl": ["InvNoTie", "InvFastImage", "InvLinearField", "InvDivCurlShift", "InvRowOrder"],
    "vib": ["InvVibSumRule", "InvVibFreqScaling", "InvVibSignInvariant", "InvVibIsLiteral"],
    "decomp": ["InvLParallelQ", "InvTOrthogonalQ", "InvPartsAddUp", "InvSqSplits", "InvMinusQ"],
    "corr": ["InvCorrSplits", "InvCorrLagZero"],
}
SHARDS = {"quick": {"prq": 1, "divcurl": 3, "vib": 1, "decomp": 5, "corr": 2},
          "thorough": {"prq": 4, "divcurl": 8, "vib": 2, "decomp": 16, "corr": 8}}

# tolerances: vector_decomposition_sq rounds FFT, q and S to 1e-8 and derives L/T from the
# rounded values; vector_fft_corr divides rounded quantities and rounds again
TOL_DEC = dict(atol=2e-6, rtol=2e-6)
TOL_COR = dict(atol=2e-6, rtol=2e-6)


# --------------------------------------------------------------------------
# rendering of abstract inputs
# --------------------------------------------------------------------------

def write_nl(path, nl, frames=1, rows=None):
    """nl[i] = listed ids of particle i+1, written in ascending id order; or rows = [{"id", "list"}, ...]
    as stated by the specification (VectorField!NlRows): rows in any order, the id column decides"""
    if rows is None:
        rows = [{"id": i + 1, "list": row} for i, row in enumerate(nl)]
    with open(path, "w") as f:
        for _ in range(frames):
            f.write("id     cn     neighborlist\n")
            for r in rows:
                f.write(f"{r['id']} {len(r['list'])} " + " ".join(str(j) for j in r["list"]) + "\n")


VARIANTS = ("float64", "readonly", "strided", "int-or-fortran")


def variant_of(case, salt=0):
    """rendering class of the arrays handed to the library (a deterministic function of the case)"""
    key = json.dumps([case.get("id"), case.get("e") or case.get("u") or case.get("om") or case.get("cloud")
                      or case.get("fr") or case.get("pos"), salt])
    return zlib.crc32(key.encode()) % 4


def render(a, scale, variant):
    """the integer array a / scale as a numpy array of one of four kinds: plain float64, read-only float64,
    a non-contiguous (strided) view, integer dtype (when scale = 1; Fortran order otherwise).  The value is
    the same in every kind; only the representation differs."""
    ai = np.array(a)
    x = np.array(a, dtype=float) / scale
    if variant == 1:
        x.setflags(write=False)
        return x
    if variant == 2:
        big = np.full(tuple(2 * n for n in x.shape), 7.25)
        sl = tuple(slice(None, None, 2) for _ in x.shape)
        big[sl] = x
        return big[sl]
    if variant == 3:
        if scale == 1 and np.issubdtype(ai.dtype, np.integer):
            # the narrowest signed dtype in which every component and every product of two components is exact
            # (+-1 spins as int8, lattice displacements as int16): only sums can exceed it
            m = int(np.max(np.abs(ai))) if ai.size else 0
            for dt, lim in ((np.int8, 11), (np.int16, 181), (np.int32, 46340)):
                if m <= lim and ai.size % 3 != 2:
                    return ai.astype(dt)
            return ai.astype(np.int64 if ai.size % 2 else np.int32)
        return np.asfortranarray(x)
    return x


def snapshot(lib, positions, hmatrix, timestep=0, types=None):
    from PyMatterSim.reader.reader_utils import SingleSnapshot
    positions = np.array(positions, dtype=float)
    h = np.array(hmatrix, dtype=float)
    n, d = positions.shape
    L = np.diag(h).copy()
    bounds = np.column_stack((np.zeros(d), L))
    return SingleSnapshot(timestep=timestep, nparticle=n,
                          particle_type=np.ones(n, dtype=int) if types is None else np.array(types),
                          positions=positions, boxlength=L, boxbounds=bounds, realbounds=bounds.copy(), hmatrix=h)


class _Sink:
    """collects would-be violations instead of recording them (used to try both
    sign conventions of the Fourier transform)"""

    def __init__(self):
        self.items = []

    def violation(self, clause, case, finding_key=None):
        self.items.append((clause, case))


def _cmp(chk, clause, case_id, obs, term, where, tol=None, extra=None):
    """compare one observed number with one Real term; returns True when equal"""
    exp = ev(term)
    try:
        good = close(obs, exp, **(tol or {}))
    except TypeError:
        good = False
    if not good:
        info = {"where": where, "observed": repr(obs), "expected": repr(exp), "expected_term": term}
        if extra:
            info.update(extra)
        chk.violation(clause, {**case_id, **info})
    return good


def _call(chk, clause, case_id, fn, *a, **k):
    """call the library; an exception on a valid input is a violation"""
    try:
        with warnings.catch_warnings():
            warnings.simplefilter("ignore")
            return True, fn(*a, **k)
    except Exception as e:  # noqa
        chk.violation(f"raises:{type(e).__name__}", {**case_id, "clause": clause, "error": str(e)[:300]})
        return False, None


# --------------------------------------------------------------------------
# replay of the five case kinds (direction A and B share these)
# --------------------------------------------------------------------------

def _count_variant(chk, var, rows=None):
    k = "inputs_rendered_as_" + VARIANTS[var]
    chk.extra[k] = chk.extra.get(k, 0) + 1
    if rows is not None and [r["id"] for r in rows] != sorted(r["id"] for r in rows):
        chk.extra["neighbour_files_with_rows_out_of_id_order"] = chk.extra.get("neighbour_files_with_rows_out_of_id_order", 0) + 1


def replay_prq(chk, V, case, tmp, tag="A"):
    cid = case
    var = variant_of(case)
    vec = np.array(case["e"], dtype=float) / case["S"]
    mk = lambda: render(case["e"], case["S"], var)      # a fresh array of the case's rendering class per call
    nlf = os.path.join(tmp, "nl.dat")
    write_nl(nlf, case["nl"], rows=case.get("rows"))
    good = True
    ok_, pr = _call(chk, "ParticipationRatio", cid, V.participation_ratio, mk())
    if not ok_:
        return
    good &= _cmp(chk, "ParticipationRatio", cid, float(pr), case["pr"], "PR")
    # scale invariance on the code itself (model invariant InvPRScaleInvariant)
    ok_, pr2 = _call(chk, "PRScaleInvariant", cid, V.participation_ratio, vec * -3.5)
    if ok_:
        good &= _cmp(chk, "PRScaleInvariant", cid, float(pr2), case["pr"], "PR(-3.5 e)")
    ok_, al = _call(chk, "Alignment", cid, V.local_vector_alignment, mk(), nlf)
    if not ok_:
        return
    al = np.asarray(al)
    if al.shape != (len(case["e"]),):
        chk.violation("Alignment:shape", {**cid, "shape": list(al.shape)})
        return
    for i, t in enumerate(case["align"]):
        if not _cmp(chk, "Alignment", cid, float(al[i]), t, f"align[{i}]"):
            good = False
            break
    if case["pq"] == "undef":
        chk.tie()      # 0/0: outside the asserted scope
    else:
        ok_, pq = _call(chk, "PhaseQuotient", cid, V.phase_quotient, mk(), nlf)
        if not ok_:
            return
        good &= _cmp(chk, "PhaseQuotient", cid, float(pq), case["pq"], "PQ")
        if not (-1 - 1e-12 <= float(pq) <= 1 + 1e-12):
            chk.violation("PQInRange", {**cid, "observed": float(pq)})
            good = False
    if good:
        _count_variant(chk, var, case.get("rows"))
        chk.ok((tag, "prq", case["id"], str(case["e"]), str(case["nl"])),
               sample={"kind": "prq", "e": case["e"], "nl": case["nl"], "S": case["S"], "PR": case["pr"], "PQ": case["pq"]})


def replay_divcurl(chk, V, case, tmp, tag="A"):
    cid = case
    S, SU, d = case["S"], case["SU"], case["d"]
    snap = snapshot(None, np.array(case["pos"], dtype=float) / S, np.array(case["H"], dtype=float) / S)
    var = variant_of(case)
    u = render(case["u"], SU, var)
    nlf = os.path.join(tmp, "nl.dat")
    write_nl(nlf, case["nl"], rows=case.get("rows"))
    ppp = np.array(case["ppp"])
    if var == 1:
        ppp.setflags(write=False)
    ok_, res = _call(chk, "DivergenceCurl", cid, V.divergence_curl, snap, u, ppp, nlf)
    if not ok_:
        return
    if d == 2:
        div, curl = np.asarray(res), None
    else:
        if not (isinstance(res, tuple) and len(res) == 2):
            chk.violation("DivergenceCurl:shape", {**cid, "type": str(type(res))})
            return
        div, curl = np.asarray(res[0]), np.asarray(res[1])
    n = len(case["pos"])
    if div.shape != (n,) or (curl is not None and curl.shape != (n, 3)):
        chk.violation("DivergenceCurl:shape", {**cid, "div_shape": list(div.shape)})
        return
    for i in range(n):
        if not _cmp(chk, "Divergence", cid, float(div[i]), case["div"][i], f"div[{i}]"):
            return
        if curl is not None:
            for a in range(3):
                if not _cmp(chk, "Curl", cid, float(curl[i, a]), case["curl"][i][a], f"curl[{i}][{a}]"):
                    return
    _count_variant(chk, var, case.get("rows"))
    chk.ok((tag, "divcurl", case["id"], str(case["pos"]), str(case["u"]), str(case["nl"]), str(case["ppp"])),
           sample={"kind": "divcurl", "H": case["H"], "ppp": case["ppp"], "pos": case["pos"], "u": case["u"],
                   "nl": case["nl"], "div": case["div"]})


def replay_vib(chk, V, case, tmp, tag="A"):
    cid = case
    var = variant_of(case)
    om = render(case["om"], case["SO"], var)
    evs = render(case["ev"], case["S"], var)
    out = os.path.join(tmp, "vib.npy")
    if case["id"] % 2:
        ok_, res = _call(chk, "Vibrability", cid, V.vibrability, om, evs, case["n"], outputfile=out)
    else:          # documented default: no output file
        out = None
        ok_, res = _call(chk, "Vibrability", cid, V.vibrability, om, evs, case["n"])
    if not ok_:
        return
    res = np.asarray(res)
    if res.shape != (case["n"],):
        chk.violation("Vibrability:shape", {**cid, "shape": list(res.shape)})
        return
    for i, t in enumerate(case["vib"]):
        if not _cmp(chk, "Vibrability", cid, float(res[i]), t, f"vib[{i}]"):
            return
    if out and not (os.path.exists(out) and np.array_equal(np.load(out), res)):
        chk.violation("Vibrability:file", cid)
        return
    if out:
        os.unlink(out)
    _count_variant(chk, var)
    if any(o < 0 for o in case["om"]):
        chk.extra["vib_cases_with_negative_frequency_entries"] = chk.extra.get("vib_cases_with_negative_frequency_entries", 0) + 1
    chk.ok((tag, "vib", case["id"]), sample={"kind": "vib", "om": case["om"], "SO": case["SO"], "vib": case["vib"]})


def _check_decomp_frame(chk, cid, df, ave, rows, groups, d, where=""):
    """The property does not fix the sign convention of the transform (the code uses
    exp(-i q.r), docs/vectors.md writes exp(+i q.r)); the specification states the
    code's convention and the complex columns are accepted in either convention,
    consistently for the whole table.  S, S_L, S_T do not depend on it."""
    s1 = _Sink()
    if _check_decomp_frame1(s1, cid, df, ave, rows, groups, d, where, False):
        return True
    s2 = _Sink()
    if _check_decomp_frame1(s2, cid, df, ave, rows, groups, d, where, True):
        chk.extra["decomp_tables_in_conjugate_convention"] = chk.extra.get("decomp_tables_in_conjugate_convention", 0) + 1
        return True
    chk.violation(*s1.items[0])
    return False


def _check_decomp_frame1(chk, cid, df, ave, rows, groups, d, where, cj):
    """df / ave returned by vector_decomposition_sq vs the spec's rows / group means"""
    def cx(z):
        z = complex(z)
        return z.conjugate() if cj else z
    need = [f"q{k}" for k in range(d)] + ["q", "Sq"] + [f"FFT{k}" for k in range(d)] + \
           [f"T_FFT{k}" for k in range(d)] + ["Sq_T"] + [f"L_FFT{k}" for k in range(d)] + ["Sq_L"]
    miss = [c for c in need if c not in df.columns]
    if miss or len(df) != len(rows):
        chk.violation("Decomposition:columns", {**cid, "missing": miss, "rows": len(df)})
        return False
    col = {c: df[c].values for c in need}
    for x, row in enumerate(rows):
        ex = {"q_n": row["n"], "row": x}
        for k in range(d):
            if not _cmp(chk, "Decomposition:qvector", cid, float(col[f"q{k}"][x]), row["qk"][k], f"{where}q{k}", TOL_DEC, ex):
                return False
        if not _cmp(chk, "Decomposition:qnorm", cid, float(col["q"][x]), row["q"], f"{where}q", TOL_DEC, ex):
            return False
        for k in range(d):
            if not _cmp(chk, "Decomposition:FFT", cid, cx(col[f"FFT{k}"][x]), row["fft"][k], f"{where}FFT{k}", TOL_DEC, ex):
                return False
            if not _cmp(chk, "LongitudinalPart", cid, cx(col[f"L_FFT{k}"][x]), row["lfft"][k], f"{where}L_FFT{k}", TOL_DEC, ex):
                return False
            if not _cmp(chk, "TransversePart", cid, cx(col[f"T_FFT{k}"][x]), row["tfft"][k], f"{where}T_FFT{k}", TOL_DEC, ex):
                return False
        if not _cmp(chk, "Sq", cid, float(col["Sq"][x]), row["sq"], f"{where}Sq", TOL_DEC, ex):
            return False
        if not _cmp(chk, "Sq_L", cid, float(col["Sq_L"][x]), row["sql"], f"{where}Sq_L", TOL_DEC, ex):
            return False
        if not _cmp(chk, "Sq_T", cid, float(col["Sq_T"][x]), row["sqt"], f"{where}Sq_T", TOL_DEC, ex):
            return False
    if groups is not None:
        if list(ave.columns) != ["q", "Sq", "Sq_T", "Sq_L"] or len(ave) != len(groups):
            chk.violation("Decomposition:groups", {**cid, "columns": list(ave.columns), "n_groups_obs": len(ave),
                                                   "n_groups_exp": len(groups)})
            return False
        for g, grp in enumerate(groups):
            for name, key in (("q", "q"), ("Sq", "sq"), ("Sq_T", "sqt"), ("Sq_L", "sql")):
                if not _cmp(chk, "Decomposition:groupmean", cid, float(ave[name].values[g]), grp[key],
                            f"{where}ave[{g}].{name}", TOL_DEC):
                    return False
    return True


def replay_decomp(chk, V, case, tmp, tag="A"):
    cid = case
    M = case.get("M", 4)
    d = case["d"]
    L = np.array(case["L"], dtype=float)
    pos = np.array(case["pm"], dtype=float) * L[None, :] / M
    snap = snapshot(None, pos, np.diag(L))
    var = variant_of(case)
    vec = render(case["e"], case["S"], var)
    qv = np.array([r["n"] for r in case["rows"]], dtype=int)
    if var == 1:
        qv.setflags(write=False)
    elif var == 2:
        qv = np.asfortranarray(qv)
    out = os.path.join(tmp, "dec")
    ok_, res = _call(chk, "Decomposition", cid, V.vector_decomposition_sq, snap, qv, vec, outputfile=out)
    if not ok_:
        return
    df, ave = res
    if not _check_decomp_frame(chk, cid, df, ave, case["rows"], case.get("ave"), d):
        return
    _count_variant(chk, var)
    chk.ok((tag, "decomp", case["id"], str(case["pm"]), str(case["e"]), str(case["L"])),
           sample={"kind": "decomp", "L": case["L"], "pm": case["pm"], "e": case["e"], "n_q": len(case["rows"]),
                   "row0": {k: case["rows"][0][k] for k in ("n", "sq", "sql", "sqt")}})
    chk.extra["wavevectors_checked"] = chk.extra.get("wavevectors_checked", 0) + len(case["rows"])


def replay_corr(chk, V, case, tmp, tag="A"):
    from PyMatterSim.reader.reader_utils import Snapshots
    cid = case
    d = case["d"]
    L = np.array(case["L"], dtype=float)
    T = len(case["ts"])
    snaps = []
    vecs = []
    for f in range(T):
        pos = np.array(case["fr"][f]["m"], dtype=float) * L[None, :] / 4
        snaps.append(snapshot(None, pos, np.diag(L), timestep=case["ts"][f]))
        vecs.append(case["fr"][f]["e"])
    snaps = Snapshots(nsnapshots=T, snapshots=snaps)
    var = variant_of(case)
    vecs = render(vecs, case["S"], var)
    qv = np.array(case["qs"], dtype=int)
    if var == 1:
        qv.setflags(write=False)
    dt = case["dtn"] / case["dtd"]
    out = os.path.join(tmp, "corr")
    if (case["dtn"], case["dtd"]) == (1, 500):      # the documented default time step
        ok_, res = _call(chk, "FFTCorrelation", cid, V.vector_fft_corr, snaps, qv, vecs, outputfile=out)
    else:
        ok_, res = _call(chk, "FFTCorrelation", cid, V.vector_fft_corr, snaps, qv, vecs, dt=dt, outputfile=out)
    if not ok_:
        return
    undefined = 0
    for hdr in ("FFT", "T_FFT", "L_FFT"):
        if hdr not in res:
            chk.violation("FFTCorrelation:keys", {**cid, "keys": list(res.keys())})
            return
        tab = res[hdr].values       # columns: q0..q(d-1), q, t_0 .. t_(T-1)
        if tab.shape != (len(case["qs"]), d + 1 + T):
            chk.violation("FFTCorrelation:shape", {**cid, "header": hdr, "shape": list(tab.shape)})
            return
        tcols = [float(x) for x in list(res[hdr].columns)[d + 1:]]
        for k in range(T):
            if not _cmp(chk, "FFTCorrelation:timeaxis", cid, tcols[k], case["t"][k], f"{hdr}.t[{k}]", TOL_COR):
                return
        for x in range(len(case["qs"])):
            if not _cmp(chk, "FFTCorrelation:q", cid, float(np.real(tab[x, d])), case["qcol"][x], f"{hdr}.q[{x}]", TOL_COR):
                return
            col = case[hdr][x]
            if col == "undef":
                undefined += 1
                continue
            for k in range(T):
                if not _cmp(chk, f"FFTCorrelation:{hdr}", cid, float(np.real(tab[x, d + 1 + k])), col[k],
                            f"{hdr}[q={case['qs'][x]}][lag {k}]", TOL_COR):
                    return
        npy = out + "." + hdr + ".npy"
        if not os.path.exists(npy):
            chk.violation("FFTCorrelation:file", {**cid, "missing": os.path.basename(npy)})
            return
    # spectra file: mean over frames of the per-frame |q|-group means
    sp = out + ".spectra.csv"
    if not os.path.exists(sp):
        chk.violation("FFTCorrelation:file", {**cid, "missing": "spectra.csv"})
        return
    import pandas as pd
    sdf = pd.read_csv(sp)
    if len(sdf) != len(case["spectra"]):
        chk.violation("FFTCorrelation:spectra", {**cid, "rows": len(sdf), "expected_rows": len(case["spectra"])})
        return
    for g, grp in enumerate(case["spectra"]):
        for name, key in (("q", "q"), ("Sq", "sq"), ("Sq_T", "sqt"), ("Sq_L", "sql")):
            if not _cmp(chk, "FFTCorrelation:spectra", cid, float(sdf[name].values[g]), grp[key], f"spectra[{g}].{name}",
                        dict(atol=1e-5, rtol=1e-6)):
                return
    if undefined:
        chk.extra["corr_columns_undefined_0_over_0"] = chk.extra.get("corr_columns_undefined_0_over_0", 0) + undefined
    _count_variant(chk, var)
    chk.ok((tag, "corr", case["id"]),
           sample={"kind": "corr", "L": case["L"], "ts": case["ts"], "linear": case["linear"], "qs": case["qs"],
                   "L_FFT": case["L_FFT"][0]})


REPLAY = {"prq": replay_prq, "divcurl": replay_divcurl, "vib": replay_vib, "decomp": replay_decomp, "corr": replay_corr}


# --------------------------------------------------------------------------
# direction B: random larger inputs, expectation re-derived by TraceVectorField.tla
# --------------------------------------------------------------------------

def _rand_nl(rng, n, kmax):
    nl = []
    for i in range(1, n + 1):
        others = [j for j in range(1, n + 1) if j != i]
        k = rng.randint(1, min(kmax, len(others)))
        nl.append(rng.sample(others, k))
    return nl


def _rand_om(rng, nm):
    """frequency entries of either sign: all positive, all negative or mixed"""
    kind = rng.choice(["pos", "neg", "mixed", "mixed"])
    return [rng.randint(1, 6) * (1 if kind == "pos" else -1 if kind == "neg" else rng.choice([1, -1])) for _ in range(nm)]


def _rand_order(rng, n):
    order = list(range(1, n + 1))
    if rng.random() < 0.6:
        rng.shuffle(order)
    return order


def gen_records(rng, nrec):
    recs = []
    kinds = ["prq", "divcurl", "vib", "decomp"]
    while len(recs) < nrec:
        kind = kinds[len(recs) % len(kinds)]
        d = rng.choice([2, 3])
        if kind == "prq":
            n = rng.randint(6, 40)
            recs.append({"m": "prq", "id": len(recs), "d": d, "S": rng.choice([1, 3, 10, 100]),
                         "e": [[rng.randint(-9, 9) for _ in range(d)] for _ in range(n)],
                         "nl": _rand_nl(rng, n, 14), "order": _rand_order(rng, n)})
        elif kind == "divcurl":
            n = rng.randint(6, 30)
            S = 10
            H = [[0] * d for _ in range(d)]
            tri = rng.random() < 0.6
            for i in range(d):
                H[i][i] = rng.randint(30, 120)
                if tri:
                    for j in range(i):
                        H[i][j] = rng.randint(-H[j][j] // 2, H[j][j] // 2)
            recs.append({"m": "divcurl", "id": len(recs), "d": d, "H": H, "ppp": [rng.randint(0, 1) for _ in range(d)],
                         "S": S, "SU": rng.choice([1, 10]),
                         "pos": [[rng.randint(-40, 160) for _ in range(d)] for _ in range(n)],
                         "u": [[rng.randint(-20, 20) for _ in range(d)] for _ in range(n)],
                         "nl": _rand_nl(rng, n, 12), "A": [], "order": _rand_order(rng, n)})
        elif kind == "vib":
            n = rng.randint(2, 12)
            nm = rng.choice([1, d * n - d, d * n])
            recs.append({"m": "vib", "id": len(recs), "d": d, "n": n, "S": rng.choice([1, 10]), "SO": rng.choice([1, 2]),
                         "om": _rand_om(rng, nm),
                         "ev": [[rng.randint(-5, 5) for _ in range(nm)] for _ in range(d * n)]})
        else:
            n = rng.randint(1, 24)
            M = rng.choice([3, 4, 5, 6, 8])
            L = [rng.choice([2, 3, 4, 5, 6, 7, 9, 10]) for _ in range(d)]
            nq = rng.randint(3, 10)
            qs = []
            while len(qs) < nq:
                q = [rng.randint(-5, 5) for _ in range(d)]
                if any(q):
                    qs.append(q)
            recs.append({"m": "decomp", "id": len(recs), "d": d, "M": M, "L": L, "S": rng.choice([1, 4]),
                         "pm": [[rng.randint(-M, 2 * M - 1) for _ in range(d)] for _ in range(n)],
                         "e": [[rng.randint(-4, 4) for _ in range(d)] for _ in range(n)], "qs": qs})
    return recs


def run_trace(chk, V, recs, tmp):
    """TraceVectorField prints {"rec": k, "exp": {...}} per record; merge and replay."""
    res, rejects = common.validate_trace_all("TraceVectorField", recs)
    chk.add_tlc(res, "TraceVectorField")
    if rejects:
        raise MachineryError(f"TraceVectorField rejected a generated record: {rejects[:3]}")
    exps = {c["rec"]: c["exp"] for c in res.cases if isinstance(c, dict) and "rec" in c}
    if len(exps) != len(recs):
        raise MachineryError(f"TraceVectorField printed {len(exps)} expectations for {len(recs)} records")
    for k, rec in enumerate(recs, start=1):
        exp = exps[k]
        if exp.get("tie"):
            chk.tie()
            continue
        case = dict(rec)
        case.update(exp)
        REPLAY[rec["m"]](chk, V, case, tmp, tag="B")


# --------------------------------------------------------------------------

def _spread_clauses(chk):
    """Check.finish writes at most 20 replay files: put one representative of every distinct
    clause first so that each kind of violation is among them."""
    seen, first, rest = set(), [], []
    for v in chk.violations:
        (rest if v[0] in seen else first).append(v)
        seen.add(v[0])
    chk.violations = first + rest


def run(tier, replay=None):
    chk = Check("C15", tier)
    chk.rule = ("A: TLC checks the C15 clauses (PR range / scale invariance / extremes, PQ range, linear-field div & curl, "
                "vibrability sum rule, L parallel q, T orthogonal q, L+T=F, S=S_L+S_T, correlation split) on every input of "
                "the five MC_VectorField sub-models and prints exact expectations; every case is replayed into the seven "
                "public functions. B: seeded random larger inputs through the real code, expectation per record from "
                "TraceVectorField.tla. Frequency entries of either sign (invariant omega -> -omega), neighbour files with rows "
                "in any order, input arrays as float64 / read-only / strided / integer / Fortran-order. "
                "distinct = distinct inputs whose observable was compared.")
    chk.assumptions = ["float comparison at 1e-9 (2e-6 where the code rounds to 1e-8 and derives further values from the rounded ones)",
                       "phase quotient / normalised correlation with a zero denominator (0/0) are outside the asserted scope",
                       "particles with an empty neighbour list are outside the scope (mean over nothing)",
                       "neighbour lists are abstract inputs (file syntax / reader: property C05)"]
    try:
        common.import_lib()
        import PyMatterSim.static.vector as V
    except MachineryError:
        raise
    except Exception as e:  # the module under test does not import: the routines deliver nothing
        chk.violation(f"raises:{type(e).__name__}", {"import": "PyMatterSim.static.vector", "error": str(e)[:300]})
        return chk.finish()
    tmp = common.scratch_dir("verif_c15_")
    try:
        if replay:
            case = common.load_replay(replay)["case"]
            sink = _Sink()
            sink.extra = {}
            sink.ok = lambda *a, **k: None
            sink.tie = lambda *a, **k: None
            REPLAY[case["m"]](sink, V, case, tmp)
            print(json.dumps({k: v for k, v in case.items() if k not in ("rows", "ave", "where", "observed", "expected",
                                                                          "expected_term")}, indent=None)[:3000])
            for clause, info in sink.items:
                print(f"clause {clause}: {info.get('where')} observed {info.get('observed')} expected {info.get('expected')}")
            print("replay:", "VIOLATION" if sink.items else "ok")
            return 1 if sink.items else 0
        models = list(INVS)

        def tlc(model):
            return model, run_tlc_sharded("MC_VectorField",
                                          dict(constants={"Tier": tier, "Model": model, "Gen": True},
                                               invariants=INVS[model] + ["Emit"]),
                                          nshards=SHARDS[tier][model])
        rng_a = random.Random(common.SEED * 104729 + 15)
        with cf.ThreadPoolExecutor(max_workers=len(models)) as ex:
            futs = [ex.submit(tlc, m) for m in ("decomp", "divcurl", "corr", "prq", "vib")]
            for fut in cf.as_completed(futs):      # replay while the other models are still being checked
                model, r = fut.result()
                require_model_ok(r, f"MC_VectorField {model}")
                chk.add_tlc(r, f"MC_VectorField {model} (invariants + emission)")
                if not r.cases:
                    raise MachineryError(f"no cases emitted for {model}")
                if len(r.cases) != r.distinct:
                    raise MachineryError(f"{model}: {len(r.cases)} cases for {r.distinct} states")
                cases = r.cases
                if tier == "quick" and model == "prq":
                    # quick: every pseudo-random case (id > 0) and a seeded sample of the exhaustive families
                    exh = [c for c in cases if c["id"] == 0]
                    cases = [c for c in cases if c["id"] != 0] + rng_a.sample(exh, min(1200, len(exh)))
                    chk.extra["prq_exhaustive_cases_enumerated"] = len(exh)
                for case in cases:
                    REPLAY[model](chk, V, case, tmp)
        chk.exhaustive = True
        # ---- direction B
        rng = random.Random(common.SEED * 7919 + 15)
        nrec = 240 if tier == "quick" else 3000
        recs = gen_records(rng, nrec)
        for lo in range(0, len(recs), 600):
            run_trace(chk, V, recs[lo:lo + 600], tmp)
        _spread_clauses(chk)
        return chk.finish()
    finally:
        shutil.rmtree(tmp, ignore_errors=True)
