"""C02 — minimum image (PyMatterSim.utils.pbc.remove_pbc) against spec/Cell.tla.

Direction A: TLC checks the six C02 clauses as invariants on every
(cell, mask, displacement) of the scope and emits, per (cell, mask), the
admissible result set of every displacement; the cases are replayed into the
real remove_pbc at several length scales and array shapes.
Direction B: seeded random decimal cells / displacements are run through the
real code, the subtracted lattice coefficients are logged and TraceCell.tla
accepts or rejects each record.
"""
import os
import random

import numpy as np

from . import common
from .common import Check, run_tlc_sharded, require_model_ok, validate_trace_all

INVS = ["InvLattice", "InvHalfCell", "InvUntouched", "InvShift", "InvIdem", "InvShortest", "InvNonEmpty", "InvNearestIsLemmaSet"]


def _near_any(w, imgs, scale, tol=1e-9):
    for im in imgs:
        if np.all(np.abs(w - np.array(im, dtype=float) / scale) <= tol * (1 + np.abs(w))):
            return True
    return False


def replay_case(chk, case, remove_pbc, scales=(1, 4, 10)):
    H = np.array(case["H"], dtype=float)
    ppp = np.array(case["ppp"])
    rs = np.array(case["rs"], dtype=float)
    d = H.shape[0]
    for scale in scales:
        Hs, Rs = H / scale, rs / scale
        before = Rs.copy()
        out = remove_pbc(Rs, Hs, ppp)
        out = np.asarray(out)
        if out.shape != Rs.shape:
            chk.violation("shape", {"H": case["H"], "ppp": case["ppp"], "scale": scale, "obs_shape": list(out.shape)})
            return
        if not np.array_equal(before, Rs):
            chk.violation("InputUnchanged", {"H": case["H"], "ppp": case["ppp"], "scale": scale})
        bad = None
        for i in range(len(rs)):
            if not _near_any(out[i], case["imgs"][i], scale):
                bad = i
                break
        if bad is not None:
            chk.violation("MinImage", {"H": case["H"], "ppp": case["ppp"], "scale": scale, "r": case["rs"][bad],
                                       "admissible": case["imgs"][bad], "observed_scaled": (out[bad] * scale).tolist()})
            return
        # relations on the code's own outputs: idempotence (off ties of the result: all rows
        # whose result is strictly inside the half cell) and lattice-shift invariance
        again = np.asarray(remove_pbc(out, Hs, ppp))
        for i in range(len(rs)):
            if not case["ties"][i] and len(case["imgs"][i]) == 1:
                if not np.allclose(again[i], out[i], atol=1e-9, rtol=0):
                    # result of a non-tie input may itself be on a tie only if |frac| = 1/2, impossible off ties
                    chk.violation("Idempotent", {"H": case["H"], "ppp": case["ppp"], "scale": scale, "r": case["rs"][i]})
                    return
        shift = np.array([(2 if k % 2 == 0 else -1) * ppp[k] for k in range(d)], dtype=float)
        shifted = np.asarray(remove_pbc(Rs + shift @ Hs, Hs, ppp))
        for i in range(len(rs)):
            if not case["ties"][i] and not np.allclose(shifted[i], out[i], atol=1e-9, rtol=0):
                chk.violation("ShiftInvariantOffTies", {"H": case["H"], "ppp": case["ppp"], "scale": scale, "r": case["rs"][i]})
                return
    # the documented default of the mask: all three axes periodic
    if d == 3 and all(int(x) == 1 for x in ppp):
        try:
            dflt = np.asarray(remove_pbc(rs, H), dtype=float)
        except Exception as e:  # noqa
            chk.violation(f"raises:{type(e).__name__}", {"H": case["H"], "ppp": "default", "error": str(e)[:200]})
            return
        for i in range(len(rs)):
            if dflt.shape != rs.shape or not _near_any(dflt[i], case["imgs"][i], 1):
                chk.violation("MinImage:default mask", {"H": case["H"], "ppp": "omitted (documented default: all periodic)", "r": case["rs"][i],
                                                        "admissible": case["imgs"][i]})
                return
    # argument renderings: the grid displacements (and the cell) are integers - passed as integer arrays (site / grid
    # coordinates) the result must still be the minimum image (a real vector, whatever the input dtype)
    for dt, Hd in ((np.int64, float), (np.int32, float), (np.int64, np.int64), (np.int16, float)):
        if np.abs(rs).max() > 30000:
            continue
        try:
            out = np.asarray(remove_pbc(rs.astype(dt), H.astype(Hd), ppp), dtype=float)
        except Exception as e:  # noqa
            chk.violation(f"raises:{type(e).__name__}", {"H": case["H"], "ppp": case["ppp"], "dtype": np.dtype(dt).name})
            return
        for i in range(len(rs)):
            if out.shape != rs.shape or not _near_any(out[i], case["imgs"][i], 1):
                chk.violation("MinImage:integer-dtype argument", {"H": case["H"], "ppp": case["ppp"], "dtype": np.dtype(dt).name,
                                                                  "cell_dtype": np.dtype(Hd).name, "r": case["rs"][i],
                                                                  "admissible": case["imgs"][i],
                                                                  "observed": out[i].tolist() if out.shape == rs.shape else list(out.shape)})
                return
    # (d,) input: one call per a few rows; the abstraction flattens the (1,d) result
    for i in range(0, len(rs), max(1, len(rs) // 7)):
        o = np.asarray(remove_pbc(rs[i], H, ppp)).reshape(-1)
        if o.shape != (d,) or not _near_any(o, case["imgs"][i], 1):
            chk.violation("MinImage(d,)", {"H": case["H"], "ppp": case["ppp"], "r": case["rs"][i], "observed": o.tolist()})
            return
    nties = sum(1 for t in case["ties"] if t)
    chk.skipped_tie += 0  # ties are decided as set membership, not skipped
    chk.ok(("A", str(case["H"]), str(case["ppp"])), nontrivial=True,
           sample={"H": case["H"], "ppp": case["ppp"], "n_displacements": len(rs), "n_ties": nties,
                   "r": case["rs"][len(rs) // 3], "admissible": case["imgs"][len(rs) // 3]})
    chk.extra["displacements_replayed"] = chk.extra.get("displacements_replayed", 0) + len(rs) * len(scales)
    chk.extra["tie_rows_decided_as_sets"] = chk.extra.get("tie_rows_decided_as_sets", 0) + nties


def gen_trace(rng, nrec, remove_pbc):
    """Direction B: random decimal cells; returns (records, contexts)."""
    recs, ctx = [], []
    while len(recs) < nrec:
        d = rng.choice([2, 3])
        S = 100 if d == 2 else 10
        Lmax = 2000 if d == 2 else 300
        if rng.random() < 0.3:     # orthogonal
            H = [[(rng.randint(S, Lmax) if i == j else 0) for j in range(d)] for i in range(d)]
        else:                      # LAMMPS lower-triangular with tilts of either sign
            H = [[0] * d for _ in range(d)]
            for i in range(d):
                H[i][i] = rng.randint(S, Lmax)
                for j in range(i):
                    H[i][j] = rng.randint(-H[j][j] // 2, H[j][j] // 2)
        far = rng.random() < 0.3
        if far:
            # displacements spanning MANY cells (unwrapped coordinates of a long run): image counts around and beyond
            # 127 / 128, 255 / 256 (and 32767 / 32768 in 2-D).  Small cells keep the exact fractional numerators
            # (r Adj(H), summed over d terms) within TLC's 32-bit integers.
            Lf = 100 if d == 2 else 30
            H = [[0] * d for _ in range(d)]
            for i in range(d):
                H[i][i] = rng.randint(Lf // 3, Lf)
                for j in range(i):
                    H[i][j] = rng.randint(-H[j][j] // 2, H[j][j] // 2) if rng.random() < 0.6 else 0
        ppp = [rng.randint(0, 1) for _ in range(d)]
        if far and sum(ppp) == 0:
            ppp[rng.randrange(d)] = 1
        n = rng.randint(1, 50)
        big = far and len(recs) >= nrec // 2 and not any(c.get("rows_in_call", 0) > 10000 for c in ctx)
        if big:
            # scale: ONE call with tens of thousands of displacement rows (all pair vectors of a large system), in an orthogonal
            # and - next time round - a tilted cell; a seeded sample of its rows is recorded
            n = 20000
            if not any(c.get("rows_in_call", 0) > 10000 for c in ctx) and rng.random() < 0.7:
                for i in range(d):
                    for j in range(i):
                        H[i][j] = 0
        R = [[rng.randint(-2 * Lmax, 2 * Lmax) for _ in range(d)] for _ in range(n)]
        if far:
            counts = [127, 128, 129, 255, 256, 257, 300, 1000] + ([32767, 32768, 32769, 40000] if d == 2 else [])
            R = []
            for _ in range(n):
                m = [rng.choice(counts) * rng.choice([-1, 1]) if rng.random() < 0.7 else rng.randint(-3, 3) for _ in range(d)]
                R.append([sum(m[a] * H[a][k] for a in range(d)) + rng.randint(-H[k][k] // 3, H[k][k] // 3) for k in range(d)])
        Hf = np.array(H, dtype=float) / S
        Rf = np.array(R, dtype=float) / S
        out = np.asarray(remove_pbc(Rf, Hf, np.array(ppp)), dtype=float)
        coef = (Rf - out) @ np.linalg.inv(Hf)
        nint = np.rint(coef)
        rows = range(n) if n <= 50 else sorted(rng.sample(range(n), 1500))
        for i in rows:
            fin = bool(np.all(np.isfinite(coef[i])))
            lat = int(fin and np.all(np.abs(coef[i] - nint[i]) <= 1e-7))       # a non-finite result is no lattice translation
            recs.append({"H": H, "ppp": ppp, "r": R[i], "n": [int(x) if fin else 0 for x in nint[i]], "lat": lat})
            ctx.append({"scale": S, "observed": out[i].tolist(), "rows_in_call": n})
            if len(recs) >= nrec:
                break
    return recs, ctx


LEMMAS = ["HalfCell", "NonEmpty", "Characterisation", "AtMostTwo", "ShiftInvariant", "Idempotent", "Shortest"]


def apalache_lemmas(chk):
    """Unbounded (all integers) one-axis lemmas of spec/MinImageLemma.tla, discharged symbolically by Apalache:
    every lemma must hold, the deliberately false HalfCellStrict must be refuted (non-vacuity)."""
    common.apalache_lemmas(chk, "MinImageLemma", LEMMAS, ["HalfCellStrict"])
    chk.assumptions.append("MinImageLemma.tla (Apalache 0.58, SMT over unbounded integers): per-axis half-cell, characterisation, "
                           "at most two members, shift invariance, idempotence and shortest-image lemmas hold for ALL integers; "
                           "trusted: Apalache/Z3 and the Euclidean-division witness f0 chosen in Init")


def run(tier, replay=None):
    common.import_lib()
    from PyMatterSim.utils.pbc import remove_pbc
    chk = Check("C02", tier)
    chk.rule = ("A: TLC enumerates every (cell, mask, displacement) of the MC_Cell scope (invariants = the six C02 clauses), "
                "emits admissible result sets per (cell, mask); each replayed into remove_pbc at 3 length scales, "
                "shapes (n,d) and (d,). B: seeded random decimal cells, coefficients logged, TraceCell.tla decides. "
                "distinct = (cell, mask) pairs / trace records; all are non-trivial (at least one displacement outside the half cell).")
    chk.assumptions = ["float comparison at 1e-9 of values the spec gives exactly",
                       "tie rows (exact half cell) accept either neighbour, as the property excludes ties"]
    if replay:
        case = common.load_replay(replay)["case"]
        print(json_dump(case))
        return 0
    apalache_lemmas(chk)
    # --- model checking of the clauses + emission
    for D in (2, 3):
        r = run_tlc_sharded("MC_Cell", dict(constants={"Tier": tier, "D": D, "Gen": False}, invariants=INVS))
        require_model_ok(r, f"MC_Cell D={D}")
        chk.add_tlc(r, f"MC_Cell D={D} invariants")
        g = run_tlc_sharded("MC_Cell", dict(constants={"Tier": tier, "D": D, "Gen": True}, invariants=["Emit"]))
        require_model_ok(g, f"MC_Cell D={D} gen")
        if not g.cases:
            raise common.MachineryError("no cases emitted")
        for case in g.cases:
            replay_case(chk, case, remove_pbc)
    chk.exhaustive = True
    # --- direction B
    rng = random.Random(common.SEED * 7919 + 2)
    nrec = 3000 if tier == "quick" else 40000
    recs, ctx = gen_trace(rng, nrec, remove_pbc)
    res, rejects = validate_trace_all("TraceCell", recs)
    chk.add_tlc(res, "TraceCell")
    rejected = {i for i, _ in rejects}
    for i, clause in rejects:
        chk.violation("trace:" + clause, {"record": recs[i], **ctx[i]})
    for i, rec in enumerate(recs):
        if i not in rejected:
            chk.ok(("B", i), sample=None)
    chk.samples.append({"trace_record": recs[0]})
    return chk.finish()


def json_dump(x):
    import json
    return json.dumps(x, indent=1)
