"""C01 — LAMMPS dump reading (reader.dump_reader.DumpReader / lammps_reader_helper.read_lammps_wrapper)
against spec/LammpsDump.tla.

TLC explores the reader as a state machine over files produced by the LAMMPS writer convention
(MC_LammpsDump: every ndim x style x cell kind x tilt-sign pattern x origin x line order x trailing
columns x frame count of the scope), checks Parse(Encode(P)) = Meaning(P), frame order, cursor and
wrapping invariants, and prints the files.  The harness renders each file to text (two number
formats), reads it with the real reader, projects every snapshot to integers over the file's
lattice and hands the result back as a trace; TraceLammpsDump.tla carries the file cursor and
accepts or rejects every delivered frame field by field.  Direction B: seeded random larger files
(N <= 30, <= 5 frames, random tilts/origins/orders) through the same trace specification.
"""
import json
import os
import random
import shutil
import tempfile
from fractions import Fraction

import numpy as np

from . import common
from .common import Check, run_tlc_sharded, require_model_ok, validate_trace_all

INVS = ["InvFramesInOrder", "InvCursor", "InvAllFrames", "InvRoundTrip", "InvWrapped", "InvCell", "InvRowwiseAgrees"]


def render_token(tok, fmt):
    if isinstance(tok, str):
        return tok
    n, d = tok
    if d == 1:
        return str(n)
    fr = Fraction(n, d)
    if fmt == "fixed":
        digits = 2 if d in (100, 4, 10, 2) else 6
        s = f"{float(fr):.{digits}f}"
        if Fraction(s) != fr:
            s = repr(float(fr))
        return s
    if fmt == "sci":
        return f"{float(fr):.16e}"
    return repr(float(fr))


def render(lines, fmt):
    return "\n".join(" ".join(render_token(t, fmt) for t in ln) for ln in lines) + "\n"


def project(snap, den):
    """Abstraction function: public fields of a SingleSnapshot as integers over den."""
    exact = [True]

    def q(a):
        a = np.asarray(a, dtype=float) * den
        r = np.rint(a)
        if not np.all(np.abs(a - r) <= 1e-6 * (1 + np.abs(a))):
            exact[0] = False
        return r.astype(np.int64).tolist()

    obs = {
        "ts": int(snap.timestep),
        "n": int(snap.nparticle),
        "types": [int(t) for t in np.asarray(snap.particle_type).tolist()],
        "pos": q(snap.positions),
        "boxlength": q(snap.boxlength),
        "bounds": q(snap.boxbounds),
        "real": [] if snap.realbounds is None else q(snap.realbounds),
        "h": q(snap.hmatrix),
    }
    obs["exact"] = 1 if exact[0] else 0
    return obs


def same_snapshots(a, b):
    if a.nsnapshots != b.nsnapshots:
        return False
    for x, y in zip(a.snapshots, b.snapshots):
        for fld in ("positions", "particle_type", "boxlength", "boxbounds", "hmatrix"):
            if not np.array_equal(getattr(x, fld), getattr(y, fld)):
                return False
        if x.timestep != y.timestep or x.nparticle != y.nparticle:
            return False
    return True


def run_case(case):
    """Reads one emitted file with the real reader.  Returns (session records, violations)."""
    from PyMatterSim.reader.dump_reader import DumpReader
    from PyMatterSim.reader.reader_utils import DumpFileType
    from PyMatterSim.reader.lammps_reader_helper import read_lammps_wrapper
    den = case["den"]
    fmt = ("fixed", "sci", "repr")[case["id"] % 3]
    tmp = tempfile.mkdtemp(prefix="verif_c01_")
    viol = []
    key = case.get("key")
    try:
        fn = os.path.join(tmp, "dump.atom")
        with open(fn, "w") as f:
            f.write(render(case["lines"], fmt))
        sess = [{"op": "open", "lines": case["lines"], "ndim": case["ndim"]}]
        ctx = {"id": case["id"], "ndim": case["ndim"], "format": fmt, "file": render(case["lines"], fmt)[:1500]}
        try:
            rd = DumpReader(fn, ndim=case["ndim"], filetype=DumpFileType.LAMMPS)
            rd.read_onefile()
            snaps = rd.snapshots
            snaps2 = read_lammps_wrapper(fn, case["ndim"])
        except Exception as e:
            viol.append((f"raises:{type(e).__name__}", dict(ctx, error=str(e)[:200]), key))
            return [], viol
        if not same_snapshots(snaps, snaps2):
            viol.append(("DumpReaderEqualsWrapper", ctx, key))
        for s in snaps.snapshots:
            sess.append({"op": "frame", "obs": project(s, den)})
        sess.append({"op": "eof", "count": int(snaps.nsnapshots)})
        if len(snaps.snapshots) != snaps.nsnapshots:
            viol.append(("OneSnapshotPerFrame", ctx, key))
        return [sess], viol
    finally:
        shutil.rmtree(tmp, ignore_errors=True)


def gen_files(rng, n, S=100, SD=16, sizes=None):
    """Direction B: random larger dumps as token lines (the generator only builds the file text;
    what the reader must deliver is derived from the lines by the trace specification).
    sizes: particle numbers of LARGE frames (size-dependent code paths of the reader: block parsing above a
    threshold); such files have 1-2 frames and are decided by the row-wise formulation of the specification."""
    out = []
    for k in range(n if sizes is None else len(sizes)):
        ndim = rng.choice([2, 3])
        style = rng.choice(["x", "xs", "xu"])
        tri = rng.random() < 0.5
        nf = rng.randint(1, 5) if sizes is None else rng.randint(1, 2)
        N = rng.randint(1, 30) if sizes is None else sizes[k]
        extra = rng.randint(0, 2)
        lines = []
        for f in range(nf):
            L = [rng.randint(300, 2500) for _ in range(3)]
            lo = [rng.randint(-1500, 1500) for _ in range(3)]
            if ndim == 2:
                L[2], lo[2] = 100, -50
            xy = xz = yz = 0
            if tri:
                xy = rng.randint(-L[0] // 2, L[0] // 2)
                if ndim == 3:
                    xz = rng.randint(-L[0] // 2, L[0] // 2)
                    yz = rng.randint(-L[1] // 2, L[1] // 2)
            # timesteps: arbitrary, but every third file repeats the previous frame's value now and then (restart / minimise files)
            if f > 0 and k % 3 == 0 and rng.random() < 0.6:
                ts = prev_ts
            else:
                ts = rng.randint(0, 10 ** 7)
            prev_ts = ts
            lines += [["ITEM:", "TIMESTEP"], [[ts, 1]], ["ITEM:", "NUMBER", "OF", "ATOMS"], [[N, 1]]]
            if tri:
                lob = [lo[0] + min(0, xy, xz, xy + xz), lo[1] + min(0, yz), lo[2]]
                hib = [lo[0] + L[0] + max(0, xy, xz, xy + xz), lo[1] + L[1] + max(0, yz), lo[2] + L[2]]
                lines.append(["ITEM:", "BOX", "BOUNDS", "xy", "xz", "yz", "pp", "pp", "pp"])
                for a, t in zip(range(3), (xy, xz, yz)):
                    lines.append([[lob[a], S], [hib[a], S], [t, S]])
            else:
                lines.append(["ITEM:", "BOX", "BOUNDS", "pp", "pp", "pp"])
                for a in range(3):
                    lines.append([[lo[a], S], [lo[a] + L[a], S]])
            names = {"x": ["x", "y", "z"], "xs": ["xs", "ys", "zs"], "xu": ["xu", "yu", "zu"]}[style][:ndim]
            lines.append(["ITEM:", "ATOMS", "id", "type"] + names + ["vx", "vy"][:extra])
            ids = list(range(1, N + 1))
            kind = rng.randint(0, 5) if sizes is None else rng.choice([0, 0, 3, 4])
            if kind <= 2:
                rng.shuffle(ids)
            elif kind == 3 and N > 3:          # first and last line in place, interior shuffled
                mid = ids[1:-1]
                rng.shuffle(mid)
                ids = [ids[0]] + mid + [ids[-1]]
            elif kind == 4:                    # rotated
                r = rng.randint(0, N - 1)
                ids = ids[r:] + ids[:r]
            # kind 5: sorted
            for i in ids:
                row = [[i, 1], [rng.randint(1, 4), 1]]
                for a in range(ndim):
                    if style == "xs":
                        row.append([rng.randint(0, SD - 1), SD])
                    elif style == "xu":
                        row.append([rng.randint(lo[a] - 3 * L[a], lo[a] + 4 * L[a]), S])
                    elif tri:
                        row.append([rng.randint(lo[a], lo[a] + L[a]), S])
                    else:
                        row.append([rng.randint(lo[a] - L[a] + 1, lo[a] + 2 * L[a] - 1), S])
                row += [[rng.randint(-999, 999), S] for _ in range(extra)]
                lines.append(row)
        out.append({"id": (500000 if sizes is None else 600000) + k, "ndim": ndim, "lines": lines, "nframes": nf, "style": style, "tri": int(tri)})
    return out


def finding_key(case):
    """Identifies the input class of a case for the known-findings file (none listed at present)."""
    return None


def validate(chk, sessions, S, SD, label):
    import concurrent.futures as cf
    if not sessions:
        return
    nchunks = min(common.JOBS, max(1, len(sessions) // (1 if label.endswith("large") else 6)))
    chunks = [sessions[i::nchunks] for i in range(nchunks)]

    def one(chunk):
        recs = [r for s in chunk for r in s]
        return recs, validate_trace_all("TraceLammpsDump", recs, constants={"S": S, "SD": SD}, max_rejects=8, session_start=lambda r: r["op"] == "open")

    with cf.ThreadPoolExecutor(max_workers=nchunks) as ex:
        for recs, (res, rejects) in ex.map(one, chunks):
            chk.add_tlc(res, None)
            rej = {}
            for i, clause in rejects:
                j = i
                while recs[j]["op"] != "open":
                    j -= 1
                rej[j] = True
                opened = recs[j]
                big = len(opened["lines"]) > 400
                chk.violation("trace:" + clause, {"ndim": opened["ndim"], "file": render(opened["lines"][:60] if big else opened["lines"], "fixed")[:1200],
                                                  "record": ({"op": recs[i]["op"], "note": f"frame of a file with {len(opened['lines'])} lines"} if big else recs[i]),
                                                  "frame_index": i - j - 1})
            j = None
            for i, rec in enumerate(recs):
                if rec["op"] == "open":
                    j = i
                elif rec["op"] == "frame" and not rej.get(j):
                    chk.ok((label, json.dumps(rec["obs"])[:160]), nontrivial=rec["obs"]["n"] > 0,
                           sample={"frame": rec["obs"], "file_head": render(recs[j]["lines"][:12], "fixed")})


def run(tier, replay=None):
    common.import_lib()
    chk = Check("C01", tier)
    chk.rule = ("TLC explores MC_LammpsDump: 10 692 files = ndim {2,3} x style {x,xs,xu} x {orthogonal, every tilt-sign pattern} x "
                "3 origins x N in 1..3 with all line orders (+ 2 ends-fixed orders for N = 4) x timesteps increasing/repeated/decreasing x 0..2 trailing columns x 1..3 frames, one ReadFrame action per frame; "
                "invariants RoundTrip, FramesInOrder, Cursor, AllFrames, Wrapped, Cell. Emitted files (quick: a seeded ninth; thorough: "
                "all) are rendered in three number formats, read with DumpReader and read_lammps_wrapper, and every delivered "
                "snapshot is validated field by field by TraceLammpsDump.tla, which carries the cursor. B: seeded random files "
                "(N <= 30, <= 5 frames). One evaluation = one delivered frame; non-trivial = at least one atom.")
    chk.assumptions = ["observed floats are projected to the file's lattice (integers over S*SD) with a 1e-6 closeness check",
                       "scaled coordinates are kept in [0,1); wrapped style only in orthogonal cells with excursions < 1 box"]
    if replay:
        print(json.dumps(common.load_replay(replay)["case"], indent=1)[:6000])
        return 0
    # the wrapped-coordinate rule for ALL bounds and coordinates with an excursion below one box length (Apalache)
    common.apalache_lemmas(chk, "BinLemma", ["WrapInside", "WrapByOneBox", "WrapFixesInside"], ["WrapTwoBoxes"])
    samp = 9 if tier == "quick" else 1
    g = run_tlc_sharded("MC_LammpsDump", dict(constants={"Tier": tier, "Gen": True, "SAMPLE": samp, "SALT": common.SEED % samp,
                                                        "S": 100, "SD": 4},
                                              invariants=INVS + ["Emit"], properties=["CursorAdvances"]))
    require_model_ok(g, "MC_LammpsDump")
    chk.add_tlc(g, "MC_LammpsDump")
    if not g.cases:
        raise common.MachineryError("no cases emitted")
    for batch, S, SD, label in ((g.cases, 100, 4, "A"),
                                (gen_files(random.Random(common.SEED * 7919 + 1), 40 if tier == "quick" else 600), 100, 16, "B"),
                                # scale: frames of thousands of atoms (decided row-wise, LammpsDump!WhySnapshotRows)
                                (gen_files(random.Random(common.SEED * 7919 + 2), 0,
                                           sizes=[1500, 12000] if tier == "quick" else [257, 1024, 4097, 10000, 12000, 20000, 33000]),
                                 100, 16, "B-large")):
        for c in batch:
            c["den"] = S * SD
        results = common.pmap(run_case, batch, chunksize=8)
        sessions = []
        for sess, viol in results:
            sessions += sess
            for clause, detail, key in viol:
                chk.violation(clause, detail, finding_key=key)
        validate(chk, sessions, S, SD, label)
    chk.exhaustive = tier == "thorough"
    return chk.finish()
