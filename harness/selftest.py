"""Self-test of the checks (not a manifest command).

./selftest [id-prefix ...]   e.g. ./selftest M02 R02

mutants/mutants.json lists curated edits of the library: mutants (the property's
quick check must exit 1) and behaviour-preserving refactors (must exit 0).  Each
is applied to a scratch copy of /repo/PyMatterSim outside /repo and /verif; the
check runs with PYMATTERSIM_SRC pointing at the copy and VERIF_OUT at a scratch
directory, so neither /repo nor the committed evidence is touched.
Seeded changes under seeded/<id>/patch.diff are run the same way (prefix S).
"""
import json
import os
import shutil
import subprocess
import sys
import tempfile
import time

VERIF = os.path.dirname(os.path.dirname(os.path.abspath(__file__)))


def apply_edit(root, m):
    for e in m["edits"]:
        p = os.path.join(root, e["file"])
        s = open(p).read()
        if s.count(e["old"]) < 1:
            raise SystemExit(f"{m['id']}: pattern not found in {e['file']}: {e['old']!r}")
        s = s.replace(e["old"], e["new"], e.get("count", 1))
        open(p, "w").write(s)


def run_one(m, tier="quick"):
    tmp = tempfile.mkdtemp(prefix="verif_selftest_")
    try:
        src = os.path.join(tmp, "src")
        os.makedirs(src)
        shutil.copytree("/repo/PyMatterSim", os.path.join(src, "PyMatterSim"),
                        ignore=shutil.ignore_patterns("__pycache__"))
        if os.path.isdir("/repo/tests"):
            shutil.copytree("/repo/tests", os.path.join(src, "tests"), ignore=shutil.ignore_patterns("__pycache__"))
        if "patch" in m:
            p = subprocess.run(["patch", "-p1", "-s", "-d", src, "-i", m["patch"]], capture_output=True, text=True)
            if p.returncode != 0:
                return {"id": m["id"], "status": "patch-failed", "detail": p.stdout + p.stderr}
        else:
            apply_edit(src, m)
        out = os.path.join(tmp, "out")
        os.makedirs(out)
        env = dict(os.environ, PYMATTERSIM_SRC=src, VERIF_OUT=out, PYTHONDONTWRITEBYTECODE="1")
        res = {}
        for pid in m["properties"]:
            t0 = time.time()
            p = subprocess.run([os.path.join(VERIF, "check"), pid, tier], env=env, capture_output=True, text=True)
            clauses = [l.strip() for l in p.stdout.splitlines() if l.startswith("  clause:")][:3]
            res[pid] = {"exit": p.returncode, "wall_s": round(time.time() - t0, 1), "clauses": clauses,
                        "tail": p.stdout[-300:] if p.returncode == 2 else ""}
        want = 1 if m["expect"] == "fail" else 0
        codes = [r["exit"] for r in res.values()]
        if m["expect"] == "fail":
            good = any(c == 1 for c in codes) and all(c in (0, 1) for c in codes)
        else:
            good = all(c == 0 for c in codes)
        return {"id": m["id"], "expect": m["expect"], "status": "as-expected" if good else "UNEXPECTED", "checks": res}
    finally:
        shutil.rmtree(tmp, ignore_errors=True)


def main(argv):
    tier = "quick"
    if "--thorough" in argv:
        tier = "thorough"
        argv = [a for a in argv if a != "--thorough"]
    ms = json.load(open(os.path.join(VERIF, "mutants", "mutants.json")))
    sd = os.path.join(VERIF, "seeded")
    if os.path.isdir(sd):
        for d in sorted(os.listdir(sd)):
            mp = os.path.join(sd, d, "meta.json")
            if os.path.exists(mp):
                meta = json.load(open(mp))
                ms.append({"id": "S" + d, "properties": meta.get("checks", [meta["property"]]), "expect": "fail",
                           "patch": os.path.join(sd, d, "patch.diff")})
    if argv:
        ms = [m for m in ms if any(m["id"].startswith(a) for a in argv)]
    results = []
    bad = 0
    for m in ms:
        r = run_one(m, tier)
        results.append(r)
        print(json.dumps(r))
        sys.stdout.flush()
        if r["status"] != "as-expected":
            bad += 1
    path = os.path.join(VERIF, "evidence", "selftest.json")
    old = {}
    if os.path.exists(path):
        try:
            old = {r["id"]: r for r in json.load(open(path))["results"]}
        except Exception:
            old = {}
    for r in results:
        old[r["id"]] = r
    with open(path, "w") as f:
        json.dump({"results": sorted(old.values(), key=lambda r: r["id"])}, f, indent=1)
    print(f"{len(results)} run, {bad} unexpected")
    return 1 if bad else 0


if __name__ == "__main__":
    sys.exit(main(sys.argv[1:]))
