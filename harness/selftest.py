"""Self-test of the checks (not a manifest command).

./selftest [id-prefix ...]   e.g. ./selftest M02 R02

mutants/*.json list curated edits of the library: mutants (the property's
quick check must exit 1) and behaviour-preserving refactors (must exit 0).  Each
is applied to a scratch copy of /repo/PyMatterSim outside /repo and /verif; the
check runs with PYMATTERSIM_SRC pointing at the copy and VERIF_OUT at a scratch
directory, so neither /repo nor the committed evidence is touched.
Seeded changes under seeded/<id>/patch.diff are run the same way (prefix S).
"""
import json
import os
import shutil
import subprocess
import sys
import tempfile
import time

VERIF = os.path.dirname(os.path.dirname(os.path.abspath(__file__)))


def apply_edit(root, m):
    for e in m["edits"]:
        p = os.path.join(root, e["file"])
        s = open(p).read()
        if s.count(e["old"]) < 1:
            raise SystemExit(f"{m['id']}: pattern not found in {e['file']}: {e['old']!r}")
        s = s.replace(e["old"], e["new"], e.get("count", 1))
        open(p, "w").write(s)


def run_one(m, tier="quick"):
    tmp = tempfile.mkdtemp(prefix="verif_selftest_")
    try:
        src = os.path.join(tmp, "src")
        os.makedirs(src)
        shutil.copytree("/repo/PyMatterSim", os.path.join(src, "PyMatterSim"),
                        ignore=shutil.ignore_patterns("__pycache__"))
        if os.path.isdir("/repo/tests"):
            shutil.copytree("/repo/tests", os.path.join(src, "tests"), ignore=shutil.ignore_patterns("__pycache__"))
        for pre in m.get("pre", []):
            pp = pre if os.path.isabs(pre) else os.path.join(VERIF, pre)
            p = subprocess.run(["patch", "-p1", "-s", "-d", src, "-i", pp], capture_output=True, text=True)
            if p.returncode != 0:
                return {"id": m["id"], "status": "pre-patch-failed", "detail": p.stdout + p.stderr}
        if "patch" in m:
            p = subprocess.run(["patch", "-p1", "-s", "-d", src, "-i", m["patch"]], capture_output=True, text=True)
            if p.returncode != 0:
                return {"id": m["id"], "status": "patch-failed", "detail": p.stdout + p.stderr}
        else:
            apply_edit(src, m)
        out = os.path.join(tmp, "out")
        os.makedirs(out)
        env = dict(os.environ, PYMATTERSIM_SRC=src, VERIF_OUT=out, PYTHONDONTWRITEBYTECODE="1")
        res = {}
        for pid in m["properties"]:
            t0 = time.time()
            p = subprocess.run([os.path.join(VERIF, "check"), pid, tier], env=env, capture_output=True, text=True)
            clauses = [l.strip() for l in p.stdout.splitlines() if l.startswith("  clause:")][:3]
            res[pid] = {"exit": p.returncode, "wall_s": round(time.time() - t0, 1), "clauses": clauses,
                        "tail": p.stdout[-300:] if p.returncode == 2 else ""}
        want = 1 if m["expect"] == "fail" else 0
        codes = [r["exit"] for r in res.values()]
        if m["expect"] == "fail":
            good = any(c == 1 for c in codes) and all(c in (0, 1) for c in codes)
        else:
            good = all(c == 0 for c in codes)
        return {"id": m["id"], "expect": m["expect"], "status": "as-expected" if good else "UNEXPECTED", "checks": res}
    finally:
        shutil.rmtree(tmp, ignore_errors=True)


def main(argv):
    tier = "quick"
    jobs = 1
    for a in list(argv):
        if a.startswith("-j"):
            jobs = int(a[2:] or 4)
            argv = [x for x in argv if x != a]
    if "--thorough" in argv:
        tier = "thorough"
        argv = [a for a in argv if a != "--thorough"]
    ms = []
    md = os.path.join(VERIF, "mutants")
    for fn in sorted(os.listdir(md)):
        if fn.endswith(".json"):
            ms += json.load(open(os.path.join(md, fn)))
    sd = os.path.join(VERIF, "seeded")
    if os.path.isdir(sd):
        for d in sorted(os.listdir(sd)):
            mp = os.path.join(sd, d, "meta.json")
            if os.path.exists(mp):
                meta = json.load(open(mp))
                ms.append({"id": "S" + d, "properties": meta.get("checks", [meta["property"]]), "expect": "fail",
                           "patch": os.path.join(sd, d, "patch.diff")})
    if argv:
        ms = [m for m in ms if any(m["id"].startswith(a) for a in argv)]
    results = []
    bad = 0
    import concurrent.futures as cf
    with cf.ThreadPoolExecutor(max_workers=jobs) as ex:
        for r in ex.map(lambda m: run_one(m, tier), ms):
            results.append(r)
            print(json.dumps(r))
            sys.stdout.flush()
            if r["status"] != "as-expected":
                bad += 1
    sdir = os.path.join(VERIF, "evidence", "selftest")
    os.makedirs(sdir, exist_ok=True)
    for r in results:
        with open(os.path.join(sdir, r["id"] + ".json"), "w") as f:
            json.dump(r, f, indent=1)
    print(f"{len(results)} run, {bad} unexpected")
    return 1 if bad else 0


if __name__ == "__main__":
    sys.exit(main(sys.argv[1:]))
