"""C17 — local order parameters against spec/LocalOrder.tla.

  pair entropy   PyMatterSim.static.pairentropy.S2.particle_s2
  tetrahedral    PyMatterSim.static.geometric.q8_tetrahedral
  nematic        PyMatterSim.static.nematic.NematicOrder.tensor   (trace and eigenvalue variants)
  gyration       PyMatterSim.static.shape.gyration_tensor

Direction A: TLC checks the exactly decidable clauses as invariants on every input of the four
MC_LocalOrder sub-models and prints, per state, the input, the discrete decisions (contributing
neighbours, pair widths, four nearest, tie / floating-point-regime flags) and the expectation as
Real terms; every case is replayed into the public API.
Direction B: seeded random larger inputs through the real code; TraceLocalOrder.tla re-derives
the expectation of every record.

Python renders inputs, calls the API, evaluates Real terms and compares.  gyration_tensor
recentres its argument in place (property C18, DESIGN section 6 item 10): it is handed a copy.
"""
import concurrent.futures as cf
import json
import math
import os
import random
import shutil
import warnings

import numpy as np

from . import common
from .common import Check, MachineryError, run_tlc_sharded, require_model_ok
from .realeval import ev, close
from .c15 import write_nl, snapshot, _Sink

INVS = {
    "s2": ["InvS2ContribExact", "InvS2ContribSymmetric", "InvS2ClassConsistent", "InvS2EdgeFamily", "InvFastImage",
           "InvS2FrameCells", "InvS2UnwrapInvariant"],
    "tetra": ["InvTeRegularIsPerfect", "InvTeFourAreNearest", "InvTeDiamond", "InvFastImage", "InvTeFrames", "InvTeUnwrapInvariant"],
    "nematic": ["InvNmSymTraceless", "InvNmTraceEqualsEig", "InvNmRawIsOne", "InvNmInUnitRange", "InvNmUnitVectors",
                "InvNmTruncation", "InvNmRowOrder", "InvNmBigFamily"],
    "gyr": ["InvGyKappaIdentity", "InvGyRanges", "InvGyShiftInvariant", "InvGyRotatedEigen", "InvGyAxisKinds"],
}
SHARDS = {"quick": {"s2": 4, "tetra": 4, "nematic": 1, "gyr": 1},
          "thorough": {"s2": 12, "tetra": 10, "nematic": 3, "gyr": 3}}

KEY_S2_UNDERFLOW = "C17:s2-nan-where-g-underflows-to-zero"      # neighbours contribute, g > 0 mathematically
KEY_S2_NONEIGHBOUR = "C17:s2-nan-without-neighbour-inside-rmax"   # g = 0 identically, integrand = its limit 1
KEY_TETRA_N5 = "C17:q8-tetrahedral-raises-for-N=5"


def _cmp(chk, clause, case, obs, term, where, tol=None, extra=None, finding_key=None):
    exp = ev(term)
    try:
        good = close(obs, exp, **(tol or {}))
    except TypeError:
        good = False
    if not good:
        info = {"where": where, "observed": repr(obs), "expected": repr(exp)}
        if extra:
            info.update(extra)
        chk.violation(clause, {**case, **info}, finding_key=finding_key)
    return good


def _call(chk, clause, case, fn, *a, finding_key=None, **k):
    try:
        with warnings.catch_warnings():
            warnings.simplefilter("ignore")
            return True, fn(*a, **k)
    except Exception as e:  # noqa: an exception of the library on a valid input is a violation
        chk.violation(f"raises:{type(e).__name__}", {**case, "clause": clause, "error": str(e)[:300]}, finding_key=finding_key)
        return False, None


def _snaps(frames, H, S, types=None, timesteps=None, Hs=None, tys=None):
    """Hs / tys: one cell / one type vector per frame (every frame carries its own, as the dump reader delivers them)"""
    from PyMatterSim.reader.reader_utils import Snapshots
    ss = [snapshot(None, np.array(p, dtype=float) / S, np.array(Hs[f] if Hs else H, dtype=float) / S,
                   timestep=(timesteps[f] if timesteps else 10 * f), types=(tys[f] if tys else types))
          for f, p in enumerate(frames)]
    return Snapshots(nsnapshots=len(ss), snapshots=ss)


def _bump(chk, key, n=1):
    chk.extra[key] = chk.extra.get(key, 0) + n


# --------------------------------------------------------------------------
# S2
# --------------------------------------------------------------------------

def replay_s2(chk, lib, case, tmp, tag="A"):
    from PyMatterSim.static.pairentropy import S2
    small = case
    snaps = _snaps(case["fr"], case["H"], case["S"], types=case["types"], Hs=case.get("Hs"), tys=case.get("tys"))
    sig = np.array([[s[0] / s[1] for s in row] for row in case["sig"]], dtype=float)
    ppp = np.array(case["ppp"])
    rdelta = case["rn"] / case["rd"]
    T, n, nd = len(case["fr"]), len(case["types"]), case["nd"]
    has_zero = any(cl == "zero" for row in case["cls"] for cl in row)
    if case["ppp"] == [1, 1, 1] and case["id"] % 2:       # documented default mask
        ok_, obj = _call(chk, "S2:constructor", small, S2, snaps, sig, rdelta=rdelta, ndelta=nd)
    else:
        if case["id"] % 3 == 1:
            sig.setflags(write=False)
            ppp.setflags(write=False)
        ok_, obj = _call(chk, "S2:constructor", small, S2, snaps, sig, ppp, rdelta, nd)
    if not ok_:
        return
    gr = None
    if case["savegr"]:
        cwd = os.getcwd()
        os.chdir(tmp)       # the routine writes 'particle_gr.<outputfile>' relative to the working directory
        try:
            ok_, res = _call(chk, "S2Definition", small, obj.particle_s2, savegr=True, outputfile="s2out")
        finally:
            os.chdir(cwd)
        if ok_:
            if not (isinstance(res, tuple) and len(res) == 2):
                chk.violation("S2:return", {**small, "type": str(type(res))})
                return
            res, gr = res
    else:
        ok_, res = _call(chk, "S2Definition", small, obj.particle_s2)
    if not ok_:
        return
    res = np.asarray(res)
    if res.shape != (T, n):
        chk.violation("S2:shape", {**small, "shape": list(res.shape)})
        return
    good = True
    asserted = 0
    for f in range(T):
        for i in range(n):
            cl = case["cls"][f][i]
            if case["tie"][f][i] or cl == "fragile":
                chk.tie()
                continue
            ex = {"frame": f, "particle": i, "class": cl, "contributing": case["contrib"][f][i]}
            term = case["s2"][f][i]
            if case.get("edge") and case["edge"][f][i]:
                chk.extra["s2_particles_with_neighbour_exactly_at_rmax"] = chk.extra.get("s2_particles_with_neighbour_exactly_at_rmax", 0) + 1
            if cl == "zero":
                # some bin has g = 0 exactly in floating point: g ln g is continued by its limit 0
                if case["contrib"][f][i]:
                    g_ = _cmp(chk, "S2Definition:bins-where-g-underflows-to-0", small, float(res[f, i]), term, f"s2[{f}][{i}]",
                              extra=ex, finding_key=KEY_S2_UNDERFLOW)
                else:
                    g_ = _cmp(chk, "S2Definition:no-neighbour-inside-rmax", small, float(res[f, i]), term, f"s2[{f}][{i}]",
                              extra=ex, finding_key=KEY_S2_NONEIGHBOUR)
            else:
                g_ = _cmp(chk, "S2Definition", small, float(res[f, i]), term, f"s2[{f}][{i}]", extra=ex)
            asserted += 1
            if ev(term) > 1e-12:
                raise MachineryError("spec sanity: S2 term positive (integrand g ln g - g + 1 is non-negative)")
            good &= g_
            if gr is not None and g_:
                g = np.asarray(gr)
                if g.shape != (T, n, nd):
                    chk.violation("S2:gr-shape", {**small, "shape": list(g.shape)})
                    return
                for k in range(nd):
                    if not _cmp(chk, "S2:particle-gr", small, float(g[f, i, k]), case["g"][f][i][k], f"g[{f}][{i}][{k}]",
                                tol=dict(atol=1e-12, rtol=1e-9), extra=ex):
                        good = False
                        break
    if good and asserted:
        chk.ok((tag, "s2", case["id"], str(case["fr"]), str(case["sig"])),
               sample={"kind": "s2", "d": case["d"], "H": case["H"], "ppp": case["ppp"], "S": case["S"], "fr": case["fr"],
                       "types": case["types"], "sig": case["sig"], "rdelta": [case["rn"], case["rd"]], "nd": nd,
                       "contrib": case["contrib"], "cls": case["cls"]})
        chk.extra["s2_particles_asserted"] = chk.extra.get("s2_particles_asserted", 0) + asserted
        if case.get("fr0") is not None and case["fr0"] != case["fr"]:
            _bump(chk, "s2_cases_with_unwrapped_coordinates")
        if case.get("Hs") and any(h != case["Hs"][0] for h in case["Hs"]):
            _bump(chk, "s2_trajectories_with_cell_changing_between_frames")
        if case.get("tys") and any(t != case["tys"][0] for t in case["tys"]):
            _bump(chk, "s2_trajectories_with_types_changing_between_frames")
        if has_zero:
            chk.extra["s2_cases_with_zero_bins"] = chk.extra.get("s2_cases_with_zero_bins", 0) + 1


# --------------------------------------------------------------------------
# tetrahedral
# --------------------------------------------------------------------------

def replay_tetra(chk, lib, case, tmp, tag="A"):
    from PyMatterSim.static.geometric import q8_tetrahedral
    small = case
    n = len(case["pos"])
    # cases with pos2 / H2 are two-frame trajectories (another configuration in a cell with other tilt factors)
    frames = [(case["pos"], case["H"], case["rows"])]
    if "pos2" in case:
        frames.append((case["pos2"], case["H2"], case["rows2"]))
    nfr = len(frames)
    snaps = _snaps([fr[0] for fr in frames], case["H"], case["S"], Hs=[fr[1] for fr in frames])
    out = os.path.join(tmp, "tetra.npy")
    kw = {} if (case["ppp"] == [1, 1, 1] and case["id"] % 2) else {"ppp": np.array(case["ppp"])}     # documented default mask
    if case["id"] % 4 == 1:
        kw["outputfile"] = out
    ok_, res = _call(chk, "TetrahedralDefinition", small, q8_tetrahedral, snaps, finding_key=KEY_TETRA_N5 if n == 5 else None, **kw)
    if not ok_:
        return
    res = np.asarray(res)
    if res.shape != (nfr, n):
        chk.violation("Tetrahedral:shape", {**small, "shape": list(res.shape)})
        return
    if "outputfile" in kw:
        if not (os.path.exists(out) and np.array_equal(np.load(out), res, equal_nan=True)):
            chk.violation("Tetrahedral:file", small)
            return
        os.unlink(out)
    asserted = 0
    for f, (_, _, rows) in enumerate(frames):
        for i, row in enumerate(rows):
            if row["tie"]:
                chk.tie()
                continue
            asserted += 1
            ex = {"frame": f, "particle": i, "four": row["four"]}
            if row["perfect"]:
                # "exactly one for perfect tetrahedral coordination"
                if not _cmp(chk, "PerfectTetrahedronIsOne", small, float(res[f, i]), row["q"], f"q[{f}][{i}]",
                            tol=dict(atol=1e-12, rtol=0), extra=ex):
                    return
            elif not _cmp(chk, "TetrahedralDefinition", small, float(res[f, i]), row["q"], f"q[{f}][{i}]", extra=ex):
                return
    if asserted:
        chk.ok((tag, "tetra", case["id"], str(case["pos"]), str(case["ppp"]), case["S"]),
               sample={"kind": "tetra", "H": case["H"], "ppp": case["ppp"], "S": case["S"], "pos": case["pos"],
                       "four": [r["four"] for r in case["rows"]], "perfect": [r["perfect"] for r in case["rows"]]})
        chk.extra["tetra_particles_asserted"] = chk.extra.get("tetra_particles_asserted", 0) + asserted
        if nfr == 2:
            _bump(chk, "tetra_two_frame_trajectories_with_distinct_frames")
        if case.get("pos0") is not None and case["pos0"] != case["pos"]:
            _bump(chk, "tetra_cases_with_unwrapped_coordinates")


# --------------------------------------------------------------------------
# nematic
# --------------------------------------------------------------------------

def replay_nematic(chk, lib, case, tmp, tag="A"):
    from PyMatterSim.static.nematic import NematicOrder
    small = case
    C = case["C"]
    T, n = len(case["fr"]), len(case["fr"][0])
    ori = _snaps(case["fr"], [[10, 0], [0, 10]], C)
    nlf = ""
    if case["nl"]:
        nlf = os.path.join(tmp, "nem_nl.dat")
        with open(nlf, "w") as f:          # rows in the order the specification states (LocalOrder!LoRows)
            for fr in case["rows"]:
                f.write("id     cn     neighborlist\n")
                for r in fr:
                    f.write(f"{r['id']} {len(r['list'])} " + " ".join(str(j) for j in r["list"]) + "\n")
    out = os.path.join(tmp, "nem")
    values = {}
    for eig in (False, True):
        obj = NematicOrder(ori)
        kw = dict(neighborfile=nlf, eigvals=eig, outputfile=out)
        if not (case["Nmax"] == 30 and eig):       # Nmax = 30 is the documented default: left out in one of the two calls
            kw["Nmax"] = case["Nmax"]
        if case["id"] % 2:
            kw["ndim"] = 2                         # (also the default)
        ok_, res = _call(chk, "NematicDefinition", small, obj.tensor, **kw)
        if not ok_:
            return
        res = np.asarray(res)
        if res.shape != (T, n):
            chk.violation("Nematic:shape", {**small, "eigvals": eig, "shape": list(res.shape)})
            return
        values[eig] = res
        clause = "NematicOrder:twice-largest-eigenvalue" if eig else "NematicOrder:trace"
        for f in range(T):
            for i in range(n):
                if not _cmp(chk, clause, small, float(np.real(res[f, i])), case["order"][f][i], f"S[{f}][{i}]",
                            extra={"eigvals": eig}):
                    return
        Q = np.asarray(obj.QIJ)
        if Q.shape != (T, n, 2, 2):
            chk.violation("Nematic:tensor-shape", {**small, "shape": list(Q.shape)})
            return
        for f in range(T):
            for i in range(n):
                for a in range(2):
                    for b in range(2):
                        if not _cmp(chk, "NematicTensor", small, float(Q[f, i, a, b]), case["tensor"][f][i][a][b],
                                    f"Q[{f}][{i}][{a}][{b}]"):
                            return
    if not np.allclose(values[False], np.real(values[True]), atol=1e-9, rtol=1e-9):
        chk.violation("NematicOrder:variants-agree", small)
        return
    if case["nl"]:
        cns = [len(r) for fr in case["nl"] for r in fr]
        if max(cns) > 30:
            _bump(chk, "nematic_cases_with_more_than_30_listed_neighbours")
        if any(u < len(r) for fu, fr in zip(case["used"], case["nl"]) for u, r in zip(fu, fr)):
            _bump(chk, "nematic_cases_truncated_by_Nmax")
        if any([r["id"] for r in fr] != sorted(r["id"] for r in fr) for fr in case["rows"]):
            _bump(chk, "nematic_files_with_rows_out_of_id_order")
    chk.ok((tag, "nematic", case["id"], str(case["fr"]), str(case["nl"]), case["Nmax"]),
           sample={"kind": "nematic", "C": C, "fr": case["fr"], "nl": case["nl"], "order": case["order"][0][0]})


# --------------------------------------------------------------------------
# gyration
# --------------------------------------------------------------------------

def replay_gyr(chk, lib, case, tmp, tag="A"):
    from PyMatterSim.static.shape import gyration_tensor
    small = case
    cloud = np.array(case["cloud"], dtype=float) / case["S"]
    arg = cloud.copy()
    if case["id"] % 3 == 1:          # a non-contiguous view (e.g. columns of a larger table)
        big = np.full((cloud.shape[0], 2 * cloud.shape[1]), 3.5)
        big[:, ::2] = cloud
        arg = big[:, ::2]
    elif case["id"] % 3 == 2:
        arg = np.asfortranarray(cloud.copy())
    ok_, res = _call(chk, "GyrationDefinition", small, gyration_tensor, arg)
    if not ok_:
        return
    d = case["d"]
    if not isinstance(res, (list, tuple)) or len(res) != (5 if d == 3 else 3):
        chk.violation("Gyration:return", {**small, "returned": repr(res)[:200]})
        return
    vals = [float(np.real(x)) for x in res]
    names = (["rg", "asph", "acyl", "kappa2", "fractal"] if d == 3 else ["rg", "acyl", "fractal"])
    clause = {"rg": "RadiusOfGyration", "asph": "Asphericity", "acyl": "Acylindricity", "kappa2": "ShapeAnisotropy",
              "fractal": "FractalDimension"}
    for name, v in zip(names, vals):
        term = case[name]
        if term in ("na", "undef"):
            continue
        if not _cmp(chk, clause[name], small, v, term, name):
            return
    if d == 3:      # ranges on the code's own outputs (eigenvalue functions): b >= 0, c >= 0, 0 <= kappa^2 <= 1
        if vals[1] < -1e-9 or vals[2] < -1e-9 or not (-1e-9 <= vals[3] <= 1 + 1e-9):
            chk.violation("GyrationRanges", {**small, "observed": vals})
            return
    chk.ok((tag, "gyr", case["id"], str(case["cloud"])),
           sample={"kind": "gyr:" + case["kind"], "cloud": case["cloud"], "S": case["S"], "rg": case["rg"], "kappa2": case["kappa2"]})


REPLAY = {"s2": replay_s2, "tetra": replay_tetra, "nematic": replay_nematic, "gyr": replay_gyr}


# --------------------------------------------------------------------------
# direction B
# --------------------------------------------------------------------------

def _rand_nl(rng, n, kmax):
    nl = []
    for i in range(1, n + 1):
        others = [j for j in range(1, n + 1) if j != i]
        nl.append(rng.sample(others, rng.randint(1, min(kmax, len(others)))))
    return nl


PYTH25 = [(7, 24), (24, 7), (15, 20), (20, 15), (25, 0), (0, 25)]
PYTH5 = [(3, 4), (4, 3), (5, 0), (0, 5)]


def _tilted(rng, L, frac=2):
    d = len(L)
    H = [[(L[i] if i == j else 0) for j in range(d)] for i in range(d)]
    for i in range(1, d):
        for j in range(i):
            H[i][j] = rng.randint(-L[j] // frac, L[j] // frac)
    return H


def _unwrap(rng, pos, H, ppp):
    """every particle displaced by -2..3 whole cell vectors along each periodic axis (unwrapped coordinates)"""
    d = len(H)
    out = []
    for p in pos:
        q = list(p)
        for k in range(d):
            if ppp[k]:
                n = rng.randint(-2, 3)
                q = [q[x] + n * H[k][x] for x in range(d)]
        out.append(q)
    return out


def _rand_roword(rng, n):
    order = list(range(1, n + 1))
    if rng.random() < 0.6:
        rng.shuffle(order)
    return order


def gen_records(rng, nrec):
    recs = []
    kinds = ["tetra", "nematic", "gyr", "gyr", "tetra", "nematic", "s2"]
    while len(recs) < nrec:
        kind = kinds[len(recs) % len(kinds)]
        if kind == "s2":
            d = rng.choice([2, 3])
            n = rng.randint(5, 9)
            S = 10
            L = [rng.choice([30, 40, 50]) for _ in range(d)]
            H = [[(L[i] if i == j else 0) for j in range(d)] for i in range(d)]
            if rng.random() < 0.4:
                H = _tilted(rng, L)
            K = rng.randint(1, 3)
            T = rng.choice([1, 1, 2, 3])
            recs.append({"m": "s2", "id": len(recs), "d": d, "H": H, "ppp": [rng.randint(0, 1) for _ in range(d)], "S": S,
                         "fr": [[[rng.randint(0, L[k]) for k in range(d)] for _ in range(n)] for _ in range(T)],
                         "types": [rng.randint(1, K) for _ in range(n)] if K > 1 else [1] * n,
                         "sig": [[[rng.choice([1, 2, 3]), rng.choice([5, 10])] for _ in range(K)] for _ in range(K)],
                         "rn": 1, "rd": rng.choice([10, 5]), "nd": rng.randint(16, 36), "savegr": False})
            r = recs[-1]
            for t in set(range(1, K + 1)) - set(r["types"]):      # every type present
                r["types"][t - 1] = t
            if T > 1:        # a sheared run: the tilt factors change from frame to frame, the box lengths do not
                r["ppp"] = [1] * d if rng.random() < 0.7 else r["ppp"]
                r["Hs"] = [H] + [_tilted(rng, L) for _ in range(T - 1)]
                if K > 1 and rng.random() < 0.5:
                    r["tys"] = [r["types"]] + [rng.sample(r["types"], n) for _ in range(T - 1)]
            if rng.random() < 0.5:
                r["fr0"] = r["fr"]
                r["fr"] = [_unwrap(rng, r["fr0"][f], (r["Hs"][f] if "Hs" in r else H), r["ppp"]) for f in range(T)]
        elif kind == "tetra":
            n = rng.randint(6, 30)
            S = 10
            L = [rng.choice([51, 73, 91]) for _ in range(3)]
            H = [[(L[i] if i == j else 0) for j in range(3)] for i in range(3)]
            if rng.random() < 0.4:
                H[1][0] = rng.randint(-20, 20); H[2][0] = rng.randint(-20, 20); H[2][1] = rng.randint(-20, 20)
            recs.append({"m": "tetra", "id": len(recs), "kind": "rnd", "H": H, "ppp": [rng.randint(0, 1) for _ in range(3)],
                         "S": S, "pos": [[rng.randint(0, L[k]) for k in range(3)] for _ in range(n)]})
            if rng.random() < 0.5:
                recs[-1]["pos0"] = recs[-1]["pos"]
                recs[-1]["pos"] = _unwrap(rng, recs[-1]["pos0"], H, recs[-1]["ppp"])
            if rng.random() < 0.4:     # two-frame trajectory: another configuration, other tilt factors
                recs[-1]["H2"] = _tilted(rng, L, frac=4)
                recs[-1]["pos2"] = [[rng.randint(0, L[k]) for k in range(3)] for _ in range(n)]
        elif kind == "nematic":
            T = rng.randint(1, 3)
            long_lists = rng.random() < 0.3
            if long_lists:      # more listed neighbours than the routines' default Nmax = 30
                n = rng.randint(34, 45)
                pyth, C = PYTH5, 5
                nl = [[rng.sample([j for j in range(1, n + 1) if j != i], rng.randint(28, n - 1)) for i in range(1, n + 1)]
                      for _ in range(T)]
                cns = sorted(len(r) for fr in nl for r in fr)
                nmax = rng.choice([30, 200, cns[-1], cns[-1] + 1, cns[len(cns) // 2], cns[0] - 1, 31, 7])
            else:
                n = rng.randint(6, 30)
                pyth, C = PYTH25, 25
                nl = [_rand_nl(rng, n, 12) for _ in range(T)] if rng.random() < 0.8 else []
                nmax = rng.choice([30, 12, 20, 5, 1])
            def uv():
                a, b = rng.choice(pyth)
                return [a * rng.choice([-1, 1]), b * rng.choice([-1, 1])]
            recs.append({"m": "nematic", "id": len(recs), "C": C, "fr": [[uv() for _ in range(n)] for _ in range(T)],
                         "nl": nl, "roword": [_rand_roword(rng, n) for _ in range(T)], "Nmax": nmax})
        else:
            d = rng.choice([2, 3])
            n = rng.randint(2, 40)
            recs.append({"m": "gyr", "id": len(recs), "kind": "2d" if d == 2 else "3d", "S": rng.choice([1, 10]), "d": d,
                         "cloud": [[rng.randint(-40, 40) for _ in range(d)] for _ in range(n)]})
    return recs


class _Rep(list):
    """a one-element list that answers every index with its element: the single row a lattice record is decided by"""

    def __getitem__(self, i):
        return list.__getitem__(self, 0)


def gen_s2_lattice(rng, rid):
    """Scale: a full single-species lattice of ~1100 particles whose r_max reaches most of the box, so that one particle has
    more than 1024 neighbours inside r_max (not a multiple of 1024).  Decided from row 1 alone (LocalOrder!S2PrepOne,
    S2LatticeLemma)."""
    import itertools
    n, a = [10, 10, 11], 10
    sites = [[a * x for x in s] for s in itertools.product(*[range(k) for k in n])]
    rng.shuffle(sites)
    return {"m": "s2", "id": rid, "d": 3, "H": [[(n[i] * a if i == j else 0) for j in range(3)] for i in range(3)],
            "ppp": [1, 1, 1], "S": 10, "fr": [sites], "types": [1] * len(sites), "sig": [[[3, 10]]],
            "rn": 1, "rd": 2, "nd": 16, "savegr": False, "lat": {"n": n, "a": a}}


def run_trace(chk, lib, recs, tmp):
    res, rejects = common.validate_trace_all("TraceLocalOrder", recs)
    chk.add_tlc(res, "TraceLocalOrder")
    if rejects:
        raise MachineryError(f"TraceLocalOrder rejected a generated record: {rejects[:3]}")
    exps = {c["rec"]: c["exp"] for c in res.cases if isinstance(c, dict) and "rec" in c}
    if len(exps) != len(recs):
        raise MachineryError(f"TraceLocalOrder printed {len(exps)} expectations for {len(recs)} records")
    for k, rec in enumerate(recs, start=1):
        case = dict(rec)
        case.update(exps[k])
        if case.get("lat") is True:            # a lattice record: the row of particle 1 stands for every particle
            # (the term of ~17 000 leaves is evaluated once; realeval takes a number as a literal)
            case["s2"] = [[float(ev(case["s2"][0][0]))]]
            for key in ("contrib", "tie", "cls", "s2"):
                case[key] = _Rep([_Rep(case[key][0])])
            chk.extra["s2_lattice_records"] = chk.extra.get("s2_lattice_records", 0) + 1
            chk.extra["s2_lattice_neighbours_inside_rmax"] = len(case["contrib"][0][0])
        if case.get("skip"):
            chk.tie()
            continue
        REPLAY[rec["m"]](chk, lib, case, tmp, tag="B")


# --------------------------------------------------------------------------

def _spread_clauses(chk):
    """Check.finish writes at most 20 replay files: put one representative of every distinct
    clause first so that each kind of violation is among them."""
    seen, first, rest = set(), [], []
    for v in chk.violations:
        (rest if v[0] in seen else first).append(v)
        seen.add(v[0])
    chk.violations = first + rest


def run(tier, replay=None):
    chk = Check("C17", tier)
    chk.rule = ("A: TLC checks contributing-neighbour exactness/symmetry, regular tetrahedron => order exactly 1, the four "
                "chosen are strictly nearest, Q symmetric & traceless, trace order = twice the largest eigenvalue, raw order 1, "
                "kappa^2 identity / ranges / rotated principal axes on every input of the four MC_LocalOrder sub-models and "
                "prints the expectation terms; every case replayed into S2.particle_s2 (with and without savegr), "
                "q8_tetrahedral, NematicOrder.tensor (both variants, tensor attribute) and gyration_tensor. "
                "Trajectories carry per-frame cells / types (sheared runs), coordinates are wrapped or unwrapped by whole cell "
                "vectors, neighbour files have rows in any order and up to 39 listed ids with Nmax below / at / above the counts. "
                "B: seeded random larger inputs, expectation per record from TraceLocalOrder.tla.")
    chk.assumptions = ["float comparison at 1e-9 of terms the spec states (1e-12 for 'exactly one')",
                       "S2 bins whose Gaussian sum lies in the denormal range ('fragile'), distances exactly r_max and "
                       "half-cell ties that change a bond vector are reported as ties, not asserted",
                       "tetrahedral: equal 4th/5th neighbour distances are ties; nematic: ndim = 2 only (the code asserts it)",
                       "3-D asphericity / acylindricity only on clouds with known principal axes (axis-aligned or rational "
                       "rotations); kappa^2, R_g and the fractal dimension on every cloud",
                       "gyration_tensor is handed a float copy / strided view (it recentres its argument in place: C18)",
                       "rows of a neighbour-file frame may come in any order; the first min(cn, Nmax) listed ids are delivered (C05)"]
    try:
        lib = common.import_lib()
        import PyMatterSim.static.pairentropy  # noqa
        import PyMatterSim.static.geometric  # noqa
        import PyMatterSim.static.nematic  # noqa
        import PyMatterSim.static.shape  # noqa
    except MachineryError:
        raise
    except Exception as e:
        chk.violation(f"raises:{type(e).__name__}", {"import": "PyMatterSim.static.*", "error": str(e)[:300]})
        return chk.finish()
    tmp = common.scratch_dir("verif_c17_")
    try:
        if replay:
            case = common.load_replay(replay)["case"]
            sink = _Sink()
            sink.extra = {}
            sink.ok = lambda *a, **k: None
            sink.tie = lambda *a, **k: None
            REPLAY[case["m"]](sink, lib, case, tmp)
            print(json.dumps({k: v for k, v in case.items() if k not in ("s2", "g", "rows", "order", "tensor", "rbins")})[:3000])
            for clause, info in sink.items:
                print(f"clause {clause}: {info.get('where', '')} observed {info.get('observed')} expected {info.get('expected')} "
                      f"{info.get('error', '')}")
            print("replay:", "VIOLATION" if sink.items else "ok")
            return 1 if sink.items else 0

        def tlc(model):
            return model, run_tlc_sharded("MC_LocalOrder",
                                          dict(constants={"Tier": tier, "Model": model, "Gen": True},
                                               invariants=INVS[model] + ["Emit"]),
                                          nshards=SHARDS[tier][model])
        with cf.ThreadPoolExecutor(max_workers=4) as ex:
            futs = [ex.submit(tlc, m) for m in ("s2", "tetra", "nematic", "gyr")]
            for fut in cf.as_completed(futs):
                model, r = fut.result()
                require_model_ok(r, f"MC_LocalOrder {model}")
                chk.add_tlc(r, f"MC_LocalOrder {model} (invariants + emission)")
                if not r.cases or len(r.cases) != r.distinct:
                    raise MachineryError(f"{model}: {len(r.cases)} cases for {r.distinct} states")
                for case in r.cases:
                    REPLAY[model](chk, lib, case, tmp)
        chk.exhaustive = True
        rng = random.Random(common.SEED * 7919 + 17)
        nrec = 140 if tier == "quick" else 3500
        recs = gen_records(rng, nrec)
        for lo in range(0, len(recs), 350):
            run_trace(chk, lib, recs[lo:lo + 350], tmp)
        run_trace(chk, lib, [gen_s2_lattice(rng, len(recs))], tmp)          # scale (see gen_s2_lattice)
        _spread_clauses(chk)
        return chk.finish()
    finally:
        shutil.rmtree(tmp, ignore_errors=True)
