"""C05 — neighbour lists through the file (calculate_neighbors.*, read_neighbors) against
spec/Neighbors.tla.

The specification decides everything: TLC enumerates configurations and operations
(MC_Neighbors: exhaustive lattice scope, hashed scope, the reader state machine over abstract
files) and checks the C05 clauses on its own canonical lists; the harness runs the real
writers and the real reader on those inputs (and on seeded random decimal configurations),
records what the library wrote and returned as an integer trace, and TraceNeighbors.tla
accepts or rejects every record (tie groups, cut-off boundary, file cursor).
"""
import json
import os
import random
import shutil
import tempfile

import numpy as np

from . import common
from .common import Check, run_tlc_sharded, require_model_ok, validate_trace_all

INVS = ["InvNoSelf", "InvSorted", "InvNClosest", "InvCutoff", "InvSymmetric", "InvAccepts", "InvReadBack",
        "InvCnBounded", "InvPaddingZero", "InvWidth"]


def parse_file(path):
    frames = []
    with open(path) as f:
        for line in f:
            tok = line.split()
            if not tok:
                continue
            if tok[0] == "id":
                frames.append([])
                continue
            frames[-1].append({"id": int(tok[0]), "cn": int(tok[1]), "ids": [int(x) for x in tok[2:]]})
    return frames


def matrix_to_ints(m):
    a = np.asarray(m)
    if a.ndim != 2:
        return None
    r = np.rint(a)
    if not np.array_equal(r, a):
        return None
    return [[int(x) for x in row] for row in r]


def nmax_choices(frames, k):
    mx = max((r["cn"] for fr in frames for r in fr), default=0)
    opts = [200, 1, 2, max(1, mx - 1), max(1, mx), mx + 1, 5]
    return opts[k % len(opts)]


def session_config(case):
    """Runs the writers named by one emitted configuration case and reads the files back.
    Returns (records, violations) where records is a list of sessions (lists of records)."""
    from PyMatterSim.neighbors.calculate_neighbors import Nnearests, cutoffneighbors, cutoffneighbors_particletype
    from PyMatterSim.neighbors.read_neighbors import read_neighbors
    cfg = case["cfg"]
    S = cfg["S"]
    H = np.array(cfg["H"], dtype=float) / S
    frames = [np.array(f, dtype=float) / S for f in cfg["frames"]]
    n = len(cfg["types"])
    sessions, viol = [], []
    tmp = tempfile.mkdtemp(prefix="verif_c05_")
    try:
        from PyMatterSim.reader.reader_utils import Snapshots
        Hs = [np.array(h, dtype=float) / S for h in cfg["Hs"]] if "Hs" in cfg else [H] * len(frames)   # per-frame cell (sheared runs)
        tys = cfg["tys"] if "tys" in cfg else [cfg["types"]] * len(frames)          # per-frame species labels
        ss = [common.make_snapshot(f, tys[i], Hs[i], i) for i, f in enumerate(frames)]
        snaps = Snapshots(nsnapshots=len(ss), snapshots=ss)
        for k, op in enumerate(case["ops"]):
            fn = os.path.join(tmp, f"nl{k}.dat")
            ppp = np.array(cfg["ppp"])
            # the documented default of the mask (all three axes periodic) is used where it applies: the argument is omitted
            kw = {} if (list(cfg["ppp"]) == [1, 1, 1] and (k + len(frames)) % 2 == 0) else {"ppp": ppp}
            try:
                if op["kind"] == "nn":
                    Nnearests(snaps, N=op["n"], fnfile=fn, **kw)
                elif op["kind"] == "cut":
                    cutoffneighbors(snaps, r_cut=op["rn"] / S, fnfile=fn, **kw)
                else:
                    cutoffneighbors_particletype(snaps, r_cut=np.array(op["R"], dtype=float) / S, fnfile=fn, **kw)
            except Exception as e:
                key = None
                if op["kind"] == "nn" and op["n"] == n - 1:
                    key = "Nnearests:N=nparticle-1"
                viol.append((f"raises:{type(e).__name__}", {"cfg": cfg, "op": op, "error": str(e)[:200]}, key))
                continue
            content = parse_file(fn)
            sess = [{"op": "write", "cfg": cfg, "spec": op, "file": content}]
            try:
                with open(fn) as fh:
                    for f in range(len(content)):
                        nmax = nmax_choices(content, k + f)
                        res = read_neighbors(fh, n, Nmax=nmax)
                        m = matrix_to_ints(res)
                        if m is None or str(np.asarray(res).dtype) != "int32":
                            viol.append(("ReadReturnsIntegerMatrix", {"cfg": cfg, "op": op, "nmax": nmax}, None))
                            break
                        sess.append({"op": "read", "nmax": nmax, "res": m})
            except Exception as e:
                viol.append((f"raises:{type(e).__name__}", {"cfg": cfg, "op": op, "reading": True, "error": str(e)[:200]}, None))
            sessions.append(sess)
    finally:
        shutil.rmtree(tmp, ignore_errors=True)
    return sessions, viol


def session_reader(case):
    """A file written by the harness in the library format, read with the emitted Nmax sequence."""
    from PyMatterSim.neighbors.read_neighbors import read_neighbors
    tmp = tempfile.mkdtemp(prefix="verif_c05_")
    viol = []
    try:
        fn = os.path.join(tmp, "f.dat")
        shift = case["shift"]
        with open(fn, "w") as f:
            for fr in case["file"]:
                f.write("id     cn     neighborlist\n" if shift else "id   cn   weights\n")
                for r in fr:
                    ent = [str(x) for x in r["ids"]] if shift else [f"{x:.3f}" for x in r["ids"]]
                    f.write(" ".join([str(r["id"]), str(r["cn"])] + ent) + "\n")
        n = case.get("n", 3)
        sess = [{"op": "open", "file": case["file"], "shift": shift, "n": n}]
        try:
            with open(fn) as fh:
                for nmax in case["nmaxs"]:
                    res = read_neighbors(fh, n, Nmax=nmax)
                    m = matrix_to_ints(res)
                    want = "int32" if shift else "float64"
                    if m is None or str(np.asarray(res).dtype) != want:
                        viol.append(("ReadReturnsMatrixOfKind", {"case": case, "nmax": nmax}, None))
                        break
                    sess.append({"op": "read", "nmax": nmax, "res": m})
        except Exception as e:
            viol.append((f"raises:{type(e).__name__}", {"case": case, "error": str(e)[:200]}, None))
        return [sess], viol
    finally:
        shutil.rmtree(tmp, ignore_errors=True)


def run_case(case):
    return session_config(case) if "cfg" in case else session_reader(case)


def gen_configs(rng, n):
    """Direction B: random decimal configurations (N up to 40: two-digit ids and coordination numbers)."""
    out = []
    while len(out) < n:
        d = rng.choice([2, 3])
        S = 100 if d == 2 else 10
        lo, hi = (600, 1600) if d == 2 else (40, 110)
        H = [[0] * d for _ in range(d)]
        tri = rng.random() < 0.6
        for i in range(d):
            H[i][i] = rng.randint(lo, hi)
            if tri:
                for j in range(i):
                    H[i][j] = rng.randint(-(H[j][j] // 2), H[j][j] // 2)
        N = rng.randint(6, 40)
        K = rng.randint(1, 3)
        types = list(range(1, K + 1)) + [rng.randint(1, K) for _ in range(N - K)]
        rng.shuffle(types)
        nf = rng.randint(1, 3)
        frames, ok = [], True
        for _ in range(nf):
            pts = set()
            while len(pts) < N:
                pts.add(tuple(rng.randint(-(H[k][k] // 4), H[k][k] + H[k][k] // 4) for k in range(d)))
            pts = list(pts)
            rng.shuffle(pts)
            frames.append([list(p) for p in pts])
        ppp = [rng.randint(0, 1) for _ in range(d)] if rng.random() < 0.5 else [1] * d
        lmin = min(H[i][i] for i in range(d))
        cfg = {"H": H, "ppp": ppp, "S": S, "types": types, "frames": frames, "sharp": 0, "id": 100000 + len(out)}
        if nf > 1 and rng.random() < 0.5:       # sheared between frames: tilts change, edge lengths do not
            Hs = [H]
            for _ in range(nf - 1):
                G = [row[:] for row in H]
                for i in range(d):
                    for j in range(i):
                        G[i][j] = rng.randint(-(H[j][j] // 2), H[j][j] // 2)
                Hs.append(G)
            cfg["Hs"] = Hs
        if nf > 1 and K > 1 and rng.random() < 0.5:   # the species labels move between the particles (constant composition)
            tys = [types]
            for _ in range(nf - 1):
                t = types[:]
                rng.shuffle(t)
                tys.append(t)
            cfg["tys"] = tys
        R = [[rng.randint(lmin // 6, lmin // 2) for _ in range(K)] for _ in range(K)]
        ops = [{"kind": "nn", "n": rng.randint(1, N - 2)}, {"kind": "nn", "n": min(N - 2, 12)},
               {"kind": "cut", "rn": rng.randint(lmin // 5, (3 * lmin) // 5)},
               {"kind": "cuttype", "R": R}]
        out.append({"cfg": cfg, "ops": ops})
    return out


def gen_big_files(rng, k):
    """Direction B for the reader at scale: files written in the library format with 70-140 particles whose coordination
    numbers reach far beyond the usual ones (a few rows with 65..n-1 entries among rows with 0..12, so the widest row comes
    after narrower ones and the padded width is decided late), read on one handle with Nmax below, at and above the largest
    coordination number (incl. 64 / 65 / 128 / 200)."""
    out = []
    for _ in range(k):
        n = rng.randint(70, 140)
        shift = rng.randint(0, 1)
        nf = rng.randint(1, 3)
        file = []
        for _f in range(nf):
            fr = []
            big = set(rng.sample(range(2, n + 1), rng.randint(0, 3)))
            for i in range(1, n + 1):
                cn = rng.randint(65, n - 1) if i in big else (0 if rng.random() < 0.1 else rng.randint(1, 12))
                others = [j for j in range(1, n + 1) if j != i]
                ids = rng.sample(others, cn) if shift else [rng.randint(1, 9999) for _ in range(cn)]
                fr.append({"id": i, "cn": cn, "ids": ids})
            file.append(fr)
        nmaxs = [rng.choice([5, 30, 64, 65, 80, 128, 200]) for _ in range(nf)]
        out.append({"file": file, "shift": shift, "nmaxs": nmaxs, "n": n})
    return out


def gen_dense(rng, k):
    """Direction B for the writers at scale: a dense blob (60-110 particles within a few cut-off radii) next to a dilute
    remainder, so that cut-off lists hold 60-100 neighbours (beyond 64) while other particles have none."""
    out = []
    for _ in range(k):
        d = rng.choice([2, 3])
        S = 100 if d == 2 else 10            # 3-D: the exact fractional coordinates (v Adj(H)) must stay within 32 bits
        u = S // 10
        L = rng.randint(300, 500) * u
        H = [[L if i == j else 0 for j in range(d)] for i in range(d)]
        nb = rng.randint(70, 110)
        pts = set()
        while len(pts) < nb:
            pts.add(tuple(rng.randint(L // 2 - 15 * u, L // 2 + 15 * u) for _ in range(d)))
        while len(pts) < nb + 25:
            pts.add(tuple(rng.randint(0, L - 1) for _ in range(d)))
        pts = [list(p) for p in pts]
        rng.shuffle(pts)
        N = len(pts)
        K = 2
        types = [1, 2] + [rng.randint(1, 2) for _ in range(N - 2)]
        cfg = {"H": H, "ppp": [1] * d, "S": S, "types": types, "frames": [pts], "sharp": 0, "id": 200000 + len(out)}
        ops = [{"kind": "cut", "rn": rng.randint(38, 52) * u}, {"kind": "nn", "n": rng.randint(66, 90)},
               {"kind": "cuttype", "R": [[rng.randint(35, 50) * u, rng.randint(20, 50) * u], [rng.randint(20, 50) * u, rng.randint(35, 50) * u]]}]
        out.append({"cfg": cfg, "ops": ops})
    return out


def validate_sessions(chk, sessions, label):
    """Splits the sessions over parallel TLC trace validations."""
    import concurrent.futures as cf
    if not sessions:
        return
    nchunks = min(common.JOBS, max(1, len(sessions) // 8))
    chunks = [sessions[i::nchunks] for i in range(nchunks)]

    def one(chunk):
        recs = [r for s in chunk for r in s]
        return recs, validate_trace_all("TraceNeighbors", recs, max_rejects=5, session_start=lambda r: r["op"] in ("write", "open"))

    with cf.ThreadPoolExecutor(max_workers=nchunks) as ex:
        for recs, (res, rejects) in ex.map(one, chunks):
            chk.add_tlc(res, None)
            chk.extra["trace_records"] = chk.extra.get("trace_records", 0) + len(recs)
            rej = {i for i, _ in rejects}
            for i, clause in rejects:
                rec = recs[i]
                ctx = rec
                if rec["op"] == "read":      # attach the session's first record for context
                    j = i
                    while j > 0 and recs[j]["op"] == "read":
                        j -= 1
                    ctx = {"read": rec, "session": recs[j]}
                chk.violation("trace:" + clause, ctx)
            for i, rec in enumerate(recs):
                if i in rej:
                    continue
                if rec["op"] == "write":
                    nontriv = any(r["cn"] > 0 for fr in rec["file"] for r in fr)
                    chk.ok((label, "w", json.dumps(rec["cfg"]["frames"])[:80], str(rec["cfg"]["H"]), str(rec["cfg"]["ppp"]),
                            json.dumps(rec["spec"])), nontrivial=nontriv,
                           sample={"op": "write", "spec": rec["spec"], "H": rec["cfg"]["H"], "ppp": rec["cfg"]["ppp"],
                                   "frames": rec["cfg"]["frames"][:1], "file_first_frame": rec["file"][0]} if nontriv else None)
                elif rec["op"] == "read":
                    chk.ok((label, "r", i, json.dumps(rec["res"])[:80], rec["nmax"]), nontrivial=len(rec["res"][0]) > 1,
                           sample=None)


def run(tier, replay=None):
    common.import_lib()
    chk = Check("C05", tier)
    chk.rule = ("TLC enumerates MC_Neighbors (lattice: 4 particles in an 8x8 orthogonal/triclinic cell, all masks, 8 operations; "
                "hash: N in {5,9}, 2-D/3-D, 4 cells, 3 masks, 1/3 frames, K=1..3, 6 operations; reader: 258 abstract files x "
                "every Nmax sequence over {1,2,5} as behaviours of the Read action) and checks the C05 clauses on the canonical "
                "lists. Every emitted input is run through Nnearests / cutoffneighbors / cutoffneighbors_particletype and "
                "read_neighbors (one handle, frame by frame, varying Nmax); what was written and returned is validated record "
                "by record by TraceNeighbors.tla. B: seeded random decimal configurations, N <= 40. "
                "A write record is non-trivial when some list is non-empty, a read record when the matrix has neighbour columns.")
    chk.assumptions = ["rows whose distances are two-valued (triclinic half-cell tie) or with coincident particles are not asserted",
                       "equal distances form tie groups: any order inside a group, any subset of the last group for N-nearest",
                       "a distance exactly on the cut-off is asserted inclusive only in dyadic cells (exact float arithmetic)"]
    if replay:
        print(json.dumps(common.load_replay(replay)["case"], indent=1)[:6000])
        return 0
    cases = []
    for mode in ("reader", "hash", "lattice"):
        samp = 1
        if mode == "lattice":
            samp = 13 if tier == "quick" else 5
        g = run_tlc_sharded("MC_Neighbors", dict(constants={"Tier": tier, "Mode": mode, "Gen": True, "SAMPLE": samp,
                                                           "SALT": common.SEED % samp},
                                                 invariants=INVS + ["Emit"], properties=["FramesInOrder"]))
        require_model_ok(g, mode)
        chk.add_tlc(g, mode)
        if not g.cases:
            raise common.MachineryError(f"no cases emitted in mode {mode}")
        cs = g.cases
        if mode == "reader" and tier == "quick":
            cs = common.sample(cs, 300, salt=5)
        cases += cs
    rng = random.Random(common.SEED * 7919 + 5)
    cases += gen_configs(rng, 16 if tier == "quick" else 300)
    # scale: coordination numbers beyond 64 / 128 (size-dependent code paths), in files and from the writers
    cases += gen_big_files(rng, 6 if tier == "quick" else 60)
    cases += gen_dense(rng, 2 if tier == "quick" else 16)
    results = common.pmap(run_case, cases, chunksize=4)
    sessions = []
    for sess, viol in results:
        sessions += sess
        for clause, detail, key in viol:
            chk.violation(clause, detail, finding_key=key)
    validate_sessions(chk, sessions, "session")
    chk.exhaustive = False
    chk.extra["sessions"] = len(sessions)
    return chk.finish()
