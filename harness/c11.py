"""C11 — Hessian (PyMatterSim.static.hessians.HessianMatrix) against spec/Hessian.tla.

Direction A: TLC (MC_Hessian) chooses configurations (2-D / 3-D cells incl. triclinic,
all masks, 2-4 particles on a half-integer grid, one or two species with unequal
masses, three potentials, shift on/off), decides the interacting pair set by exact
comparison, assembles the matrix over formal block symbols by one AddPair step per
interacting pair in every order (invariants Symmetric, TranslationNull, EachPairOnce
in every state) and prints every matrix entry as a Real term.  The harness renders
the configuration into a SingleSnapshot, calls diagonalize_hessian(savehessian=True),
evaluates the terms and compares the saved matrix entry by entry; the relations
between the outputs (symmetry, translation null vectors, eigen-residual, omega^2 =
eigenvalue, participation ratio) are terms of the specification over the outputs.

Direction B: seeded random decimal configurations (up to 10 particles, random
triclinic cells, masks, cut-offs with a margin) are run through the real code; the
record carries the configuration as scaled integers and the observed set of non-zero
off-diagonal blocks; TraceHessian.tla accepts the record iff that set is the
interacting pair set it computes exactly, and prints the expected matrix terms.
"""
import json
import os
import random
import shutil

import numpy as np

from . import common
from .common import Check, run_tlc_sharded, require_model_ok
from .realeval import ev, close

INVS = ["InvSymmetric", "InvTranslation", "InvEachPair", "InvOnlyInteracting", "InvFinalAll", "InvScope"]


# --------------------------------------------------------------------------
# generic evaluation of a definition sequence  <<name, term, mode>>
# --------------------------------------------------------------------------
class LazyEnv(dict):
    """Bindings of Var leaves.  A binding made with mode "fun" holds a term, which is
    evaluated under the bindings current at the time of use."""

    def __getitem__(self, k):
        v = dict.__getitem__(self, k)
        if isinstance(v, (list, tuple)):
            return ev(v, self)
        return v


def eval_defs(defs, env=None):
    env = LazyEnv() if env is None else env
    for name, term, mode in defs:
        if mode == "fun":
            dict.__setitem__(env, name, term)
        else:
            dict.__setitem__(env, name, float(ev(term, env)))
    return env


def q(x):
    return x[0] / x[1]


# --------------------------------------------------------------------------
# rendering a configuration into the public API
# --------------------------------------------------------------------------
def table(cfg, name, flavour):
    """A K x K parameter table as the array handed to the code.  The abstract input is the function
    (species, species) -> value; memory layout and (for integer values) dtype are rendering choices:
      "float"   C-contiguous float64
      "strided" a non-contiguous float64 view (every other row / column of a larger array)
      "int"     integer dtype, where every value of the table is an integer (else float64)"""
    K = len(cfg["mroot"])
    vals = [[cfg[name][a][b] for b in range(K)] for a in range(K)]
    if flavour == "int" and all(v[1] == 1 for row in vals for v in row):
        return np.array([[v[0] for v in row] for row in vals], dtype=int)
    arr = np.array([[q(v) for v in row] for row in vals], dtype=float)
    if flavour == "strided":
        big = np.full((2 * K, 2 * K), -7.5)
        big[::2, ::2] = arr
        return big[::2, ::2]
    return arr


def flavour_of(cfg):
    """Rendering flavour of the parameter tables and of the mass values, picked from the content."""
    h = sum(sum(v) for v in cfg["pos"]) + 3 * len(cfg["pos"]) + sum(cfg["typ"])
    return ("float", "strided", "int")[h % 3]


def mass_map(cfg, flavour="float"):
    """The mass map species -> mass as a dict written down in the order the specification picked (`morder`;
    ascending for records that carry none).  Integer masses are plain ints in the "int" flavour."""
    K = len(cfg["mroot"])
    order = cfg.get("morder") or list(range(1, K + 1))
    out = {}
    for t in order:
        m = cfg["mroot"][t - 1]
        num, den = m[0] * m[0], m[1] * m[1]
        out[int(t)] = (num // den) if (flavour == "int" and num % den == 0) else num / den
    return out


def render(lib, cfg, int_eps=False, flavour=None):
    from PyMatterSim.reader.reader_utils import SingleSnapshot
    flavour = flavour or flavour_of(cfg)
    S = cfg["S"]
    H = np.array(cfg["H"], dtype=float) / S
    pos = np.array(cfg["pos"], dtype=float) / S
    d = cfg["dim"]
    K = len(cfg["mroot"])
    lengths = np.array([H[k, k] for k in range(d)])
    bounds = np.array([[0.0, lengths[k]] for k in range(d)])
    snap = SingleSnapshot(timestep=0, nparticle=len(pos), particle_type=np.array(cfg["typ"]), positions=pos,
                          boxlength=lengths, boxbounds=bounds, realbounds=bounds, hmatrix=H)
    masses = mass_map(cfg, flavour)
    mat = lambda name: table(cfg, name, flavour)
    eps = table(cfg, "eps", "float" if flavour == "int" else flavour)
    if int_eps:      # integer-valued energies given as an integer array
        eps = np.array([[cfg["eps"][a][b][0] // cfg["eps"][a][b][1] for b in range(K)] for a in range(K)])
    hm = lib.HessianMatrix(snapshot=snap, masses=masses, epsilons=eps, sigmas=mat("sigma"), r_cuts=mat("rc"),
                           ppp=np.array(cfg["ppp"]), shiftpotential=bool(cfg["shift"]))
    ip = lib.InteractionParams(model_name=lib.ModelName[cfg["model"]], ipl_n=q(cfg["n"]), ipl_A=q(cfg["A"]),
                               harmonic_hertz_alpha=q(cfg["alpha"]))
    return hm, ip


def run_code(lib, cfg, tmp, tag="case", saveevecs=True, savehessian=True, int_eps=False, default_name=False):
    import pandas as pd
    hm, ip = render(lib, cfg, int_eps=int_eps)
    out = os.path.join(tmp, tag)
    with np.errstate(all="ignore"):
        if default_name:     # outputfile omitted: the files are named after the model, in the working directory
            cwd = os.getcwd()
            os.chdir(tmp)
            try:
                hm.diagonalize_hessian(interaction_params=ip, saveevecs=saveevecs, savehessian=savehessian)
            finally:
                os.chdir(cwd)
            out = os.path.join(tmp, cfg["model"])
        else:
            hm.diagonalize_hessian(interaction_params=ip, saveevecs=saveevecs, savehessian=savehessian, outputfile=out)
    res = {"csv": pd.read_csv(out + ".omega_PR.csv")}
    res["matrix"] = np.load(out + ".hessianmatrix.npy") if os.path.exists(out + ".hessianmatrix.npy") else None
    res["evecs"] = np.load(out + ".evecs.npy") if os.path.exists(out + ".evecs.npy") else None
    for suf in (".omega_PR.csv", ".hessianmatrix.npy", ".evecs.npy"):
        if os.path.exists(out + suf):
            os.remove(out + suf)
    return res


def cfg_view(case):
    keys = ("dim", "S", "H", "ppp", "pos", "typ", "mroot", "morder", "model", "shift", "eps", "sigma", "rc", "n", "A", "alpha")
    return {k: case[k] for k in keys if k in case}


def note_scope(chk, cfg, direction):
    """Evidence of what was exercised: present/absent pattern of the species table, order of the masses dict."""
    K = len(cfg["mroot"])
    pat = chk.extra.setdefault("species_patterns[K:present]", {})
    key = f"{K}:{''.join(str(t) for t in sorted(set(cfg['typ'])))}"
    pat[key] = pat.get(key, 0) + 1
    present = sorted(set(cfg["typ"]))
    unequal = len({tuple(cfg["mroot"][t - 1]) for t in range(1, K + 1)}) > 1
    asc = list(cfg.get("morder") or range(1, K + 1)) == list(range(1, K + 1))
    if unequal and not asc:
        chk.extra["cases_with_masses_dict_not_in_key_order"] = chk.extra.get("cases_with_masses_dict_not_in_key_order", 0) + 1
    fl = chk.extra.setdefault("table_renderings", {})
    fl[flavour_of(cfg)] = fl.get(flavour_of(cfg), 0) + 1


ALL_PATTERNS = ("1:1", "2:1", "2:2", "2:12", "3:1", "3:2", "3:3", "3:12", "3:13", "3:23", "3:123")


# --------------------------------------------------------------------------
# comparison of one case
# --------------------------------------------------------------------------
def expected_matrix(case):
    env = eval_defs(case["defs"])
    return np.array([[float(ev(t, env)) for t in row] for row in case["matrix"]], dtype=float), env


def block_of(p, dim):
    return p // dim + 1


def matrices_equal(obs, exp):
    scale = float(np.max(np.abs(exp))) if exp.size else 0.0
    return (obs is not None and obs.shape == exp.shape and bool(np.all(np.isfinite(obs)))
            and not np.any(np.abs(obs - exp) > 1e-9 + 1e-9 * np.abs(exp) + 1e-13 * scale))


def compact_species(cfg):
    """The same physical model with the species table reduced to the species that occur (relabelled 1..K' in
    order): an equivalent input, used only to NAME the cause of a mismatch."""
    present = sorted(set(cfg["typ"]))
    new = {t: k + 1 for k, t in enumerate(present)}
    c = dict(cfg)
    c["typ"] = [new[t] for t in cfg["typ"]]
    c["mroot"] = [cfg["mroot"][t - 1] for t in present]
    for name in ("eps", "sigma", "rc"):
        c[name] = [[cfg[name][a - 1][b - 1] for b in present] for a in present]
    c["morder"] = [new[t] for t in (cfg.get("morder") or range(1, len(cfg["mroot"]) + 1)) if t in new]
    return c


def name_the_cause(lib, case, cfg, exp, tmp):
    """Called only after the saved matrix differed from the specification: which rendering choice does the
    code's answer depend on although the abstract input does not?  Returns a clause or None."""
    K = len(cfg["mroot"])
    try:
        if cfg.get("morder") and list(cfg["morder"]) != list(range(1, K + 1)):
            r2 = run_code(lib, dict(cfg, morder=list(range(1, K + 1))), tmp, tag="asc")
            if matrices_equal(np.asarray(r2["matrix"], dtype=float), exp):
                return "matrix:depends-on-the-order-the-masses-dict-was-written-in"
        if len(set(cfg["typ"])) < K:
            r3 = run_code(lib, compact_species(cfg), tmp, tag="compact")
            if matrices_equal(np.asarray(r3["matrix"], dtype=float), exp):
                return "matrix:species-index-wrong-when-a-species-of-the-tables-is-absent"
        if flavour_of(cfg) != "float":
            hm, ip = render(lib, cfg, flavour="float")
            out = os.path.join(tmp, "plain")
            with np.errstate(all="ignore"):
                hm.diagonalize_hessian(interaction_params=ip, saveevecs=False, savehessian=True, outputfile=out)
            m4 = np.asarray(np.load(out + ".hessianmatrix.npy"), dtype=float)
            for suf in (".omega_PR.csv", ".hessianmatrix.npy", ".evecs.npy"):
                if os.path.exists(out + suf):
                    os.remove(out + suf)
            if matrices_equal(m4, exp):
                return f"matrix:depends-on-array-layout-or-dtype-of-the-tables[{flavour_of(cfg)}]"
    except Exception:
        return None
    return None


def compare_matrix(chk, case, obs, exp, clause=None):
    """Entry-wise comparison.  Returns True when equal."""
    dim = case["dim"]
    scale = float(np.max(np.abs(exp))) if exp.size else 0.0
    if obs.shape != exp.shape:
        chk.violation("matrix:shape", dict(cfg_view(case), observed_shape=list(obs.shape), expected_shape=list(exp.shape)))
        return False
    if not np.all(np.isfinite(obs)):
        chk.violation("matrix:not-finite", dict(case_for_replay(case), observed=obs.tolist()))
        return False
    tol = 1e-9 + 1e-9 * np.abs(exp) + 1e-13 * scale
    bad = np.argwhere(np.abs(obs - exp) > tol)
    if len(bad) == 0:
        return True
    diag_bad = any(block_of(p, dim) == block_of(qq, dim) for p, qq in bad)
    off_bad = any(block_of(p, dim) != block_of(qq, dim) for p, qq in bad)
    p, qq = (int(x) for x in bad[0])
    where = "diagonal-block" if diag_bad and not off_bad else "offdiagonal-block" if off_bad and not diag_bad else "blocks"
    unequal = len({tuple(m) for m in case["mroot"]}) > 1 and len(set(case["typ"])) > 1
    key = "diagonal-block-mass-weighting" if (where == "diagonal-block" and unequal) else None
    chk.violation(clause or f"matrix:{where}", dict(case_for_replay(case), first_bad_entry=[p + 1, qq + 1],
                                           masses_dict_order=case.get("morder"), table_rendering=flavour_of(cfg_view(case)),
                                           observed_entry=float(obs[p, qq]), expected_entry=float(exp[p, qq]),
                                           n_bad_entries=int(len(bad)), observed=obs.tolist(), expected=exp.tolist()),
                  finding_key=key)
    return False


def case_for_replay(case):
    c = {k: v for k, v in case.items() if k not in ("shape",)}
    return c


def check_outputs(chk, case, res, shape, exp_scale):
    """Relations between the code's own outputs, stated by the spec as terms over the outputs."""
    Hm, V, csv = res["matrix"], res["evecs"], res["csv"]
    n = Hm.shape[0]
    scale = max(float(np.max(np.abs(Hm))) if Hm.size else 0.0, exp_scale)
    tol = 1e-9 + 1e-11 * scale
    base = case_for_replay(case)
    ok = True
    # symmetric
    asym = float(np.max(np.abs(Hm - Hm.T))) if Hm.size else 0.0
    if asym > 1e-9 + 1e-12 * scale:
        chk.violation("symmetric", dict(base, max_asymmetry=asym, observed=Hm.tolist()))
        ok = False
    henv = {f"h_{p + 1}_{c + 1}": float(Hm[p, c]) for p in range(n) for c in range(n)}
    # mass-weighted uniform translations are annihilated (terms present iff fully periodic)
    for a, rows in enumerate(case.get("trans") or []):
        vals = [float(ev(t, henv)) for t in rows]
        worst = max(abs(v) for v in vals)
        if worst > tol:
            chk.violation("translation-null", dict(base, axis=a + 1, H_times_translation=vals, observed=Hm.tolist()))
            ok = False
            break
    if V is None or V.shape != (n, n) or len(csv) != n or list(csv.columns) != ["omega", "PR"]:
        chk.violation("outputs:shape", dict(base, evecs_shape=None if V is None else list(V.shape), csv_rows=len(csv),
                                            csv_columns=list(csv.columns)))
        return False
    omega = csv["omega"].to_numpy(dtype=float)
    PR = csv["PR"].to_numpy(dtype=float)
    for k in range(n):
        env = dict(henv)
        for p in range(n):
            env[f"v_{p + 1}"] = float(V[p, k])
        vn = float(ev(shape["vnorm"], env))
        lam = float(ev(shape["rayleigh"], env)) / vn if vn > 0 else float("nan")
        env["lam"] = lam
        resid = [float(ev(t, env)) for t in shape["residual"]]
        info = dict(base, mode=k + 1, omega=float(omega[k]), PR=float(PR[k]), rayleigh=lam, vnorm=vn)
        if not abs(vn - 1.0) <= 1e-9 or max(abs(x) for x in resid) > tol:
            chk.violation("eigen-residual", dict(info, residual=resid))
            return False
        # omega^2 = eigenvalue for positive eigenvalues; non-positive ones have no real root
        if not np.isfinite(omega[k]):
            chk.violation("omega:not-finite", info)
            return False
        if lam > tol:
            if not (omega[k] > 0 and abs(omega[k] ** 2 - lam) <= tol + 1e-9 * abs(lam)):
                chk.violation("omega-squared", info)
                return False
        elif lam < -tol:
            if omega[k] > 0:
                chk.violation("omega-of-negative-eigenvalue", info)
                return False
        elif abs(omega[k]) > np.sqrt(2 * tol) + 2 * tol:
            chk.violation("omega-squared", info)
            return False
        pr_exp = float(ev(shape["pr"], env))
        if not close(float(PR[k]), pr_exp) or not (0.0 < PR[k] <= 1.0 + 1e-12):
            chk.violation("participation-ratio", dict(info, PR_expected=pr_exp))
            return False
    return ok


def check_pair_blocks(chk, lib, case, env):
    """The public pair_matrix(Rji, [s1, s1rc, s2]) against the block-entry terms K<k>_<ab> of every
    interacting pair (the triple comes from PairInteractions.caller, which is C12's subject)."""
    hm, ip = render(lib, cfg_view(case))
    dim, S = case["dim"], case["S"]
    for k, pr in enumerate(case["pairs"], start=1):
        if not pr["inter"]:
            continue
        ti, tj = case["typ"][pr["i"] - 1] - 1, case["typ"][pr["j"] - 1] - 1
        rji = np.array(pr["d"], dtype=float) / S
        with np.errstate(all="ignore"):
            try:
                dudrs = lib.PairInteractions(float(np.linalg.norm(rji)), q(case["eps"][ti][tj]), q(case["sigma"][ti][tj]),
                                             q(case["rc"][ti][tj]), bool(case["shift"])).caller(ip)
                bi, bj = hm.pair_matrix(rji, dudrs)
            except Exception as e:
                chk.violation(f"raises:{type(e).__name__}", dict(case_for_replay(case), call="pair_matrix", pair=[pr["i"], pr["j"]], error=str(e)))
                return False
        kexp = np.array([[env[f"K{k}_{min(a, b) + 1}{max(a, b) + 1}"] for b in range(dim)] for a in range(dim)], dtype=float)
        tol = 1e-9 + 1e-9 * np.abs(kexp)
        bi, bj = np.asarray(bi, dtype=float), np.asarray(bj, dtype=float)
        if bi.shape != kexp.shape or np.any(np.abs(bi - kexp) > tol) or np.any(np.abs(bj + kexp) > tol):
            chk.violation("pair_matrix", dict(case_for_replay(case), pair=[pr["i"], pr["j"]], Rji=rji.tolist(),
                                              dudrs=[float(x) for x in dudrs], observed_i=bi.tolist(), observed_j=bj.tolist(),
                                              expected_i=kexp.tolist()))
            return False
    return True


def check_session(chk, lib, case, cfg, tmp):
    """Several diagonalize_hessian calls on ONE HessianMatrix object (the spec's Calls: other potentials / other
    scalar parameters on the same configuration, then the first call again): every saved matrix must be the one
    the specification derives for that call, whatever was computed before on the object."""
    hm, ip0 = render(lib, cfg)
    seq = [dict(c, tag=f"alt{k}") for k, c in enumerate(case["calls"])]
    base = {"model": case["model"], "n": case["n"], "A": case["A"], "alpha": case["alpha"], "defs": case["defs"], "tag": "again"}
    order = [base] + seq + [base]
    for k, call in enumerate(order):
        env = eval_defs(call["defs"])
        exp = np.array([[float(ev(t, env)) for t in row] for row in case["matrix"]], dtype=float)
        ip = lib.InteractionParams(model_name=lib.ModelName[call["model"]], ipl_n=q(call["n"]), ipl_A=q(call["A"]),
                                   harmonic_hertz_alpha=q(call["alpha"]))
        out = os.path.join(tmp, f"sess{k}")
        try:
            with np.errstate(all="ignore"):
                hm.diagonalize_hessian(interaction_params=ip, saveevecs=False, savehessian=True, outputfile=out)
            obs = np.asarray(np.load(out + ".hessianmatrix.npy"), dtype=float)
        except Exception as e:
            chk.violation(f"raises:{type(e).__name__}", dict(cfg, error=str(e), call=f"call {k} of a session on one object"))
            return False
        finally:
            for suf in (".omega_PR.csv", ".hessianmatrix.npy", ".evecs.npy"):
                if os.path.exists(out + suf):
                    os.remove(out + suf)
        scale = float(np.max(np.abs(exp))) if exp.size else 0.0
        if obs.shape != exp.shape or np.any(np.abs(obs - exp) > 1e-9 + 1e-9 * np.abs(exp) + 1e-13 * scale):
            chk.violation("session:matrix-depends-on-earlier-calls",
                          dict(cfg, call_index=k, calls=[{kk: c[kk] for kk in ("model", "n", "A", "alpha")} for c in order],
                               observed=obs.tolist(), expected=exp.tolist()))
            return False
        chk.extra["session_calls_compared"] = chk.extra.get("session_calls_compared", 0) + 1
    return True


def check_two_objects(chk, lib, prev, cur, tmp):
    """Two HessianMatrix objects alive at once (each with its own snapshot, mass map and tables), used alternately:
    current, previous, current.  Objects are independent: every saved matrix is the one of its own configuration."""
    try:
        a, ipa = render(lib, prev["cfg"])
        b, ipb = render(lib, cur["cfg"])
    except Exception as e:
        chk.violation(f"raises:{type(e).__name__}", dict(cur["cfg"], error=str(e), call="two objects: construction"))
        return False
    for k, (hm, ip, who) in enumerate(((b, ipb, cur), (a, ipa, prev), (b, ipb, cur))):
        out = os.path.join(tmp, f"two{k}")
        try:
            with np.errstate(all="ignore"):
                hm.diagonalize_hessian(interaction_params=ip, saveevecs=False, savehessian=True, outputfile=out)
            obs = np.asarray(np.load(out + ".hessianmatrix.npy"), dtype=float)
        except Exception as e:
            chk.violation(f"raises:{type(e).__name__}", dict(who["cfg"], error=str(e), call=f"call {k} on two objects used alternately"))
            return False
        finally:
            for suf in (".omega_PR.csv", ".hessianmatrix.npy", ".evecs.npy"):
                if os.path.exists(out + suf):
                    os.remove(out + suf)
        if not matrices_equal(obs, who["exp"]):
            chk.violation("objects:matrix-depends-on-another-object",
                          dict(who["cfg"], call_index=k, other_object=(prev if who is cur else cur)["cfg"],
                               observed=obs.tolist(), expected=who["exp"].tolist()))
            return False
    chk.extra["two_object_sessions"] = chk.extra.get("two_object_sessions", 0) + 1
    return True


PREV = {}


def replay_case(chk, lib, case, shapes, tmp, extra_paths=False):
    cfg = cfg_view(case)
    dim, N = case["dim"], len(case["pos"])
    if case["m"] == "HessianSkipped":
        chk.tie()
        return
    hertz = case["model"] == "harmonic_hertz"
    # a pair exactly at the cut-off: asserted sharply only where the code's arithmetic is exact
    # (dyadic cell); the Hertz law is singular at contact (alpha <= 2): always a tie
    if case["edge"] and (hertz or not case["dyadic"]):
        chk.tie()
        return
    exp, env = expected_matrix(case)
    try:
        res = run_code(lib, cfg, tmp)
    except Exception as e:
        chk.violation(f"raises:{type(e).__name__}", dict(case_for_replay(case), error=str(e)))
        return
    if not check_pair_blocks(chk, lib, case, env):
        return
    if res["matrix"] is None:
        chk.violation("outputs:no-matrix-file", case_for_replay(case))
        return
    obs = np.asarray(res["matrix"], dtype=float)
    cause = None if matrices_equal(obs, exp) else name_the_cause(lib, case, cfg, exp, tmp)
    ok = compare_matrix(chk, case, obs, exp, clause=cause)
    shape = shapes.get((N, dim))
    if shape is None:
        raise common.MachineryError(f"no shape terms for N={N} dim={dim}")
    ok = check_outputs(chk, case, res, shape, float(np.max(np.abs(exp))) if exp.size else 0.0) and ok
    if ok and all(e[0] % e[1] == 0 for row in case["eps"] for e in row):
        # the same energies as an integer array must give the same matrix
        try:
            res3 = run_code(lib, cfg, tmp, tag="inteps", int_eps=True)
            obs3 = np.asarray(res3["matrix"], dtype=float)
            scale = float(np.max(np.abs(exp))) if exp.size else 0.0
            if obs3.shape != exp.shape or np.any(np.abs(obs3 - exp) > 1e-9 + 1e-9 * np.abs(exp) + 1e-13 * scale):
                chk.violation("matrix:integer-typed-epsilons", dict(case_for_replay(case), int_eps=True, observed=obs3.tolist(),
                                                                     expected=exp.tolist()), finding_key="integer-typed-epsilons")
                ok = False
        except Exception as e:
            chk.violation(f"raises:{type(e).__name__}", dict(cfg, error=str(e), call="integer-typed epsilons"))
            ok = False
    if ok and case.get("calls") and not case["edge"]:
        ok = check_session(chk, lib, case, cfg, tmp)
    if ok and not case["edge"]:
        cur = {"cfg": cfg, "exp": exp}
        if PREV.get("case") is not None:
            ok = check_two_objects(chk, lib, PREV["case"], cur, tmp)
        PREV["case"] = cur
    if ok and extra_paths:
        # the save flags: nothing but the csv is written, and it is the same csv; default output name
        try:
            res2 = run_code(lib, cfg, tmp, tag="noflags", saveevecs=False, savehessian=False)
            if res2["matrix"] is not None or res2["evecs"] is not None:
                chk.violation("save-flags", dict(cfg, note="files written although saveevecs/savehessian were False"))
                ok = False
            elif not np.allclose(res2["csv"].to_numpy(), res["csv"].to_numpy(), rtol=1e-12, atol=1e-12, equal_nan=True):
                chk.violation("save-flags:csv-differs", cfg)
                ok = False
            res4 = run_code(lib, cfg, tmp, default_name=True)
            if res4["matrix"] is None or not np.array_equal(np.asarray(res4["matrix"]), np.asarray(res["matrix"])):
                chk.violation("default-output-name", dict(cfg, note="outputfile omitted: <model name>.hessianmatrix.npy missing or different"))
                ok = False
        except Exception as e:
            chk.violation(f"raises:{type(e).__name__}", dict(cfg, error=str(e), call="save flags / default output name"))
            ok = False
    if ok:
        ninter = sum(1 for p in case["pairs"] if p["inter"])
        chk.ok(("A", json.dumps(case["ix"], sort_keys=True), dim), nontrivial=ninter > 0,
               sample={"cfg": cfg, "interacting_pairs": [[p["i"], p["j"]] for p in case["pairs"] if p["inter"]],
                       "expected_row_1": exp[0].tolist() if exp.size else []})
        chk.extra["entries_compared"] = chk.extra.get("entries_compared", 0) + int(exp.size)
        key = f"{case['model']}|shift={'on' if case['shift'] else 'off'}|dim={dim}"
        cov = chk.extra.setdefault("cases_by_model_shift_dim", {})
        cov[key] = cov.get(key, 0) + 1
        if case["edge"]:
            chk.extra["cutoff_boundary_cases_asserted"] = chk.extra.get("cutoff_boundary_cases_asserted", 0) + 1
        note_scope(chk, cfg, "A")


# --------------------------------------------------------------------------
# direction B
# --------------------------------------------------------------------------
def gen_records(rng, nrec):
    """Random decimal configurations (scale 10), cut-offs k/10 kept at least 1e-6 away (relative,
    in squared length) from every pair distance; coincident particles and half-cell ties redrawn."""
    recs = []
    models = ["lennard_jones", "inverse_power_law", "harmonic_hertz"]
    while len(recs) < nrec:
        d = rng.choice([2, 3])
        S = 10
        N = rng.randint(3, 10 if d == 2 else 7)
        H = [[0] * d for _ in range(d)]
        for i in range(d):
            H[i][i] = rng.randint(25, 60)
            if rng.random() < 0.6:
                for j in range(i):
                    H[i][j] = rng.randint(-H[j][j] // 2, H[j][j] // 2)
        ppp = [rng.randint(0, 1) for _ in range(d)]
        if rng.random() < 0.4:
            ppp = [1] * d
        pos = [[rng.randint(-10, 70) for _ in range(d)] for _ in range(N)]
        # species table of K species of which a random non-empty subset occurs (N >= 3 >= K)
        K = rng.choice([1, 2, 2, 3, 3])
        present = [t for t in range(1, K + 1) if rng.random() < 0.6] or [rng.randint(1, K)]
        typ = [rng.choice(present) for _ in range(N)]
        for k, t in enumerate(rng.sample(present, len(present))):
            typ[k] = t                       # every chosen species does occur
        rng.shuffle(typ)
        roots = [[1, 1], [2, 1], [3, 1], [3, 2], [1, 2], [5, 4]]
        mroot = rng.sample(roots, K)         # unequal masses
        morder = list(range(1, K + 1))       # the order in which the masses dict is written down
        how = rng.randint(0, 3)
        if how == 1:
            morder.reverse()
        elif how == 2:
            morder = morder[1:] + morder[:1]
        elif how == 3:
            rng.shuffle(morder)
        model = rng.choice(models)
        sym = lambda f: [[f(min(a, b), max(a, b)) for b in range(K)] for a in range(K)]
        sg = {(a, b): rng.randint(8, 16) for a in range(K) for b in range(a, K)}
        cut = {(a, b): (sg[(a, b)] if model == "harmonic_hertz" else rng.randint(15, 32)) for a in range(K) for b in range(a, K)}
        ee = {(a, b): rng.randint(5, 20) for a in range(K) for b in range(a, K)}
        rec = {"dim": d, "S": S, "H": H, "ppp": ppp, "pos": pos, "typ": typ, "mroot": mroot, "morder": morder, "model": model,
               "shift": rng.random() < 0.5,
               "eps": sym(lambda a, b: [ee[(a, b)], 10]), "sigma": sym(lambda a, b: [sg[(a, b)], 10]),
               "rc": sym(lambda a, b: [cut[(a, b)], 10]),
               "n": rng.choice([[12, 1], [10, 1], [5, 2], [7, 3]]), "A": rng.choice([[1, 1], [2, 3], [4, 1]]),
               "alpha": rng.choice([[2, 1], [5, 2], [3, 1]])}
        recs.append(rec)
    return recs


def observed_pattern(Hm, N, dim, scale_floor=0.0):
    pat = []
    for i in range(N):
        for j in range(i + 1, N):
            blk = Hm[i * dim:(i + 1) * dim, j * dim:(j + 1) * dim]
            blk2 = Hm[j * dim:(j + 1) * dim, i * dim:(i + 1) * dim]
            if np.any(blk != 0.0) or np.any(blk2 != 0.0):
                pat.append([i + 1, j + 1])
    return pat


def direction_b(chk, lib, tmp, nrec):
    rng = random.Random(common.SEED * 104729 + 11)
    recs = gen_records(rng, nrec)
    runs = {}
    trace = []
    raised = {}
    for rid, rec in enumerate(recs):
        try:
            res = run_code(lib, rec, tmp, tag="b")
        except Exception as e:
            # whether the input is in the domain (no coincident particles under the periodic images, no half-cell tie) is
            # decided by the specification: the record goes to TraceHessian as "nothing delivered"; a tie is skipped,
            # anything else is reported as raises:<Type>
            raised[rid] = e
            t = dict(rec)
            t.update(id=rid, shift=1 if rec["shift"] else 0, pattern=[], symmetric=0, finite=0)
            trace.append(t)
            runs[rid] = (rec, None, t)
            continue
        Hm = np.asarray(res["matrix"], dtype=float)
        N, dim = len(rec["pos"]), rec["dim"]
        finite = bool(np.all(np.isfinite(Hm)))
        t = dict(rec)
        t["id"] = rid
        t["shift"] = 1 if rec["shift"] else 0
        t["pattern"] = observed_pattern(Hm, N, dim) if finite else []
        t["symmetric"] = 1 if (finite and np.max(np.abs(Hm - Hm.T), initial=0.0)
                               <= 1e-9 + 1e-12 * np.max(np.abs(Hm), initial=0.0)) else 0
        t["finite"] = 1 if finite else 0
        trace.append(t)
        runs[rid] = (rec, res, t)
    if not trace:
        return
    r, rejects = common.validate_trace_all("TraceHessian", trace, timeout=3000, max_rejects=20)
    chk.add_tlc(r, "TraceHessian")
    rejected = set()
    for idx, clause in rejects:
        rec, res, t = runs[trace[idx]["id"]]
        rejected.add(trace[idx]["id"])
        if clause.startswith("BadRecord"):
            raise common.MachineryError(f"the recorder produced a malformed trace record: {json.dumps(rec)}")
        if trace[idx]["id"] in raised:
            e = raised[trace[idx]["id"]]
            chk.violation(f"raises:{type(e).__name__}", dict(rec, error=str(e), direction="B"))
            continue
        chk.violation("trace:" + clause, dict(rec, direction="B", observed_pattern=t["pattern"],
                                              symmetric=t["symmetric"], finite=t["finite"]))
    printed = {c["id"]: c for c in r.cases if c.get("m") in ("TraceExpect", "TraceTie")}
    for rid, (rec, res, t) in runs.items():
        if rid in rejected:
            continue
        case = printed.get(rid)
        if case is None:
            if len(rejects) >= 20:
                continue      # validation stopped after too many rejections
            raise common.MachineryError(f"TraceHessian printed nothing for accepted record {rid}")
        if case["m"] == "TraceTie":
            chk.tie()
            continue
        if rid in raised:
            raise common.MachineryError(f"TraceHessian accepted record {rid} although nothing was delivered")
        if not case["formal"]:
            raise common.MachineryError(f"formal clauses fail on the assembled matrix of trace record {rid}")
        env = eval_defs(case["defs"])
        exp = np.array([[float(ev(x, env)) for x in row] for row in case["matrix"]], dtype=float)
        full = dict(rec, m="Hessian", defs=case["defs"], matrix=case["matrix"], pairs=case["pairs"], edge=False,
                    dyadic=False, ix={"B": rid}, trans=case.get("trans") or [], direction="B")
        Hm = np.asarray(res["matrix"], dtype=float)
        cause = None if matrices_equal(Hm, exp) else name_the_cause(lib, full, rec, exp, tmp)
        if not compare_matrix(chk, full, Hm, exp, clause=cause):
            continue
        note_scope(chk, rec, "B")
        if check_outputs(chk, full, res, case["shape"], float(np.max(np.abs(exp), initial=0.0))):
            chk.ok(("B", rid), nontrivial=len(t["pattern"]) > 0)
            chk.extra["entries_compared"] = chk.extra.get("entries_compared", 0) + int(exp.size)
    chk.extra["trace_records"] = len(trace)
    # binding self-test: one corrupted field must be rejected at exactly that record
    clean = [t for t in trace if t["id"] not in rejected and printed.get(t["id"], {}).get("m") == "TraceExpect"][:3]
    if len(clean) == 3:
        N = len(clean[1]["pos"])
        allp = [[i + 1, j + 1] for i in range(N) for j in range(i + 1, N)]
        cor = dict(clean[1])
        cor["pattern"] = cor["pattern"][1:] if cor["pattern"] else [allp[0]]
        # (the three records were each accepted uncorrupted by the run above: a regression of the library cannot
        #  reach this point with a record the specification rejects; should the corrupted trace nevertheless not
        #  be rejected as expected, the uncorrupted triple is validated again before the machinery is blamed)
        _, rej = common.validate_trace("TraceHessian", [clean[0], cor, clean[2]], timeout=1800)
        if rej is None or rej[0] != 1 or rej[1] != "InteractingPairSet":
            _, rej0 = common.validate_trace("TraceHessian", clean, timeout=1800)
            if rej0 is not None:
                chk.extra["corrupted_record_selftest"] = f"skipped: the uncorrupted records are rejected on re-validation ({rej0})"
                chk.violation("trace:" + str(rej0[1]), dict(clean[rej0[0]], direction="B", note="rejected on re-validation"))
            else:
                raise common.MachineryError(f"corrupt-one-field self-test: expected rejection of record 1 by InteractingPairSet, got {rej}")
        else:
            chk.extra["corrupted_record_rejected"] = True
    else:
        chk.extra["corrupted_record_selftest"] = "skipped: fewer than three records accepted by the specification"


def lattice_record(rng, rid):
    """Scale: 7 x 7 x 7 sites of one species (mass 9/4), cut-off 3.7 lattice spacings: 202 neighbours per particle, 69 286
    directed interacting pairs (beyond 2^16: batched / chunked assembly paths).  The order of the particles is shuffled."""
    import itertools
    n, a = [7, 7, 7], 10
    sites = [[a * x for x in s_] for s_ in itertools.product(*[range(k) for k in n])]
    rng.shuffle(sites)
    model = rng.choice(["lennard_jones", "inverse_power_law"])
    return {"dim": 3, "S": 10, "H": [[(n[i] * a if i == j else 0) for j in range(3)] for i in range(3)], "ppp": [1, 1, 1],
            "pos": sites, "typ": [1] * len(sites), "mroot": [[3, 2]], "morder": [1], "model": model, "shift": True,
            "eps": [[[13, 10]]], "sigma": [[[11, 10]]], "rc": [[[37, 10]]], "n": [10, 1], "A": [2, 3], "alpha": [2, 1],
            "lat": {"n": n, "a": a}, "id": rid}


def check_lattice(chk, lib, tmp, rng):
    """One lattice record at scale, decided from the row of particle 1 (Hessian!GeoOne, LatticeLemma): TraceHessian prints the
    table index difference -> block terms; the blocks are placed here by index arithmetic and compared entry by entry."""
    rec = lattice_record(rng, 900001)
    try:
        res = run_code(lib, rec, tmp, tag="lat", saveevecs=False)
    except Exception as e:
        chk.violation(f"raises:{type(e).__name__}", dict({k: v for k, v in rec.items() if k != "pos"}, error=str(e), direction="B-lattice"))
        return
    Hm = np.asarray(res["matrix"], dtype=float)
    finite = bool(np.all(np.isfinite(Hm)))
    t = dict(rec)
    t.update(shift=1, pattern=[], finite=1 if finite else 0,
             symmetric=1 if (finite and np.max(np.abs(Hm - Hm.T), initial=0.0) <= 1e-9 + 1e-12 * np.max(np.abs(Hm), initial=0.0)) else 0)
    r, rejects = common.validate_trace_all("TraceHessian", [t], timeout=1800, max_rejects=2)
    chk.add_tlc(r, "TraceHessian (lattice record)")
    small = {k: v for k, v in rec.items() if k != "pos"}
    if rejects:
        if rejects[0][1].startswith("BadRecord"):
            raise common.MachineryError("the lattice record is rejected as malformed")
        chk.violation("trace:" + rejects[0][1], dict(small, direction="B-lattice"))
        return
    case = next((c for c in r.cases if c.get("m") in ("TraceLattice", "TraceTie")), None)
    if case is None or case["m"] != "TraceLattice":
        raise common.MachineryError("TraceHessian printed no lattice expectation")
    env = eval_defs(case["defs"])
    dim, n, a = rec["dim"], rec["lat"]["n"], rec["lat"]["a"]
    N = len(rec["pos"])
    m = (case["mroot"][0] / case["mroot"][1]) ** 2
    idx = [tuple(x // a for x in p_) for p_ in rec["pos"]]
    who = {u: i for i, u in enumerate(idx)}
    blocks = []
    for row in case["table"]:
        K = np.zeros((dim, dim))
        for a_ in range(dim):
            for b_ in range(a_, dim):
                K[a_, b_] = K[b_, a_] = env[f"K{row['k']}_{a_ + 1}{b_ + 1}"]
        blocks.append((tuple(row["delta"]), K / m))
    exp = np.zeros((N * dim, N * dim))
    diag = sum(K for _, K in blocks)
    for i, u in enumerate(idx):
        exp[i * dim:(i + 1) * dim, i * dim:(i + 1) * dim] = diag
        for delta, K in blocks:
            j = who[tuple((u[k] + delta[k]) % n[k] for k in range(dim))]
            exp[i * dim:(i + 1) * dim, j * dim:(j + 1) * dim] = -K
    chk.extra["lattice_record"] = {"particles": N, "neighbours_per_particle": len(blocks), "directed_interacting_pairs": N * len(blocks),
                                   "model": rec["model"]}
    if N * len(blocks) <= 65536:
        raise common.MachineryError("the lattice record does not reach 2^16 directed pairs")
    if not matrices_equal(Hm, exp):
        bad = np.argwhere(np.abs(Hm - exp) > 1e-9 + 1e-9 * np.abs(exp) + 1e-13 * np.max(np.abs(exp)))
        p_, q_ = (int(x) for x in bad[0]) if len(bad) else (0, 0)
        chk.violation("matrix:blocks:lattice", dict(small, direction="B-lattice", entries_differing=int(len(bad)),
                                                    first=[p_, q_], observed=float(Hm[p_, q_]), expected=float(exp[p_, q_]),
                                                    particle=p_ // dim + 1, other=q_ // dim + 1))
        return
    chk.ok(("B-lattice", rec["model"]), nontrivial=True)
    chk.extra["entries_compared"] = chk.extra.get("entries_compared", 0) + int(exp.size)


# --------------------------------------------------------------------------
def run(tier, replay=None):
    common.import_lib()
    import PyMatterSim.static.hessians as lib
    chk = Check("C11", tier)
    chk.rule = ("A: TLC assembles the formal Hessian of every chosen configuration by AddPair steps in every order "
                "(invariants in every state), prints all entries as terms; every printed case is replayed into "
                "HessianMatrix.diagonalize_hessian and the saved matrix compared entry-wise; symmetry, translation null "
                "vectors (full periodicity), eigen-residual, omega^2 = eigenvalue and the participation ratio are checked on "
                "the code's outputs with terms of the spec. B: random decimal configurations, non-zero block pattern "
                "validated by TraceHessian.tla which prints the expected entries. distinct = configurations with >= 1 interacting pair.")
    chk.rule += (" Species tables of K <= 3 species of which any non-empty subset occurs (all 11 patterns in every run); the mass map is "
                 "written down as a dict in the enumeration order the specification picks (ascending, descending, rotated, ...); parameter "
                 "tables rendered contiguous / strided / integer-typed; two objects alive at once used alternately.")
    chk.assumptions = ["masses are squares of rationals (weights are exact rationals)", "symmetric parameter matrices",
                       "Hertz: cut-off = sigma, alpha > 1; a pair exactly at contact is a tie",
                       "pairs exactly at the cut-off asserted (inclusive) only in the dyadic cell",
                       "half-cell ties and coincident particles are skipped and counted",
                       "entry tolerance 1e-9 abs + 1e-9 rel + 1e-13 * max|entry|",
                       "finite-difference confirmation is outside the technique; the block formula is the analytic second derivative"]
    tmp = common.scratch_dir("verif_c11_")
    try:
        if replay:
            case = common.load_replay(replay)["case"]
            if case.get("direction") == "B-lattice":     # the lattice record is generated from the seed: run it again
                check_lattice(chk, lib, tmp, random.Random(common.SEED * 31337 + 11))
                for v in chk.violations:
                    print("STILL VIOLATED:", v[0], json.dumps(v[1])[:600])
                return 1 if chk.violations else 0
            if "defs" in case and "matrix" in case:
                exp, _ = expected_matrix(case)
                res = run_code(lib, cfg_view(case), tmp, int_eps=bool(case.get("int_eps")))
                print(json.dumps({"cfg": cfg_view(case), "clause": common.load_replay(replay)["clause"], "expected": exp.tolist(), "observed": np.asarray(res["matrix"]).tolist(),
                                  "omega": res["csv"]["omega"].tolist(), "PR": res["csv"]["PR"].tolist()}, indent=1))
            else:
                print(json.dumps(case, indent=1))
            return 0
        quick = tier == "quick"
        rounds = [0] if quick else [0, 1]
        shapes = {}
        def tlc_job(dim, rd):
            consts = {"Tier": tier, "DIM": dim, "SEED": (common.SEED * 7 + rd) % 30000,
                      "SMOD": (12 if dim == 2 else 18) if quick else 3, "REP": 1}
            return run_tlc_sharded("MC_Hessian", dict(constants=consts, invariants=INVS + ["Emit"]),
                                   nshards=4 if quick else 12, timeout=3000, coverage=(not quick and rd == 0 and dim == 2))
        jobs = [(dim, rd) for dim in (2, 3) for rd in rounds]
        if quick:       # the two dimensions are independent models: their TLC runs go side by side (2 x 4 shards)
            import concurrent.futures as cf
            with cf.ThreadPoolExecutor(max_workers=2) as ex:
                futs = {j: ex.submit(tlc_job, *j) for j in jobs}
                tlc_results = {j: f.result() for j, f in futs.items()}
        for dim in (2, 3):
            for rd in rounds:
                r = tlc_results[(dim, rd)] if quick else tlc_job(dim, rd)
                require_model_ok(r, f"MC_Hessian dim={dim}")
                chk.add_tlc(r, f"MC_Hessian dim={dim} round={rd}")
                seen = set()
                cases = []
                for c in r.cases:
                    k = json.dumps(c["ix"], sort_keys=True)
                    if k in seen:     # two final states of one configuration: the assembly would depend on the order
                        raise common.MachineryError(f"configuration {k} reached two different final states")
                    seen.add(k)
                    cases.append(c)
                    if c["m"] == "Hessian" and c.get("shape", {}).get("N"):
                        shapes[(c["shape"]["N"], c["shape"]["dim"])] = c["shape"]
                if not cases:
                    raise common.MachineryError("MC_Hessian emitted no cases")
                if not quick and rd == 0 and dim == 2 and not r.coverage.get("Next"):     # Next == \E k : AddPair(k)
                    raise common.MachineryError(f"coverage: action AddPair never taken ({r.coverage})")
                for c in cases:
                    K = len(c["mroot"])
                    pk = f"{K}:{''.join(str(t) for t in c['present'])}"
                    if c["m"] == "Hessian":
                        em = chk.extra.setdefault("emitted_species_patterns", {})
                        em[pk] = em.get(pk, 0) + 1
                        if list(c["morder"]) != list(range(1, K + 1)) and len({tuple(m) for m in c["mroot"]}) > 1:
                            chk.extra["emitted_masses_dict_not_in_key_order"] = chk.extra.get("emitted_masses_dict_not_in_key_order", 0) + 1
                    lead = c["m"] == "Hessian" and bool(c.get("shape", {}).get("N"))
                    replay_case(chk, lib, c, shapes, tmp, extra_paths=lead)
        chk.exhaustive = False
        # scope facts of the run (sentinels guarantee them): every present/absent pattern of a species table with
        # K <= 3 was emitted, and mass maps with unequal masses were written down out of key order
        emitted = chk.extra.get("emitted_species_patterns", {})
        missing = [p for p in ALL_PATTERNS if not emitted.get(p)]
        if missing or not chk.extra.get("emitted_masses_dict_not_in_key_order"):
            raise common.MachineryError(f"MC_Hessian scope: species patterns {missing} not emitted / no mass map out of key order")
        direction_b(chk, lib, tmp, 24 if quick else 300)
        check_lattice(chk, lib, tmp, random.Random(common.SEED * 31337 + 11))       # scale (see lattice_record)
    finally:
        shutil.rmtree(tmp, ignore_errors=True)
    return chk.finish()
