"""C19 — header writer, auxiliary readers, HOOMD frame conversion, log reader
(PyMatterSim.writer.lammps_writer, reader.lammps_reader_helper, reader.gsd_reader_helper,
reader.simulation_log, reader.dump_reader) against spec/AuxIO.tla.

Direction A: MC_AuxIO.tla (TLC) checks the C19 clauses as invariants on every state of three
state machines (dump file read frame by frame on one handle; HOOMD frames converted one by one;
log scanned line by line) and prints every finished behaviour.  A file is printed as token lines;
this module renders tokens to text (x-style frame headers come from the REAL writer and are first
compared, token by token, with the header the specification wrote), calls the real readers step
by step on one open handle, projects each result to integers in units of 1/SCALE and compares it
(and the handle's line position) with the behaviour TLC printed.
Direction B: seeded random larger files / frame sequences / logs are run through the same public
functions; every call becomes one integer record; TraceAuxIO.tla - which carries the file cursor
as a specification variable - accepts or rejects record by record.
"""
import json
import os
import random
import re
import shutil
from types import SimpleNamespace as NS

import numpy as np

from . import common
from .common import Check, run_tlc, run_tlc_sharded, require_model_ok, validate_trace

SCALE = 1000
INVS = ["InvReadAfterWriteHeader", "InvFramesInOrder", "InvCentreSelection", "InvColumnsById", "InvPositions",
        "InvWrapperEqualsSteps", "InvFramesConverted", "InvAllCompleteSectionsReturned", "InvSectionsInOrder"]
MAXREP = 4            # violations reported per clause (a systematic defect fails hundreds of cases)


class OffGrid(Exception):
    pass


# ----------------------------------------------------------------------------
# tokens <-> text   (token = [kind, value]:  ["w", word] | ["i", n] | ["f", m] = m / SCALE)
# ----------------------------------------------------------------------------

def dec(m, places=3):
    s = "-" if m < 0 else ""
    m = abs(m)
    return f"{s}{m // SCALE}.{m % SCALE:03d}" + "0" * (places - 3)


def tok_text(t, places=3):
    return t[1] if t[0] == "w" else str(t[1]) if t[0] == "i" else dec(t[1], places)


def line_text(line, places=3, width=0):
    if width:
        return "".join(tok_text(t, places).rjust(width) for t in line) + "\n"
    return " ".join(tok_text(t, places) for t in line) + "\n"


_INT = re.compile(r"^-?\d+$")
_DEC = re.compile(r"^-?\d+\.\d+$")


def tokenize(text):
    """Text -> token lines (abstraction function of the writers' strings)."""
    out = []
    for ln in text.split("\n")[:-1] if text.endswith("\n") else text.split("\n"):
        row = []
        for w in ln.split():
            if _INT.match(w):
                row.append(["i", int(w)])
            elif _DEC.match(w):
                x = float(w) * SCALE
                row.append(["f", int(round(x))] if abs(x - round(x)) < 1e-6 else ["w", w])
            else:
                row.append(["w", w])
        out.append(row)
    return out


def tobj(t):
    """token -> the record form used in traces (one shape for all kinds)"""
    return {"k": t[0], "w": t[1] if t[0] == "w" else "", "v": 0 if t[0] == "w" else t[1]}


def lines_obj(lines):
    return [[tobj(t) for t in ln] for ln in lines]


def to_int(x):
    x = float(x) * SCALE
    r = round(x)
    if not np.isfinite(x) or abs(x - r) > 1e-6:
        raise OffGrid(f"value {x / SCALE!r} is not a multiple of 1/{SCALE}")
    return int(r)


def to_count(x):
    if float(x) != int(x):
        raise OffGrid(f"{x!r} is not an integer")
    return int(x)


# ----------------------------------------------------------------------------
# abstraction functions of the results
# ----------------------------------------------------------------------------

EOF = {"eof": 1, "ts": 0, "n": 0, "types": [], "pos": [], "bounds": [], "len": [], "cur": 0}


def project_snap(s, cur, width):
    """SingleSnapshot -> integer record (raises OffGrid / AssertionError on an inconsistent object)."""
    if s is None:
        return dict(EOF, cur=cur)
    types = [to_count(t) for t in np.asarray(s.particle_type).reshape(-1)]
    pos = np.asarray(s.positions, dtype=float)
    n = to_count(s.nparticle)
    if pos.shape != (n, width):
        raise OffGrid(f"positions have shape {pos.shape}, nparticle = {n}, expected width {width}")
    L = np.asarray(s.boxlength, dtype=float)
    if not np.allclose(np.asarray(s.hmatrix, dtype=float), np.diag(L), atol=1e-9) or s.realbounds is not None:
        raise OffGrid("hmatrix is not diag(boxlength) / realbounds set for an orthogonal box")
    return {"eof": 0, "ts": to_count(s.timestep), "n": n, "types": types,
            "pos": [[to_int(v) for v in row] for row in pos],
            "bounds": [[to_int(a), to_int(b)] for a, b in np.asarray(s.boxbounds, dtype=float)],
            "len": [to_int(v) for v in L], "cur": cur}


def first_diff(kind, o, e):
    """Name of the clause of the first differing field (same order as TraceAuxIO!WhySnap)."""
    if o["eof"] != e["eof"]:
        return "FramesInOrder"
    if o["ts"] != e["ts"] or o["bounds"] != e["bounds"] or o["len"] != e["len"]:
        return "ReadAfterWriteHeader"
    if o["n"] != e["n"]:
        return "CentreSelection" if kind == "centre" else "ReadAfterWriteHeader"
    if o["types"] != e["types"] or o["pos"] != e["pos"]:
        return {"centre": "CentreSelection", "vector": "ColumnsById"}.get(kind, "AtomsById")
    if o["cur"] != e["cur"]:
        return "Cursor"
    return ""


class DumpFile:
    """A dump file on disk plus the map byte offset -> line number."""

    def __init__(self, path, text):
        self.path = path
        self.text = text
        with open(path, "w", encoding="utf-8") as f:
            f.write(text)
        self.off = {0: 0}
        pos = 0
        for i, ln in enumerate(text.split("\n")[:-1]):
            pos += len(ln.encode()) + 1
            self.off[pos] = i + 1

    def line_of(self, f):
        return self.off.get(f.tell(), -1)


def lib():
    from PyMatterSim.writer import lammps_writer as Wr
    from PyMatterSim.reader import lammps_reader_helper as H
    from PyMatterSim.reader import gsd_reader_helper as G
    from PyMatterSim.reader import simulation_log as SL
    from PyMatterSim.reader import dump_reader as DR
    from PyMatterSim.reader.reader_utils import DumpFileType
    return NS(Wr=Wr, H=H, G=G, SL=SL, DR=DR, T=DumpFileType)


def call_step(L, kind, f, nd, par):
    if kind == "plain":
        return L.H.read_lammps(f, nd)
    if kind == "centre":
        return L.H.read_lammps_centertype(f, nd, par)
    return L.H.read_lammps_vector(f, nd, par)


def call_wrapper(L, kind, path, nd, par, via_class):
    if via_class:
        ft = {"plain": L.T.LAMMPS, "centre": L.T.LAMMPSCENTER, "vector": L.T.LAMMPSVECTOR}[kind]
        rd = L.DR.DumpReader(path, ndim=nd, filetype=ft, moltypes=par if kind == "centre" else None,
                             columnsids=par if kind == "vector" else None)
        rd.read_onefile()
        return rd.snapshots
    if kind == "plain":
        return L.H.read_lammps_wrapper(path, nd)
    if kind == "centre":
        return L.H.read_lammps_centertype_wrapper(path, nd, par)
    return L.H.read_lammps_vector_wrapper(path, nd, par)


def width_of(kind, nd, par):
    return len(par) if kind == "vector" else nd


def map_dict(par):
    """A type map is a function (spec: CentreSelection depends on the function only); a Python dict also has an
    insertion order, which is a rendering choice: ascending, descending or rotated keys, picked from the content."""
    pairs = [(int(k), int(v)) for k, v in par]
    if len(pairs) > 1:
        how = sum(k + 2 * v for k, v in pairs) % 3
        if how == 1:
            pairs = pairs[::-1]
        elif how == 2:
            pairs = pairs[1:] + pairs[:1]
    return dict(pairs)


def real_par(kind, par):
    return map_dict(par) if kind == "centre" else par


class Reporter:
    """Verdict bookkeeping: at most MAXREP reported violations per clause."""

    def __init__(self, chk):
        self.chk = chk
        self.count = {}

    def violation(self, clause, case, key=None):
        self.count[clause] = self.count.get(clause, 0) + 1
        if self.count[clause] <= MAXREP:
            self.chk.violation(clause, case, finding_key=key)
        else:
            self.chk.replayed += 1
            self.chk.evaluations += 1
            self.chk.extra["violations_not_listed"] = self.chk.extra.get("violations_not_listed", 0) + 1


# ----------------------------------------------------------------------------
# direction A: dump
# ----------------------------------------------------------------------------

def build_file(L, rep, fcase, tmp):
    """Render one emitted file.  Header of x-style frames: the real writer's string, after it has
    been compared with the specification's header lines."""
    lines, text, c = fcase["lines"], [], 0
    ok = True
    for m in fcase["meta"]:
        hdr = lines[c:c + 9]
        if m["style"] == "x":
            b = np.array(m["bounds"], dtype=float) / SCALE
            try:
                s = L.Wr.write_dump_header(m["ts"], m["n"], b if m["ts"] % 2 else b.tolist(), " ".join(m["addson"]))
            except Exception as e:
                rep.violation(f"raises:{type(e).__name__}", {"t": "hdr", "meta": m, "error": str(e)[:200]})
                return None
            if tokenize(s) != hdr:
                ok = False
                rep.violation("HeaderLayout", {"t": "hdr", "meta": m, "expected_lines": hdr, "observed": s})
            text.append(s)
        else:
            text.append("".join(line_text(ln, 6 if i in (5, 6, 7) else 3) for i, ln in enumerate(hdr)))
        for ln in lines[c + 9:c + 9 + m["n"]]:
            text.append(line_text(ln))
        c += 9 + m["n"]
    fd = fcase["fd"]
    path = os.path.join(tmp, f"d{fd['nd']}_{fd['start']}_{fd['len']}_{fd['stride']}.atom")
    if ok:
        rep.chk.ok(("A-hdr", path))
    return DumpFile(path, "".join(text))


def replay_run(L, rep, df, run):
    kind, nd = run["kind"], run["fd"]["nd"]
    ctx = {"t": "run", "fd": run["fd"], "kind": kind, "par": run["par"], "all_steps": run["steps"]}
    ctx["file_text"] = df.text
    if kind == "additions":
        try:
            res = L.H.read_additions(df.path, run["par"])
            obs = [[to_int(v) for v in row] for row in np.asarray(res, dtype=float)]
        except OffGrid as e:
            return rep.violation("ColumnsById", dict(ctx, error=str(e)))
        except Exception as e:
            return rep.violation(f"raises:{type(e).__name__}", dict(ctx, error=str(e)[:200]))
        if obs != run["steps"][0]:
            return rep.violation("ColumnsById", dict(ctx, expected=run["steps"][0], observed=obs))
        return rep.chk.ok(("A", str(run["fd"]), kind, run["par"]))
    par = real_par(kind, run["par"])
    width = width_of(kind, nd, par)
    # --- step by step on one handle
    with open(df.path, "r", encoding="utf-8") as f:
        for j, e in enumerate(run["steps"]):
            try:
                s = call_step(L, kind, f, nd, dict(par) if kind == "centre" else list(par) if kind == "vector" else par)
                o = project_snap(s, df.line_of(f), width)
            except OffGrid as ex:
                return rep.violation({"centre": "CentreSelection", "vector": "ColumnsById"}.get(kind, "AtomsById"),
                                     dict(ctx, step=j + 1, error=str(ex), expected=e))
            except Exception as ex:
                return rep.violation(f"raises:{type(ex).__name__}", dict(ctx, step=j + 1, error=str(ex)[:200], expected=e))
            w = first_diff(kind, o, e)
            if w:
                return rep.violation(w, dict(ctx, step=j + 1, expected=e, observed=o))
    # --- the wrapper (and the DumpReader class) return the same frames
    for via_class in (False, True):
        try:
            ss = call_wrapper(L, kind, df.path, nd, dict(par) if kind == "centre" else par, via_class)
            obs = [project_snap(s, 0, width) for s in ss.snapshots]
            if ss.nsnapshots != len(obs):
                raise OffGrid("nsnapshots differs from the number of snapshots")
        except OffGrid as ex:
            return rep.violation("WrapperEqualsSteps", dict(ctx, via_class=via_class, error=str(ex)))
        except Exception as ex:
            return rep.violation(f"raises:{type(ex).__name__}", dict(ctx, via_class=via_class, error=str(ex)[:200]))
        exp = [dict(e, cur=0) for e in run["steps"][:-1]]
        if obs != exp:
            return rep.violation("WrapperEqualsSteps", dict(ctx, via_class=via_class, expected=exp, observed=obs))
    nontrivial = any(e["n"] > 0 for e in run["steps"])
    rep.chk.ok(("A", str(run["fd"]), kind, str(run["par"])), nontrivial=nontrivial,
               sample={"file": run["fd"], "reader": kind, "par": run["par"], "steps": run["steps"]})


# ----------------------------------------------------------------------------
# HOOMD frames
# ----------------------------------------------------------------------------

class FakeDcd:
    """Stands in for mdtraj's DCDTrajectoryFile: read() -> (xyz, cell_lengths, cell_angles)."""

    def __init__(self, xyz):
        self.xyz = xyz
        self.closed = False

    def read(self):
        n = len(self.xyz)
        return self.xyz, np.ones((n, 3), dtype=np.float32), np.full((n, 3), 90.0, dtype=np.float32)

    def close(self):
        self.closed = True


def hoomd_frames(frames, dtype):
    out = []
    for fr in frames:
        out.append(NS(configuration=NS(step=fr["step"], dimensions=fr["dim"], box=np.array(fr["box"], dtype=dtype) / SCALE),
                      particles=NS(N=fr["n"], typeid=np.array(fr["typeid"], dtype=np.uint32),
                                   position=np.array(fr["pos"], dtype=dtype).reshape(fr["n"], 3) / SCALE)))
    return out


def project_gsd(res, nd):
    if res is None:
        return {"none": 1, "snaps": []}
    snaps = []
    for s in res.snapshots:
        p = project_snap(s, 0, nd)
        snaps.append({"ts": p["ts"], "n": p["n"], "types": p["types"], "pos": p["pos"], "len": p["len"]})
    if res.nsnapshots != len(snaps):
        raise OffGrid("nsnapshots differs from the number of snapshots")
    return {"none": 0, "snaps": snaps}


def run_gsd(L, case, dtype=np.float32):
    """Calls read_gsd / read_gsd_dcd on duck-typed frames; returns the projected result."""
    f = hoomd_frames(case["frames"], dtype)
    keep = [(x.particles.typeid.copy(), x.particles.position.copy()) for x in f]
    if case["t"] == "gsd":
        res = L.G.read_gsd(f, case["nd"])
    else:
        n0 = len(case["dcd"][0]) if case["dcd"] else 0
        xyz = np.array(case["dcd"], dtype=dtype).reshape(len(case["dcd"]), n0, 3) / SCALE
        res = L.G.read_gsd_dcd(f, FakeDcd(xyz), case["nd"])
    for (t0, p0), x in zip(keep, f):
        if not (np.array_equal(t0, x.particles.typeid) and np.array_equal(p0, x.particles.position)):
            raise OffGrid("the frame objects were modified")
    return project_gsd(res, case["nd"])


def replay_gsd(L, rep, case, k):
    ctx = {"t": case["t"], "nd": case["nd"], "frames": case["frames"], "dcd": case["dcd"]}
    try:
        obs = run_gsd(L, case, np.float32 if k % 2 == 0 else np.float64)
    except OffGrid as e:
        return rep.violation("FramesConverted", dict(ctx, error=str(e), expected=case["exp"]))
    except Exception as e:
        key = "read_gsd_dcd:frozen" if type(e).__name__ == "FrozenInstanceError" else None
        return rep.violation(f"raises:{type(e).__name__}", dict(ctx, error=str(e)[:200], expected=case["exp"]), key)
    if obs != case["exp"]:
        return rep.violation("FramesConverted", dict(ctx, expected=case["exp"], observed=obs))
    rep.chk.ok(("A", json.dumps(ctx)), nontrivial=case["exp"]["none"] == 0,
               sample={"t": case["t"], "nd": case["nd"], "n_frames": len(case["frames"]), "exp": case["exp"]})


# ----------------------------------------------------------------------------
# log
# ----------------------------------------------------------------------------

def log_text(lines, style):
    """style 0: rows right-justified in 12 columns (LAMMPS), 1: single blanks."""
    out = []
    for ln in lines:
        isrow = bool(ln) and all(t[0] != "w" for t in ln)
        if ln and ln[0] == ["w", "Step"]:
            out.append(" ".join(tok_text(t) for t in ln) + " \n")        # LAMMPS prints a trailing blank
        elif isrow and style == 0:
            out.append(line_text(ln, 3, 12))
        else:
            out.append(line_text(ln))
    return "".join(out)


def run_log(L, lines, style, tmp, name="log.lammps"):
    path = os.path.join(tmp, name)
    with open(path, "w", encoding="utf-8") as f:
        f.write(log_text(lines, style))
    res = L.SL.read_lammpslog(path)
    obs = []
    for df in res:
        obs.append({"names": [str(c) for c in df.columns],
                    "rows": [[to_int(v) for v in row] for row in df.to_numpy(dtype=float)]})
    return obs


def replay_log(L, rep, case, tmp, k):
    ctx = {"t": "log", "d": case["d"], "lines": case["lines"]}
    exp = case["exp"]
    try:
        obs = run_log(L, case["lines"], k % 2, tmp)
    except OffGrid as e:
        return rep.violation("AllCompleteSectionsReturned", dict(ctx, error=str(e), expected=exp))
    except Exception as e:
        short = case["d"]["tail"] in (0, 1, 4)
        return rep.violation(f"raises:{type(e).__name__}", dict(ctx, error=str(e)[:200], expected=exp),
                             "read_lammpslog:short_tail" if short else None)
    S = len(exp["secs"])
    if not (S <= len(obs) <= S + exp["tail"]) or obs[:S] != exp["secs"]:
        return rep.violation("AllCompleteSectionsReturned", dict(ctx, expected=exp, observed=obs))
    rep.chk.ok(("A", json.dumps(case["d"])), nontrivial=S > 0, sample={"log": case["d"], "exp": exp})


# ----------------------------------------------------------------------------
# direction B: random sessions -> trace records
# ----------------------------------------------------------------------------

def rand_bounds(rng, nd):
    out = []
    for _ in range(nd):
        L_ = 8 * rng.randint(125, 3000)
        lo = rng.choice([0, -L_ // 2, rng.randint(-20000, 20000)])
        out.append([lo, lo + L_])
    return out


def gen_dump_session(L, rng, tmp, k):
    """One dump file, read frame by frame on ONE handle by a random mix of the three readers,
    then by the whole-file functions.  Returns (records, contexts)."""
    recs, ctx = [], []
    nd = rng.choice([2, 3])
    nfr = rng.randint(1, 5)
    sameN = rng.random() < 0.6
    n0 = rng.randint(1, 30)
    nextra = rng.randint(0, 4)
    ntypes = rng.randint(1, 5)
    noxs = rng.random() < 0.4
    lines, text, styles = [], [], []
    for j in range(nfr):
        n = n0 if sameN else rng.randint(1, 30)
        style = rng.choice(["x", "xu"] if noxs else ["x", "xs", "xu"])
        styles.append(style)
        b = rand_bounds(rng, nd)
        ts = rng.choice([0, rng.randint(0, 10 ** 6), 10 ** 9 + j])
        addson = rng.sample(["order", "vx", "vy", "vz", "q6", "c_pe"], rng.randint(0, 3))
        if style == "x":
            s = L.Wr.write_dump_header(ts, n, np.array(b, dtype=float) / SCALE, " ".join(addson))
            hdr = tokenize(s)
            recs.append({"op": "hdr", "ts": ts, "n": n, "bounds": b, "addson": addson, "obs": lines_obj(hdr)})
            ctx.append({"writer_output": s})
            text.append(s)
        else:
            names = {"xs": ["xs", "ys", "zs"], "xu": ["xu", "yu", "zu"]}[style][:nd]
            hdr = [[["w", "ITEM:"], ["w", "TIMESTEP"]], [["i", ts]], [["w", w] for w in "ITEM: NUMBER OF ATOMS".split()], [["i", n]],
                   [["w", w] for w in "ITEM: BOX BOUNDS pp pp pp".split()]] + [[["f", lo], ["f", hi]] for lo, hi in b] \
                + ([[["f", -500], ["f", 500]]] if nd == 2 else []) \
                + [[["w", w] for w in ["ITEM:", "ATOMS", "id", "type"] + names + addson]]
            text.append("".join(line_text(ln, 6 if i in (5, 6, 7) else 3) for i, ln in enumerate(hdr)))
        lines += hdr
        ids = list(range(1, n + 1))
        rng.shuffle(ids)
        for i in ids:
            row = [["i", i], ["i", rng.randint(1, ntypes)]]
            for k_ in range(nd):
                lo, hi = b[k_]
                if style == "xs":
                    row.append(["f", 125 * rng.randint(0, 8)])
                elif style == "x":
                    row.append(["f", rng.randint(lo - (hi - lo) + 1, hi + (hi - lo) - 1)])
                else:
                    row.append(["f", rng.randint(lo - 3 * (hi - lo), hi + 3 * (hi - lo))])
            for _ in range(nextra):
                row.append(["i", rng.randint(-50, 50)] if rng.random() < 0.3 else ["f", rng.randint(-99999, 99999)])
            lines.append(row)
            text.append(line_text(row))
    df = DumpFile(os.path.join(tmp, f"b{k}.atom"), "".join(text))
    recs.append({"op": "open", "lines": lines_obj(lines)})
    ctx.append({"file": df.path})
    ncols = 2 + nd + nextra

    def rand_par(kind):
        if kind == "centre":
            keys = rng.sample(range(1, 6), rng.randint(0, 4))
            return [[k_, rng.randint(1, 9)] for k_ in keys]      # insertion order of the dict is random
        if kind == "vector":
            return [rng.randint(1, ncols) for _ in range(rng.randint(1, 4))]
        return 0

    def kinds_for(j):
        return ["centre", "vector"] + (["plain"] if j >= nfr or styles[j] != "xs" else [])

    with open(df.path, "r", encoding="utf-8") as f:
        for j in range(nfr + 1):
            kind = rng.choice(kinds_for(j))
            par = rand_par(kind)
            rec = {"op": kind, "nd": nd, "par": par}
            try:
                s = call_step(L, kind, f, nd, real_par(kind, par))
                rec["obs"] = project_snap(s, df.line_of(f), width_of(kind, nd, par))
            except Exception as e:
                rec["raised"] = f"{type(e).__name__}: {str(e)[:200]}"
                recs.append(rec)
                ctx.append({"file": df.path})
                return recs, ctx
            recs.append(rec)
            ctx.append({"file": df.path, "frame": j + 1})
    whole = ["w_centre", "w_vector"] + (["w_plain"] if "xs" not in styles else [])
    for op in whole + [rng.choice(whole)]:
        kind = op[2:]
        par = rand_par(kind)
        rec = {"op": op, "nd": nd, "par": par}
        try:
            ss = call_wrapper(L, kind, df.path, nd, real_par(kind, par), rng.random() < 0.5)
            rec["obs"] = [project_snap(s, 0, width_of(kind, nd, par)) for s in ss.snapshots]
            if ss.nsnapshots != len(rec["obs"]):
                raise OffGrid("nsnapshots differs from the number of snapshots")
        except Exception as e:
            rec["raised"] = f"{type(e).__name__}: {str(e)[:200]}"
        recs.append(rec)
        ctx.append({"file": df.path})
    if sameN:
        for ncol in rng.sample(range(ncols), min(2, ncols)):
            rec = {"op": "additions", "ncol": ncol}
            try:
                rec["obs"] = [[to_int(v) for v in row] for row in np.asarray(L.H.read_additions(df.path, ncol), dtype=float)]
            except Exception as e:
                rec["raised"] = f"{type(e).__name__}: {str(e)[:200]}"
            recs.append(rec)
            ctx.append({"file": df.path})
    return recs, ctx


def gen_hdr_records(L, rng):
    """Both header writers on arbitrary arguments (no file involved)."""
    nd = rng.choice([2, 3])
    b = rand_bounds(rng, nd)
    recs, ctx = [], []
    ts, n = rng.randint(0, 10 ** 9), rng.randint(1, 10 ** 6)
    addson = rng.sample(["order", "vx", "vy", "vz", "q6", "c_pe"], rng.randint(0, 4))
    s = L.Wr.write_dump_header(ts, n, np.array(b, dtype=float) / SCALE, " ".join(addson))
    recs.append({"op": "hdr", "ts": ts, "n": n, "bounds": b, "addson": addson, "obs": lines_obj(tokenize(s))})
    ctx.append({"writer_output": s})
    nt = rng.randint(1, 9)
    s = L.Wr.write_data_header(n, nt, (np.array(b, dtype=float) / SCALE).tolist())
    recs.append({"op": "datahdr", "n": n, "ntypes": nt, "bounds": b, "obs": lines_obj(tokenize(s))})
    ctx.append({"writer_output": s})
    return recs, ctx


def gen_gsd_record(L, rng):
    d = rng.choice([2, 3])
    nd = d if rng.random() < 0.85 else 5 - d
    nfr = rng.randint(1, 6)
    withdcd = rng.random() < 0.5
    n0 = rng.randint(1, 20)
    frames = []
    for j in range(nfr):
        n = n0 if (withdcd or rng.random() < 0.5) else rng.randint(1, 20)
        box = [125 * rng.randint(8, 200), 125 * rng.randint(8, 200), 125 * rng.randint(8, 200) if d == 3 else 1000, 0, 0, 0]
        frames.append({"step": rng.randint(0, 10 ** 7), "dim": d, "box": box, "n": n,
                       "typeid": [rng.randint(0, 3) for _ in range(n)],
                       "pos": [[125 * rng.randint(-400, 400), 125 * rng.randint(-400, 400),
                                125 * rng.randint(-400, 400) if d == 3 else 0] for _ in range(n)]})
    dcd = []
    if withdcd:
        v = rng.random()
        nf2 = nfr + (1 if v < 0.08 else -1 if (v < 0.16 and nfr > 1) else 0)
        n2 = n0 + (1 if 0.16 <= v < 0.24 else 0)
        dcd = [[[125 * rng.randint(-4000, 4000) for _ in range(3)] for _ in range(n2)] for _ in range(nf2)]
    case = {"t": "gsd_dcd" if withdcd else "gsd", "nd": nd, "frames": frames, "dcd": dcd}
    rec = {"op": case["t"], "nd": nd, "frames": frames, "dcd": dcd}
    try:
        rec["obs"] = run_gsd(L, case, rng.choice([np.float32, np.float64]))
    except Exception as e:
        rec["raised"] = f"{type(e).__name__}: {str(e)[:200]}"
    return [rec], [{}]


JUNK = [[["w", "units"], ["w", "lj"]], [], [["i", 4000], ["w", "atoms"]], [["w", "run"], ["i", 5000]],
        [["w", "Neighbor"], ["w", "list"], ["w", "builds"], ["w", "="], ["i", 5]],
        [["w", "WARNING:"], ["w", "Step"], ["w", "size"]], [["w", "Total"], ["w", "#"], ["w", "of"], ["w", "neighbors"], ["w", "="], ["i", 151513]],
        [["i", 1], ["w", "by"], ["i", 1], ["w", "by"], ["i", 1], ["w", "MPI"], ["w", "processor"], ["w", "grid"]]]
COLS = ["Temp", "E_pair", "E_mol", "TotEng", "Press", "Volume", "c_msd[4]"]


def gen_log_record(L, rng, tmp, k):
    lines = [[["w", "LAMMPS"], ["w", "(x)"]]]
    nsec = rng.randint(0, 6)
    step = 0

    def section(rows, terminate):
        nonlocal step
        names = ["Step"] + rng.sample(COLS, rng.randint(1, 6))
        lines.append([["w", w] for w in names])
        for _ in range(rows):
            lines.append([["i", step]] + [(["i", rng.randint(-9, 9999)] if rng.random() < 0.2 else ["f", rng.randint(-10 ** 8, 10 ** 8)])
                                          for _ in names[1:]])
            step += rng.choice([1, 10, 1000])
        if terminate:
            lines.append([["w", w] for w in "Loop time of".split()] + [["f", rng.randint(1, 10 ** 6)], ["w", "on"], ["i", 4], ["w", "procs"]])

    for _ in range(nsec):
        for _ in range(rng.randint(0, 4)):
            lines.append(rng.choice(JUNK))
        section(rng.randint(1, 12), True)
    for _ in range(rng.randint(0, 3)):
        lines.append(rng.choice(JUNK))
    v = rng.random()
    if v < 0.5:
        lines.append([["w", "Total"], ["w", "wall"], ["w", "time:"], ["w", "0:00:07"]])
    elif v < 0.9:
        section(rng.randint(0, 6), False)
    else:
        lines.append([["i", 4000], ["w", "atoms"]])
    rec = {"op": "log", "lines": lines_obj(lines)}
    try:
        rec["obs"] = run_log(L, lines, rng.randint(0, 1), tmp, f"b{k}.log")
    except Exception as e:
        rec["raised"] = f"{type(e).__name__}: {str(e)[:200]}"
    return [rec], [{"log": log_text(lines, 0)}]


def validate_sessions(chk, rep, sessions):
    """sessions: list of (records, contexts).  A record on which the library raised is a violation
    and ends its session; the remaining records go to TraceAuxIO.  After a rejection validation
    resumes with the next session (the cursor is specification state and is lost)."""
    flat = []
    for si, (recs, ctx) in enumerate(sessions):
        for r, c in zip(recs, ctx):
            if "raised" in r:
                name = r["raised"].split(":")[0]
                key = None
                if name == "FrozenInstanceError":
                    key = "read_gsd_dcd:frozen"
                elif r["op"] == "log":
                    key = "read_lammpslog:short_tail"
                rep.violation(f"raises:{name}", {"dir": "B", "record": {k: v for k, v in r.items() if k != "lines"}, **c}, key)
                break
            flat.append((si, r, c))
    res_all = common.TlcResult()
    start = 0
    rejected = 0
    while start < len(flat):
        recs = [r for _, r, _ in flat[start:]]
        res, rej = validate_trace("TraceAuxIO", recs, constants={"SCALE": SCALE})
        res_all.merge(res)
        if rej is None:
            for _ in recs:
                chk.ok(None)
            break
        idx, clause = rej
        for _ in range(idx):
            chk.ok(None)
        si, r, c = flat[start + idx]
        small = {k: v for k, v in r.items() if k != "lines"}
        rep.violation("trace:" + clause, {"dir": "B", "record": small, **c})
        rejected += 1
        nxt = start + idx + 1
        while nxt < len(flat) and flat[nxt][0] == si:
            nxt += 1
        start = nxt
        if rejected >= 8:
            break
    chk.add_tlc(res_all, "TraceAuxIO")
    return len(flat)


def corrupt_selftest(chk, sessions):
    """The trace specification must reject a trace in which one cursor / one relabelled type / one
    table value was changed (non-vacuity of direction B)."""
    want = {}
    tried = 0
    for recs, _ in sessions:
        if any("raised" in r for r in recs):
            continue
        ops = [r["op"] for r in recs]
        if ("open" in ops and "cursor" not in want) or ("log" in ops and "log" not in want):
            # the self-test corrupts ONE field of an otherwise accepted session: a session the specification
            # already rejects (a library violation, reported by validate_sessions) cannot serve
            if tried >= 12:
                break
            tried += 1
            _res, rej0 = validate_trace("TraceAuxIO", recs, constants={"SCALE": SCALE})
            if rej0 is not None:
                continue
        if "open" in ops and "cursor" not in want:
            i = next((i for i, r in enumerate(recs) if r["op"] in ("plain", "centre", "vector") and r["obs"]["eof"] == 0), None)
            if i is not None:
                bad = json.loads(json.dumps(recs))
                bad[i]["obs"]["cur"] += 1
                want["cursor"] = (bad, i, "Cursor")
        if "log" in ops and "log" not in want and recs[0]["obs"] and recs[0]["obs"][0]["rows"]:
            bad = json.loads(json.dumps(recs))
            bad[0]["obs"][0]["rows"][-1][-1] += 1
            want["log"] = (bad, 0, "AllCompleteSectionsReturned")
    for name, (bad, i, clause) in want.items():
        res, rej = validate_trace("TraceAuxIO", bad, constants={"SCALE": SCALE})
        chk.add_tlc(res, f"TraceAuxIO corrupt-one-field ({name})")
        if rej is None or rej[0] != i or rej[1] != clause:
            raise common.MachineryError(f"TraceAuxIO accepted / misplaced a corrupted record ({name}): {rej}")
    chk.extra["corrupt_one_field_rejected"] = sorted(want)


# ----------------------------------------------------------------------------

def do_replay(L, chk, stored, tmp):
    """Re-runs one stored violation against the current tree and prints expected vs observed."""
    case = stored["case"]
    print(f"clause: {stored['clause']}")
    rep = Reporter(chk)
    t = case.get("t")
    if t in ("gsd", "gsd_dcd"):
        replay_gsd(L, rep, dict(case, exp=case["expected"]), 0)
    elif t == "log":
        replay_log(L, rep, dict(case, exp=case["expected"]), tmp, 0)
        replay_log(L, rep, dict(case, exp=case["expected"]), tmp, 1)
    elif t == "run" and "file_text" in case:
        df = DumpFile(os.path.join(tmp, "replay.atom"), case["file_text"])
        replay_run(L, rep, df, {"fd": case["fd"], "kind": case["kind"], "par": case["par"], "steps": case["all_steps"]})
    else:
        print(json.dumps(case, indent=1)[:6000])
        return 0
    if chk.violations:
        for clause, c in chk.violations:
            print("STILL VIOLATED:", clause)
            print(json.dumps({k: v for k, v in c.items() if k in ("expected", "observed", "error", "step")}, indent=1)[:3000])
        return 1
    print("no violation on the current tree")
    return 0


def tlc_part(chk, part, tier, nshards):
    cfg = dict(constants={"Tier": tier, "Part": part, "Gen": True, "SCALE": SCALE}, invariants=INVS + ["Emit"])
    if nshards > 1:
        r = run_tlc_sharded("MC_AuxIO", cfg, nshards=nshards)
    else:
        cfg["constants"].update(SHARD=0, NSHARDS=1)
        r = run_tlc("MC_AuxIO", cfg)
    require_model_ok(r, f"MC_AuxIO {part}")
    chk.add_tlc(r, f"MC_AuxIO Part={part}")
    if not r.cases:
        raise common.MachineryError(f"MC_AuxIO {part}: no behaviour emitted")
    return r.cases


def run(tier, replay=None):
    common.import_lib()
    L = lib()
    chk = Check("C19", tier)
    rep = Reporter(chk)
    chk.rule = ("A: MC_AuxIO.tla - three state machines (dump file read frame by frame on one handle by the plain / "
                "molecule-centre / vector-column reader or at once by read_additions; HOOMD frames converted one by one; "
                "log scanned line by line); clauses ReadAfterWriteHeader, FramesInOrder, CentreSelection, ColumnsById, "
                "WrapperEqualsSteps, FramesConverted, AllCompleteSectionsReturned are TLC invariants; every finished "
                "behaviour is replayed: real write_dump_header output compared token-wise with the spec header and used "
                "in the file, real readers stepped on one handle (result + handle position compared), wrappers and "
                "DumpReader compared with the stepwise results.  B: random files / frame sequences / logs, one integer "
                "record per public call, TraceAuxIO.tla (cursor = spec variable) accepts or rejects.  "
                "distinct = behaviours / records; non-trivial = at least one atom kept / frames converted / one section.")
    chk.assumptions = ["numbers are decimals with 3 digits (SCALE 1000), HOOMD positions multiples of 1/8: parsing and the "
                       "projection round(x*1000) are exact", "gsd / mdtraj absent: frames are duck-typed objects, the DCD handle "
                       "is a stand-in with read() -> (xyz, lengths, angles); the two *_wrapper functions that import gsd are not driven",
                       "rows of an incomplete final log section are not constrained", "read_lammps (C01) only as the reading half; "
                       "xs frames are not fed to it"]
    tmp = common.scratch_dir("verif_c19_")
    try:
        if replay:
            return do_replay(L, chk, common.load_replay(replay), tmp)
        # ---------------- direction A
        cases = tlc_part(chk, "dump", tier, 8 if tier == "quick" else 16)
        files = {json.dumps(c["fd"], sort_keys=True): c for c in cases if c["t"] == "file"}
        runs = [c for c in cases if c["t"] == "run"]
        built = {}
        for key, fc in files.items():
            built[key] = build_file(L, rep, fc, tmp)
        for r in runs:
            df = built.get(json.dumps(r["fd"], sort_keys=True))
            if df is not None:
                replay_run(L, rep, df, r)
        chk.extra["dump_files"] = len(files)
        chk.extra["dump_behaviours"] = len(runs)
        for k, c in enumerate(tlc_part(chk, "hoomd", tier, 1 if tier == "quick" else 4)):
            replay_gsd(L, rep, c, k)
        for k, c in enumerate(tlc_part(chk, "log", tier, 1)):
            replay_log(L, rep, c, tmp, k)
        chk.exhaustive = True
        # ---------------- direction B
        rng = random.Random(common.SEED * 7919 + 19)
        nsess = 25 if tier == "quick" else 1000
        sessions = []
        for k in range(nsess):
            sessions.append(gen_dump_session(L, rng, tmp, k))
            sessions.append(gen_hdr_records(L, rng))
            sessions.append(gen_gsd_record(L, rng))
            sessions.append(gen_log_record(L, rng, tmp, k))
        chunk = 200
        for i in range(0, len(sessions), chunk):
            validate_sessions(chk, rep, sessions[i:i + chunk])
        corrupt_selftest(chk, sessions)
        first = next((r for recs, _ in sessions for r in recs if r["op"] == "centre" and "obs" in r), None)
        if first:
            chk.samples.append({"trace_record": first})
        return chk.finish()
    finally:
        shutil.rmtree(tmp, ignore_errors=True)
