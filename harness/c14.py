"""C14 - time correlation (PyMatterSim.dynamic.time_corr.time_correlation) against spec/TimeCorr.tla.

Direction A: TLC runs the loop state machine of TimeCorr for every series of the MC_TimeCorr
scope (clauses as INVARIANT / PROPERTY lines) and prints, per series, the sampling kind, the
per-lag origin counts, the normalised correlation (exact rational and Real term) and the time
axis (term).  Every case is replayed into the real time_correlation (float / complex arrays of
shape (T,N), (T,N,d), (T,N,d,d)); both columns of the returned frame are compared, lag zero must
be exactly 1.0, and the CSV (when requested) must be the returned frame to the written precision.
Representations: the spec states per series which integer storage types hold it (and whether element-wise
products / particle sums of the pairs the definition uses leave the type's range) and in which binary floating
types the evaluation is exact; the harness renders the series in those types (bool, int8 .. int64, float16,
float32, complex64), in Fortran order, as a strided view, read-only, with an integer dt and numpy-typed
timestep labels - the expectation is the same number.  Parts "rep" (narrow-type value sets, wide N) and
"long" (T = 257..1100, terminal loop state stated directly from the definition) widen the scope in size.
Direction B: seeded random decimal series (T <= 20, N <= 6, all ranks, real and complex, even and
uneven timesteps) are run through the real code; TraceTimeCorr.tla carries the loop state per
record, decides the discrete observables (row count, integer time axis, lag zero = 1) and prints
the expected correlation as terms that the generic evaluator evaluates.
Python renders inputs, calls the API, evaluates terms and compares; it holds no definition.
"""
import collections
import concurrent.futures as cf
import csv
import json
import zlib
import os
import random
import shutil
import warnings

import numpy as np

from . import common
from .common import Check, MachineryError, run_tlc, run_tlc_sharded, require_model_ok
from .realeval import ev, close

INVS = ["InvCounts", "InvPairs", "InvAlgDef", "InvLagZero", "InvConjSym", "InvSingle",
        "InvLogOrigin", "InvKind", "Emit"]
PROPS = ["EveryOriginLagPairOnce"]


# --------------------------------------------------------------------------
# rendering of abstract inputs
# --------------------------------------------------------------------------

TS_TYPES = {"int": int, "int64": np.int64, "int32": np.int32}


def make_snapshots(ts, N, ndim=2, ts_type="int"):
    from PyMatterSim.reader.reader_utils import SingleSnapshot, Snapshots
    snaps = []
    conv = TS_TYPES[ts_type]
    for t in ts:
        snaps.append(SingleSnapshot(
            timestep=conv(t), nparticle=N, particle_type=np.ones(N, dtype=int),
            positions=np.zeros((N, ndim)), boxlength=np.full(ndim, 10.0),
            boxbounds=np.array([[0.0, 10.0]] * ndim), realbounds=None,
            hmatrix=np.diag(np.full(ndim, 10.0))))
    return Snapshots(nsnapshots=len(snaps), snapshots=snaps)


def make_condition(val, cplx, scale):
    """val: nested lists with [re, im] integer leaves -> ndarray (leaf axis folded)."""
    a = np.array(val, dtype=float)
    if cplx:
        out = (a[..., 0] + 1j * a[..., 1]) / scale
    else:
        if np.any(a[..., 1] != 0):
            raise MachineryError("real series with imaginary leaves")
        out = a[..., 0] / scale
    return out


NP_TYPES = {"bool": np.bool_, "int8": np.int8, "uint8": np.uint8, "int16": np.int16, "uint16": np.uint16,
            "int32": np.int32, "int64": np.int64, "float16": np.float16, "float32": np.float32,
            "complex64": np.complex64}
LAYOUTS = ("F", "strided", "readonly")


def variants_of(case):
    """representations of the series the SPEC admits: integer types that hold it (with what leaves their range),
    floating types in which the evaluation is exact; memory layouts of the float array."""
    out = []
    for r in case.get("ireps", []):
        stress = "products-leave-dtype" if r["prod"] else "sums-leave-dtype" if r["sum"] else "in-range"
        out.append({"dtype": r["dt"], "stress": stress})
    for f in case.get("freps", []):    # tol: the spec's comparison tolerance for a series held in that precision
        out.append({"dtype": f["dt"], "stress": "exact-in-type", "tol": ev(f["tol"])})
    return out


def build_cond(val, cplx, scale, var=None):
    """render the abstract series; var = {"dtype": name} | {"layout": name} | None (float64 / complex128)"""
    cond = make_condition(val, cplx, scale)
    if not var:
        return cond
    if "dtype" in var:
        if scale != 1:
            raise MachineryError("typed rendering at a scale other than 1")
        out = cond.astype(NP_TYPES[var["dtype"]])
        if not np.array_equal(out.astype(cond.dtype), cond):
            raise MachineryError(f"the spec says {var['dtype']} holds the series but the values do not survive the cast")
        return out
    lay = var["layout"]
    if lay == "F":
        return np.asfortranarray(cond)
    if lay == "strided":                       # every other particle slot of a larger array
        big = np.zeros((cond.shape[0], 2 * cond.shape[1] + 1) + cond.shape[2:], dtype=cond.dtype)
        view = big[:, 1::2]
        view[...] = cond
        if view.flags["C_CONTIGUOUS"] and cond.shape[1] > 1:
            raise MachineryError("strided view came out contiguous")
        return view
    if lay == "readonly":
        out = cond.copy()
        out.setflags(write=False)
        return out
    raise MachineryError(f"unknown layout {lay}")


def call_api(api, ts, N, cond, dt, outputfile="", ts_type="int"):
    snaps = make_snapshots(ts, N, ts_type=ts_type)
    with warnings.catch_warnings():
        warnings.simplefilter("ignore")
        if isinstance(dt, float) and dt == 0.002 and not outputfile:
            return api(snaps, cond)          # the documented default time step
        return api(snaps, cond, dt=dt, outputfile=outputfile)


def project(df):
    """abstraction function: DataFrame -> (t column, correlation column) by column NAME."""
    cols = list(df.columns)
    if cols != ["t", "time_corr"]:
        return None, None, cols
    return [float(x) for x in df["t"].values], [float(x) for x in df["time_corr"].values], cols


# --------------------------------------------------------------------------
# direction A
# --------------------------------------------------------------------------

def renderings(case, part, scale):
    """the renderings of one emitted case: list of (scale, var, ts_type, dt_int).  Which representations are
    admissible is the spec's statement (ireps / freps / dtInt); which of them a case gets is a hash of its values."""
    h = zlib.crc32(json.dumps([case["val"], case["ts"]], separators=(",", ":")).encode())
    typed = variants_of(case)
    layouts = [{"layout": lay} for lay in LAYOUTS]
    ts_types = ["int", "int64"] + (["int32"] if max(case["ts"]) < 2 ** 31 else [])
    ts_type = ts_types[(h >> 3) % len(ts_types)]
    dt_int = bool(case.get("dtInt")) and (h >> 5) % 2 == 0
    base = (scale, None, ts_type, dt_int)
    if part in ("fam", "exh"):
        # one rendering per case: every other case at scale 1 in one of its representations
        if scale == 1 and h % 2 == 0:
            pool = typed + layouts
            return [(1, pool[(h >> 7) % len(pool)], ts_type, dt_int)]
        return [base]
    if part == "long":                # long series: the float rendering, one typed one and one layout
        out = [base]
        if typed:
            out.append((1, typed[(h >> 7) % len(typed)], "int", False))
        out.append((scale, layouts[(h >> 9) % len(layouts)], "int", False))
        return out
    # representations part: every type the spec admits, and one layout
    return [base] + [(1, v, ts_type, dt_int) for v in typed] + [(scale, layouts[(h >> 9) % len(layouts)], "int", False)]


def replay_case(chk, case, api, scale=1, csvdir=None, verbose=False, part="fam", stats=None):
    expected = [ev(t) for t in case["corrT"]]
    texp = [ev(t) for t in case["tT"]]
    for k, r in enumerate(case["corr"]):       # the spec's two forms of the same number agree
        if not close(expected[k], r[0] / r[1], 1e-12, 1e-12):
            raise MachineryError("term and exact rational disagree in an emitted case")
    ok = True
    for j, (sc, var, ts_type, dt_int) in enumerate(renderings(case, part, scale)):
        if stats is not None and var and "dtype" in var:
            stats[(var["dtype"], var["stress"], case["rank"], case["kind"] if case["T"] > 1 else "single")] += 1
        ok = replay_one(chk, case, api, expected, texp, sc, var, ts_type, dt_int,
                        csvdir if j == 0 else None, verbose) and ok
    return ok


def replay_one(chk, case, api, expected, texp, scale, var, ts_type, dt_int, csvdir=None, verbose=False):
    T, N = case["T"], case["N"]
    dt = case["dt"][0] if dt_int else case["dt"][0] / case["dt"][1]
    cond = build_cond(case["val"], case["cplx"], scale, var)
    brief = {k: case[k] for k in ("T", "N", "rank", "dim", "cplx", "ts", "dt", "val", "kind")}
    brief.update(scale=scale, var=var, ts_type=ts_type, dt_int=dt_int)
    # the clause names the representation: storage type and what leaves its range / layout
    shape = ("scalar", "vector", "tensor")[case["rank"]]
    tag = "" if not var else (f":{shape}:{var['dtype']}:{var['stress']}" if "dtype" in var else f":{shape}:layout-{var['layout']}")
    outfile = os.path.join(csvdir, "tc.csv") if csvdir else ""
    before = cond.copy()
    try:
        df = call_api(api, case["ts"], N, cond, dt, outfile, ts_type)
    except Exception as e:  # the library raising on a valid input is a violation
        chk.violation(f"raises:{type(e).__name__}" + tag, {"dir": "A", "case": brief, "error": str(e)[:300]})
        return False
    tobs, cobs, cols = project(df)
    info = {"dir": "A", "case": brief, "expected_corr": expected, "expected_t": texp,
            "observed_corr": cobs, "observed_t": tobs}
    if verbose:
        print(json.dumps(info, indent=1))
    if tobs is None:
        chk.violation("Columns" + tag, {**info, "columns": cols})
        return False
    if not np.array_equal(before, cond, equal_nan=True):
        chk.violation("InputUnchanged" + tag, info)
        return False
    if len(cobs) != T:
        chk.violation("Rows" + tag, info)
        return False
    for k in range(T):
        if not close(tobs[k], texp[k]):
            chk.violation("TimeAxis" + tag, {**info, "lag": k})
            return False
    if cobs[0] != 1.0:
        chk.violation("LagZeroIsOne" + tag, info)
        return False
    tol = var.get("tol", 1e-9) if var else 1e-9
    for k in range(T):
        if not close(cobs[k], expected[k], tol, tol):
            chk.violation("AlgorithmEqualsDefinition:" + case["kind"] + tag, {**info, "lag": k})
            return False
    if csvdir:
        with open(outfile) as f:
            rows = list(csv.reader(f))
        if rows[0] != ["t", "time_corr"] or len(rows) != T + 1:
            chk.violation("CSV" + tag, {**info, "csv": rows[:3]})
            return False
        for k in range(T):
            if abs(float(rows[k + 1][0]) - tobs[k]) > 0.5e-8 + 1e-12 or \
               abs(float(rows[k + 1][1]) - cobs[k]) > 0.5e-8 + 1e-12:
                chk.violation("CSV" + tag, {**info, "csv_row": rows[k + 1], "lag": k})
                return False
    return True


# --------------------------------------------------------------------------
# direction B
# --------------------------------------------------------------------------

def _rand_leaf(rng, cplx, vmax):
    return [rng.randint(-vmax, vmax), rng.randint(-vmax, vmax) if cplx else 0]


def gen_record(rng, api, long_T=None):
    """one recorded call; long_T = (lo, hi): a LONG series (the trace spec then states the terminal loop state
    directly instead of stepping through T (T + 1) / 2 iterations; small values keep its integer sums in 32 bits)"""
    T = rng.choice([1, 2, 3, 4, 5, 6, 7, 9, 12, 16, 20])
    N = rng.randint(1, 6)
    rank = rng.choice([0, 1, 2])
    dim = 1 if rank == 0 else rng.choice([2, 3])
    cplx = rng.randint(0, 1)
    S = rng.choice([1, 10, 100])
    vmax = 300
    style = rng.choice(["lin", "lin", "log", "uneven", "lastodd", "slip"])
    if long_T:
        T = rng.randint(*long_T)
        N = rng.randint(1, 3)
        vmax = 30
        style = rng.choice(["lin", "lin", "lin", "uneven", "lastodd", "slip"])
    t0 = rng.choice([0, 0, 17, 1000])
    iv = rng.choice([1, 2, 10, 500])
    if style == "lin":
        ts = [t0 + iv * k for k in range(T)]
    elif style == "log":
        ts = [t0] + [t0 + iv * (2 ** (k - 1)) for k in range(1, T)]
        if T > 14:
            ts = [t0 + iv * k * k for k in range(T)]
    elif style == "uneven":
        ts, cur = [], t0
        for k in range(T):
            ts.append(cur)
            cur += iv * rng.randint(1, 3)
    elif style == "slip":       # long intervals, one of them longer by a single step: unevenly spaced, however close
        big = rng.choice([100000, 250000, 1000000])
        at = rng.randint(1, max(1, T - 1))
        ts = [t0 + big * k + (1 if k >= at else 0) for k in range(T)]
    else:
        ts = [t0 + iv * k for k in range(T)]
        ts[-1] += iv
    dtq = rng.choice([[1, 500], [1, 100], [1, 4], [1, 1], [5, 2]])

    def leaf():
        return _rand_leaf(rng, cplx, vmax)
    if rank == 0:
        val = [[leaf() for _ in range(N)] for _ in range(T)]
    elif rank == 1:
        val = [[[leaf() for _ in range(dim)] for _ in range(N)] for _ in range(T)]
    else:
        val = [[[[leaf() for _ in range(dim)] for _ in range(dim)] for _ in range(N)] for _ in range(T)]
    # lag-zero value must be non-zero (normalisation defined): make the first leaf of frame 0 non-zero
    first = val[0][0]
    while not isinstance(first[0], int):
        first = first[0]
    if first[0] == 0:
        first[0] = 1
    rec = {"T": T, "N": N, "rank": rank, "dim": dim, "cplx": cplx, "S": S, "ts": ts, "dt": dtq, "val": val}
    dt = dtq[0] / dtq[1]
    ctx = {}
    try:
        df = call_api(api, ts, N, make_condition(val, cplx, S), dt)
    except Exception as e:
        ctx["raises"] = f"{type(e).__name__}: {str(e)[:200]}"
        rec["obs"] = {"rows": -1, "tq": [0] * T, "tq_ok": 0, "one": 0}
        return rec, ctx
    tobs, cobs, cols = project(df)
    if tobs is None:
        ctx["columns"] = cols
        rec["obs"] = {"rows": -1, "tq": [0] * T, "tq_ok": 0, "one": 0}
        return rec, ctx
    try:
        tq = [int(round(x / dt)) for x in tobs]
        ok = all(abs(tq[k] * dt - tobs[k]) <= 1e-9 * (1 + abs(tobs[k])) for k in range(len(tobs)))
    except (ValueError, OverflowError):      # non-finite time axis: an observation for the spec to reject
        tq, ok = [0] * len(tobs), False
    if len(tq) != T:
        tq = (tq + [0] * T)[:T]
    rec["obs"] = {"rows": len(cobs), "tq": tq, "tq_ok": int(ok), "one": int(len(cobs) > 0 and cobs[0] == 1.0)}
    ctx.update(observed_corr=cobs, observed_t=tobs)
    return rec, ctx


def validate_records(records, timeout=1800):
    """Run TraceTimeCorr over the records.  Returns (TlcResult, reject | None, printed expectations)."""
    tmp = common.scratch_dir("verif_c14_")
    try:
        path = os.path.join(tmp, "trace.ndjson")
        with open(path, "w") as f:
            for rec in records:
                f.write(json.dumps(rec, separators=(",", ":")) + "\n")
        r = run_tlc("TraceTimeCorr", dict(invariants=["Accepted", "TraceAlgDef"]), workers=1, timeout=timeout,
                    env={"TRACE_FILE": path}, keep_stdout=True)
        out = r.stdout
        printed = list(r.cases)
        if r.violated == "Accepted":
            bads = common._BAD.findall(out)
            ls = common._LVAL.findall(out)
            clause = [b for b in bads if b][-1] if any(bads) else "rejected"
            idx = int(ls[-1]) - 1 if ls else -1
            r.violated = None
            r.stdout = out[-2000:]
            return r, (idx, clause), printed
        if r.violated or r.error:
            raise MachineryError(f"trace validation with TraceTimeCorr failed:\n{out[-3000:]}")
        if len({p["rec"] for p in printed}) != len(records):
            raise MachineryError(f"TraceTimeCorr consumed {len(printed)} of {len(records)} records without naming a clause")
        r.stdout = out[-1000:]
        return r, None, printed
    finally:
        shutil.rmtree(tmp, ignore_errors=True)


def check_trace(chk, recs, ctxs, label="TraceTimeCorr", max_rejects=4, tol=1e-9):
    """Validate all records (continuing after rejections) and compare the printed terms."""
    offset = 0
    nrej = 0
    accepted = []
    todo = list(recs)
    while todo:
        r, rej, printed = validate_records(todo)
        chk.add_tlc(r, label)
        byrec = {}
        for p in printed:                     # TLC re-evaluates actions when it rebuilds an error trace: dedupe
            byrec.setdefault(p["rec"], p)
        nacc = len(todo) if rej is None else rej[0]
        accepted += list(range(offset, offset + nacc))
        if sorted(byrec) != list(range(1, nacc + 1)):
            raise MachineryError(f"TraceTimeCorr printed records {sorted(byrec)[:5]}.. but accepted {nacc}")
        for j in range(nacc):
            p = byrec[j + 1]
            i = offset + j
            rec, ctx = recs[i], ctxs[i]
            exp = [ev(t) for t in p["corr"]]
            obs = ctx.get("observed_corr")
            info = {"dir": "B", "record": rec, "kind": p["kind"], "expected_corr": exp, "observed_corr": obs}
            bad = None
            for k in range(rec["T"]):
                if not close(obs[k], exp[k], tol, tol):
                    bad = k
                    break
            if bad is not None:
                chk.violation("trace:AlgorithmEqualsDefinition:" + p["kind"], {**info, "lag": bad})
            else:
                chk.ok(("B", json.dumps(rec["val"])[:200], str(rec["ts"])), nontrivial=rec["T"] > 1)
        if rej is None:
            break
        idx, clause = rej
        if idx < 0:
            raise MachineryError("trace rejected without a record index")
        i = offset + idx
        if "raises" in ctxs[i]:
            clause = "raises:" + ctxs[i]["raises"].split(":")[0]
        chk.violation("trace:" + clause, {"dir": "B", "record": recs[i], **ctxs[i]})
        nrej += 1
        if nrej >= max_rejects:              # enough evidence; the rest of the trace stays unvalidated
            chk.extra["trace_records_not_validated_after_rejections"] = len(todo) - idx - 1
            break
        todo = todo[idx + 1:]
        offset += idx + 1
    return accepted


def finish(chk):
    """one representative of every distinct clause first (the report prints the first 20 violations), the clauses
    of the plain float64 / complex128 rendering before those of typed renderings whose results stay in the
    type's range, before sums-leave-dtype, before products-leave-dtype; clause statistics go into the evidence"""
    def rank(clause):
        return (3 if "products-leave-dtype" in clause else 2 if "sums-leave-dtype" in clause
                else 1 if clause.count(":") >= 3 or ":layout-" in clause else 0, clause)
    seen, first, rest = set(), [], []
    for v in chk.violations:
        (rest if v[0] in seen else first).append(v)
        seen.add(v[0])
    first.sort(key=lambda v: rank(v[0]))
    chk.violations[:] = first + rest
    if chk.violations:
        chk.extra["violated_clauses"] = dict(collections.Counter(v[0] for v in chk.violations))
    return chk.finish()


def corrupt_one_field(chk, recs):
    """Binding self-test of the trace spec: one observed time-axis entry of one record is changed; TraceTimeCorr
    must reject exactly that record with clause TimeAxis.  Only records the specification ACCEPTS uncorrupted are
    used (a record it rejects is a reported violation of the library, never a machinery error): the candidates
    come from the records check_trace saw accepted and, should the outcome still be unexpected, are validated
    uncorrupted before anything is blamed on the machinery; without three accepted records (or when they turn out
    not to be accepted) the self-test runs on a synthetic trace."""
    synthetic = [{"T": 3, "N": 1, "rank": 0, "dim": 1, "cplx": 0, "S": 1, "ts": [0, 5, 10 + u], "dt": [1, 4],
                  "val": [[[1 + u, 0]], [[2, 0]], [[3, 0]]],
                  "obs": {"rows": 3, "tq": [0, 5, 10 + u], "tq_ok": 1, "one": 1}} for u in (0, 1, 2)]
    cand = [r for r in recs if 2 <= r["T"] <= 24][:3]      # recs: records check_trace saw accepted
    source = "recorded"
    if len(cand) < 3:
        cand, source = synthetic, "synthetic"
        chk.extra["corrupt_one_field_note"] = "fewer than three accepted recorded calls: synthetic trace used"

    def attempt(trace):
        bad = json.loads(json.dumps(trace))
        bad[1]["obs"]["tq"][-1] += 1
        r, rej, _ = validate_records(bad)
        chk.add_tlc(r, "TraceTimeCorr corrupt-one-field")
        return rej
    rej = attempt(cand)
    if (rej is None or rej[0] != 1 or rej[1] != "TimeAxis") and source == "recorded":
        # is it the corruption that went unnoticed, or are the recorded candidates themselves not accepted?
        r0, rej0, _ = validate_records(json.loads(json.dumps(cand)))
        chk.add_tlc(r0, "TraceTimeCorr corrupt-one-field (uncorrupted)")
        if rej0 is not None:
            chk.extra["corrupt_one_field_note"] = (f"recorded candidates are not accepted uncorrupted ({rej0[1]}; a "
                                                   "violation reported by the trace check): synthetic trace used")
            source = "synthetic"
            rej = attempt(synthetic)
    if rej is None or rej[0] != 1 or rej[1] != "TimeAxis":
        raise MachineryError(f"corrupted {source} trace record was not rejected at that record (got {rej})")
    chk.extra["corrupt_one_field_rejected"] = source


# --------------------------------------------------------------------------
# entry point
# --------------------------------------------------------------------------

def run(tier, replay=None):
    common.import_lib()
    chk = Check("C14", tier)
    chk.rule = ("A: TLC runs the (n, nn) loop state machine of TimeCorr.tla on every series of the MC_TimeCorr scope "
                "(hashed families T=1..5, ranks 0/1/2, real/complex, 10 timestep patterns; exhaustive value assignments "
                "for small T; part rep: value sets sized to the ranges of bool/int8/uint8/int16/uint16, wide series N up to "
                "1300 (quick) / 5003, labels around 2e9; part long: T = 257..300 (quick) / 256..1100, terminal loop state "
                "stated from the definition), invariants = clauses of C14, one case per series replayed into time_correlation "
                "(both columns, lag zero == 1.0, CSV) in float64/complex128 and in the storage types the spec says hold the "
                "series (with what leaves their range) or evaluate it exactly, Fortran-ordered / strided / read-only arrays, "
                "integer dt, numpy-typed timestep labels. B: seeded random decimal series T<=20 plus long ones (T 257..420 "
                "quick / ..1100) recorded from the real code; TraceTimeCorr.tla carries the loop state, decides rows / integer "
                "time axis / lag-zero and prints expected terms. distinct_nontrivial = cases with T >= 2.")
    chk.assumptions = ["float comparison at 1e-9 of values the spec gives exactly (rational) or as a term",
                       "series with zero lag-zero value (all values 0 in every origin) are outside the property (0/0)",
                       "which factor carries the conjugate is not observable in the real part; only its presence is decided",
                       "an integer / bool array is a series of real numbers: the storage type must hold the values, not the products and sums",
                       "series rendered in float16 / float32 / complex64 (only where the definition's arithmetic is exact in the type) are compared at the spec's tolerance 64 T ulp(type), not at 1e-9"]
    try:
        from PyMatterSim.dynamic.time_corr import time_correlation as api
    except Exception as e:
        chk.violation(f"raises:{type(e).__name__}", {"dir": "import", "error": str(e)[:300]})
        return chk.finish()

    if replay:
        data = common.load_replay(replay)
        case = data["case"]
        print("clause:", data.get("clause"))
        if case.get("dir") == "A":
            c = dict(case["case"])
            # re-derive the expectation from the spec: run the trace spec on the same series
            rec = {**{k: c[k] for k in ("T", "N", "rank", "dim", "cplx", "ts", "dt", "val")}, "S": c.get("scale", 1)}
            recs, ctxs = [rec], [{}]
            var, ts_type, dt_int = c.get("var"), c.get("ts_type", "int"), c.get("dt_int", False)
            print("rendering         :", {"var": var, "ts_type": ts_type, "dt_int": dt_int, "scale": rec["S"]})
        else:
            recs, ctxs = [case["record"]], [{}]
            var, ts_type, dt_int = None, "int", False
        rec = recs[0]
        dt = rec["dt"][0] / rec["dt"][1]
        tol = var.get("tol", 1e-9) if var else 1e-9
        try:
            df = call_api(api, rec["ts"], rec["N"], build_cond(rec["val"], rec["cplx"], rec.get("S", 1), var),
                          rec["dt"][0] if dt_int else dt, ts_type=ts_type)
            tobs, cobs, _ = project(df)
            tq = [int(round(x / dt)) for x in tobs]
            rec["obs"] = {"rows": len(cobs), "tq": (tq + [0] * rec["T"])[:rec["T"]], "tq_ok": 1,
                          "one": int(cobs[0] == 1.0)}
            ctxs[0] = {"observed_corr": cobs, "observed_t": tobs}
            print("observed t        :", tobs)
            print("observed time_corr:", cobs)
        except Exception as e:
            print("library raised:", type(e).__name__, e)
            rec["obs"] = {"rows": -1, "tq": [0] * rec["T"], "tq_ok": 0, "one": 0}
            ctxs[0] = {"raises": type(e).__name__}
        r, rej, printed = validate_records([rec])
        if printed:
            print("expected kind     :", printed[0]["kind"])
            print("expected time_corr:", [ev(t) for t in printed[0]["corr"]])
            print("expected t        :", [ev(t) for t in printed[0]["tT"]])
        if rej:
            print("trace spec rejects the record, clause:", rej[1])
        check_trace(chk, recs, ctxs, tol=tol)
        return chk.finish()

    # ---- direction A: model checking + emission + replay
    csvdir = common.scratch_dir("verif_c14csv_")
    try:
        nsh = 8
        kinds = {"linear": 0, "log": 0}
        conj = 0
        stats = collections.Counter()
        sizes = {"maxT": 0, "maxN": 0, "long_linear": 0, "long_log": 0, "wide": 0}
        parts = ("fam", "exh", "rep", "long")

        def model(part):
            return run_tlc_sharded("MC_TimeCorr",
                                   dict(constants={"Tier": tier, "Part": part, "SEED": common.SEED},
                                        invariants=INVS, properties=PROPS),
                                   nshards=nsh, coverage=(tier == "thorough"))
        # the model runs of the next part overlap the replay of the previous one (two parts in flight)
        pool = cf.ThreadPoolExecutor(max_workers=2)
        futs = [pool.submit(model, part) for part in parts]
        pool.shutdown(wait=False)
        for part, fut in zip(parts, futs):
            r = fut.result()
            require_model_ok(r, f"MC_TimeCorr {part}")
            chk.add_tlc(r, f"MC_TimeCorr {part}")
            if not r.cases:
                raise MachineryError("no cases emitted")
            for j, case in enumerate(r.cases):
                scale = (1, 8, 10)[j % 3]
                ok = replay_case(chk, case, api, scale=scale, csvdir=csvdir if j % 7 == 0 else None,
                                 part=part, stats=stats)
                sizes["maxT"] = max(sizes["maxT"], case["T"])
                sizes["maxN"] = max(sizes["maxN"], case["N"])
                if case["T"] > 255:
                    sizes["long_" + case["kind"]] += 1
                if case["N"] > 255:
                    sizes["wide"] += 1
                if case["T"] > 1:
                    kinds[case["kind"]] += 1
                conj += int(case["conjMatters"])
                if ok:
                    small = case["T"] <= 8
                    chk.ok(("A", part, j), nontrivial=case["T"] > 1,
                           sample={"T": case["T"], "N": case["N"], "rank": case["rank"], "cplx": case["cplx"],
                                   "ts": case["ts"] if small else case["ts"][:3] + ["..."] + case["ts"][-2:],
                                   "kind": case["kind"], "counts": case["counts"] if small else "T-k" if case["kind"] == "linear" else "1",
                                   "corr": case["corr"] if small else "terms", "ireps": case["ireps"], "freps": case["freps"]})
        chk.exhaustive = True
        chk.extra["cases_by_kind_T>=2"] = kinds
        chk.extra["cases_where_conjugate_is_observable"] = conj
        if kinds["linear"] == 0 or kinds["log"] == 0 or conj == 0:
            raise MachineryError("scope is vacuous: a sampling kind or the conjugate is never exercised")
        # non-vacuity of the representation scope: for every narrow integer type, every rank and both sampling kinds
        # some rendered series has particle / component sums outside the type (products inside) and some has
        # products outside; bool: sums outside; the exact floating types are rendered in every branch
        missing = []
        for rank in (0, 1, 2):
            for kind in ("linear", "log"):
                for ty in ("int8", "uint8", "int16", "uint16"):
                    for stress in ("sums-leave-dtype", "products-leave-dtype"):
                        if stats[(ty, stress, rank, kind)] == 0:
                            missing.append((ty, stress, rank, kind))
                for ty, stress in (("bool", "sums-leave-dtype"), ("float32", "exact-in-type"), ("float16", "exact-in-type"),
                                   ("complex64", "exact-in-type"), ("int64", "in-range")):
                    if stats[(ty, stress, rank, kind)] == 0:
                        missing.append((ty, stress, rank, kind))
        if missing:
            raise MachineryError(f"representation scope is vacuous for {missing[:6]} ({len(missing)} combinations)")
        if sizes["long_linear"] == 0 or sizes["long_log"] == 0 or sizes["wide"] == 0:
            raise MachineryError(f"size scope is vacuous: {sizes}")
        chk.extra["typed_renderings"] = {"|".join(map(str, k)): v for k, v in sorted(stats.items(), key=str)}
        chk.extra["sizes"] = sizes
    finally:
        shutil.rmtree(csvdir, ignore_errors=True)

    # ---- direction B
    rng = random.Random(common.SEED * 7919 + 14)
    nrec = 250 if tier == "quick" else 3000
    recs, ctxs = [], []
    nlong = 3 if tier == "quick" else 10
    for j in range(nrec + nlong):
        # long series (size thresholds of fast paths): frame counts drawn between 257 and 420 (quick) / 1100
        long_T = None if j < nrec else (257, 420) if tier == "quick" or j % 2 else (421, 1100)
        rec, ctx = gen_record(rng, api, long_T)
        recs.append(rec)
        ctxs.append(ctx)
    accepted = check_trace(chk, recs, ctxs)
    corrupt_one_field(chk, [recs[i] for i in accepted])
    if tier == "thorough" and chk.coverage_actions.get("Acc", 0) == 0:
        raise MachineryError("action Acc has zero coverage: the loop state machine was not exercised")
    chk.samples.append({"trace_record": {k: recs[0][k] for k in ("T", "N", "rank", "dim", "cplx", "ts", "dt", "obs")}})
    return finish(chk)
