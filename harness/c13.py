"""C13 - conditional g(r) and S(q) (PyMatterSim.static.gr.conditional_gr, static.sq.conditional_sq)
against spec/Conditional.tla (which builds on PairHist.tla and DensityModes.tla).

Direction A: TLC checks the C13 clauses (BoolOfSpeciesIsPartial against PairHist's partial counts and
DensityModes' correlations, OnesIsTotal, VectorIsSumOfComponents, NormalisedVariant, symmetric weights,
...) as invariants on every configuration of the MC_Conditional scopes and emits per configuration the
exact weighted pair sums per bin / the weighted class sums per wave vector together with the
normalisation, shell and formula terms.  Every case is rendered into a SingleSnapshot and a condition
array and run through conditional_gr / conditional_sq; every column of the returned frames is compared.
The reductions named by the spec (field `rel`) are also executed BETWEEN PUBLIC CALLS of the code:
conditional_gr(bool of species a) vs gr(...).getresults()[gr_aa], conditional_sq(...) vs sq(...)[Sq_aa],
A = 1 vs the totals, vector / tensor / complex fields vs the sum over their components, the normalised
variant vs the documented formula applied to the returned gA.
Direction B: seeded random decimal inputs (N <= 30, triclinic cells, all condition kinds) are run through
the real code; TraceConditional.tla decides the discrete observables of every record (rows, columns,
bin centres, wave vectors, number of |q| groups) and prints the expected real-valued columns as terms.
Python renders inputs, calls the API, evaluates terms and compares; it holds no definition.
"""
import concurrent.futures as cf
import json
import math
import os
import random
import shutil
import warnings

import numpy as np

from . import common
from .common import Check, MachineryError, run_tlc, run_tlc_sharded, require_model_ok
from .realeval import ev, close

INVS = ["InvBoolOfSpeciesIsPartial", "InvOnesIsTotal", "InvVectorIsSumOfComponents", "InvNormalisedVariant",
        "InvWeightSymmetric", "InvCountIsPairHistTotal", "InvBoolIsSubsystemTotal", "InvComplexIsVectorOfParts",
        "InvSqRealNonNegative", "InvScope"]
QTOL = 5e-9 + 1e-9      # conditional_sq rounds every column to 8 decimals
SQ6 = 6e-7              # sq(...) rounds per-vector values to 6 decimals before the |q| average


# --------------------------------------------------------------------------
# rendering of abstract inputs
# --------------------------------------------------------------------------

def make_condition(case, variant=0):
    """A (nested lists with [re, im] integer leaves, unit 1/AS) -> (ndarray, conditiontype).
    Variants render the same values in another dtype / memory layout that represents them exactly:
      1  int64 for integral real fields, complex64 for complex ones
      3  float32 for real fields (values are small dyadic numbers there), a strided (non-contiguous) view for complex ones"""
    kind, AS = case["kind"], case["AS"]
    a = np.array(case["A"], dtype=float)
    re, im = a[..., 0], a[..., 1]
    if kind == "bool":
        return re != 0, None
    ctype = {"vector": "vector", "tensor": "tensor"}.get(kind)
    if kind == "complex" or np.any(im != 0):
        arr = (re + 1j * im) / AS
        if variant == 1:
            arr = arr.astype(np.complex64)
        elif variant == 3:
            big = np.zeros((2 * arr.shape[0],) + arr.shape[1:], dtype=arr.dtype)
            big[::2] = arr
            arr = big[::2]
    else:
        arr = re / AS
        if variant == 1 and AS == 1:
            arr = arr.astype(np.int64)
        elif variant == 3 and AS in (1, 2):
            arr = arr.astype(np.float32)
    return arr, ctype


def gr_snapshot(case):
    S = case["S"]
    return common.make_snapshot(np.array(case["pos"], dtype=float) / S, case["types"], np.array(case["H"], dtype=float) / S)


def sq_snapshot(case):
    L = np.array(case["L"], dtype=float) / case["S"]
    pos = np.array(case["pos"], dtype=float) * L[np.newaxis, :] / case["M"]
    return common.make_snapshot(pos, case["types"], np.diag(L)), L


def brief(case):
    keys = ("fam", "id", "H", "L", "M", "ppp", "S", "types", "pos", "wn", "sharp", "sel", "kind", "AS", "A")
    return {k: case[k] for k in keys if k in case}


class LibraryRaised(Exception):
    """an exception raised by a public routine of the library on a valid input (a violation, not a machinery failure)"""

    def __init__(self, what, exc):
        super().__init__(f"{what}: {type(exc).__name__}: {str(exc)[:200]}")
        self.clause = f"raises:{type(exc).__name__}"


def _lib(what, fn, *a, **kw):
    with warnings.catch_warnings():
        warnings.simplefilter("ignore")
        with np.errstate(all="ignore"):
            try:
                return fn(*a, **kw)
            except Exception as e:
                raise LibraryRaised(what, e)


def call_gr(snap, cond, ctype, ppp, rdelta):
    from PyMatterSim.static.gr import conditional_gr
    return _lib("conditional_gr", conditional_gr, snap, cond, conditiontype=ctype, ppp=np.array(ppp), rdelta=rdelta)


def call_sq(snap, qvector, cond):
    from PyMatterSim.static.sq import conditional_sq
    return _lib("conditional_sq", conditional_sq, snap, qvector, cond)


# --------------------------------------------------------------------------
# comparison of a returned frame with the spec's case (both directions)
# --------------------------------------------------------------------------

def compare_gr(case, df, single=False):
    """-> (clause, detail) of the first disagreement or None; sets case['_nontrivial'], case['_partial'].
    single: the field was given in single precision (its moments carry single-precision rounding)."""
    nb = case["nbins"]
    cols = list(df.columns)
    if cols != case["cols"]:
        return "Columns", {"expected": case["cols"], "observed": cols}
    if len(df) != nb:
        return "NumberOfBins", {"expected": nb, "observed": len(df)}
    normG, normA = ev(case["normG"]), ev(case["normA"])
    shell = [ev(t) for t in case["shell"]]
    nontrivial, partial = False, False
    slope = None
    if case["norm_defined"]:
        f0, f1 = ev(case["norm_formula"], {"gA": 0.0}), ev(case["norm_formula"], {"gA": 1.0})
        slope = abs(f1 - f0)
    for k in range(nb):
        if not close(float(df["r"].iloc[k]), ev(case["r"][k])):
            return "BinCentre", {"bin": k, "expected": ev(case["r"][k]), "observed": float(df["r"].iloc[k])}
        if case["tie"][k] != 0:        # a pair may or may not be in this bin (float-fragile decision): not asserted
            partial = True
            continue
        eg = ev(case["formula"], {"norm": normG, "n": ev(case["nG"][k]), "shell": shell[k]})
        ea = ev(case["formula"], {"norm": normA, "n": ev(case["nA"][k]), "shell": shell[k]})
        og, oa = float(df["gr"].iloc[k]), float(df["gA"].iloc[k])
        if eg != 0 and ea != 0:
            nontrivial = True
        if not close(og, eg):
            return "Reference:gr", {"bin": k, "expected": eg, "observed": og, "ordered_pairs": case["nG"][k]}
        if not close(oa, ea):
            return "WeightedDefinition:gA", {"bin": k, "expected": ea, "observed": oa, "weighted_ordered_sum": case["nA"][k],
                                            "selected_or_N": case["nnorm"]}
        if case["norm_defined"]:
            en = ev(case["norm_formula"], {"gA": ea})
            on = float(df["gA_norm"].iloc[k])
            tol = 1e-9 + 1e-9 * abs(en) + 1e-12 * slope * (1 + abs(ea))
            if single:
                tol = 1e-5 * (1 + abs(en)) * (1 + slope * (1 + abs(ea)))
            if not abs(on - en) <= tol:
                return "NormalisedVariant:gA_norm", {"bin": k, "expected": en, "observed": on, "gA": ea}
    case["_nontrivial"], case["_partial"] = nontrivial, partial
    return None


def cclose(a, b, tol):
    return abs(complex(a) - complex(b)) <= tol + 1e-9 * abs(b)


def compare_sq(case, res, ave, qvector):
    """res, ave: the two frames returned by conditional_sq for the integer vectors qvector (rows in that order)."""
    cols = list(res.columns)
    if cols != case["cols"]:
        return "Columns", {"expected": case["cols"], "observed": cols}
    index = {tuple(v): j for j, v in enumerate(case["vecs"])}
    got = [tuple(int(x) for x in v) for v in np.asarray(qvector).reshape(-1, len(case["L"]))]
    if sorted(got) != sorted(index):
        return "WaveVectorSet", {"missing": [v for v in index if v not in got][:8], "unexpected": [v for v in got if v not in index][:8]}
    if len(res) != len(got):
        return "Rows", {"expected": len(got), "observed": len(res)}
    d = len(case["L"])
    nf = len(case["rho"][0]) if case["rho"] else 1
    sqexp = {}
    nontrivial = False
    for i, v in enumerate(got):
        j = index[v]
        for k in range(d):
            if abs(float(res[f"q{k}"].iloc[i]) - ev(case["qcomp"][j][k])) > QTOL:
                return "WaveVector", {"row": i, "vector": v, "axis": k, "expected": ev(case["qcomp"][j][k]),
                                      "observed": float(res[f"q{k}"].iloc[i])}
        if abs(float(res["q"].iloc[i]) - ev(case["q"][j])) > QTOL:
            return "WaveNumber", {"row": i, "vector": v, "expected": ev(case["q"][j]), "observed": float(res["q"].iloc[i])}
        rho = [complex(ev(t)) for t in case["rho"][j]]
        es = ev(case["sq_formula"], {f"rho{f + 1}": rho[f] for f in range(nf)})
        sqexp[j + 1] = es
        if abs(es) > 1e-3:
            nontrivial = True
        osq = float(res["Sq"].iloc[i])
        if abs(osq - es) > QTOL + 1e-9 * abs(es):
            return "WeightedDefinition:Sq", {"row": i, "vector": v, "expected": es, "observed": osq, "selected_or_N": case["nnorm"]}
        for f in range(nf):
            name = f"FFT{f}" if case["kind"] == "vector" else "FFT"
            ef = ev(case["fft_formula"], {"rho": rho[f]})
            of = complex(res[name].iloc[i])
            if not cclose(of, ef, 2 * QTOL):
                return f"FourierTransform:{name}", {"row": i, "vector": v, "expected": [ef.real, ef.imag], "observed": [of.real, of.imag]}
    # the |q|-averaged frame
    if list(ave.columns) != ["q", "Sq"]:
        return "Columns:average", {"observed": list(ave.columns)}
    groups = case["groups"]
    qexp = [ev(g["q"]) for g in groups]
    if any(abs(a - b) < 3e-8 for a, b in zip(qexp, qexp[1:])):     # two distinct |q| the rounding to 1e-8 could merge
        case["_tie_groups"] = True
    else:
        if len(ave) != len(groups):
            return "GroupingByNorm", {"expected_groups": len(groups), "observed": len(ave)}
        for gi, g in enumerate(groups):
            em = ev(g["mean"], {f"sq{m}": sqexp[m] for m in g["members"]})
            if abs(float(ave["q"].iloc[gi]) - qexp[gi]) > QTOL:
                return "WaveNumber:average", {"group": gi, "expected": qexp[gi], "observed": float(ave["q"].iloc[gi])}
            if abs(float(ave["Sq"].iloc[gi]) - em) > QTOL + 1e-9 * abs(em):
                return "GroupingByNorm:Sq", {"group": gi, "members": [case["vecs"][m - 1] for m in g["members"]],
                                             "expected": em, "observed": float(ave["Sq"].iloc[gi])}
    case["_nontrivial"] = nontrivial
    return None


# --------------------------------------------------------------------------
# reductions between public calls of the code (the spec names the relation, field `rel`)
# --------------------------------------------------------------------------

def _vclose(a, b, atol=1e-9, rtol=1e-9):
    a, b = np.asarray(a, dtype=float), np.asarray(b, dtype=float)
    return a.shape == b.shape and bool(np.all(np.abs(a - b) <= atol + rtol * np.abs(b)))


def _first_bad(a, b, atol=1e-9, rtol=1e-9):
    a, b = np.asarray(a, dtype=float), np.asarray(b, dtype=float)
    if a.shape != b.shape:
        return {"shapes": [list(a.shape), list(b.shape)]}
    k = int(np.argmax(np.abs(a - b) - (atol + rtol * np.abs(b))))
    return {"index": k, "left": float(a[k]), "right": float(b[k])}


def components(case, cond):
    """the scalar component fields of a vector / tensor condition array"""
    if case["kind"] == "vector":
        return [cond[:, k] for k in range(cond.shape[1])]
    n = cond.shape[1]
    return [cond[:, a, b] for a in range(n) for b in range(n)]


def relations_gr(case, snap, cond, ctype, df):
    from PyMatterSim.static.gr import gr
    ppp, rdelta = case["ppp"], case["wn"] / case["S"]
    for rel in case["rel"]:
        name = rel["name"]
        if name in ("BoolOfSpeciesIsPartial", "OnesIsTotal"):
            snaps = common.make_snapshots([snap.positions], case["types"], snap.hmatrix)
            full = _lib("gr.getresults", lambda: gr(snaps, ppp=np.array(ppp), rdelta=rdelta).getresults())
            if rel["col"] not in full.columns:
                return f"{name}:code", {"missing_column": rel["col"], "columns": list(full.columns)}
            if not _vclose(df["gA"].values, full[rel["col"]].values):
                return f"{name}:code", dict(_first_bad(df["gA"].values, full[rel["col"]].values), left_is="conditional_gr gA",
                                            right_is=f"gr(...).getresults()[{rel['col']}]")
            if name == "OnesIsTotal" and not _vclose(df["gA"].values, df["gr"].values):
                return "OnesIsTotal:code", dict(_first_bad(df["gA"].values, df["gr"].values), left_is="gA", right_is="gr (same call)")
        elif name == "VectorIsSumOfComponents":
            comps = components(case, cond)
            if len(comps) != rel["ncomp"]:
                raise MachineryError("component count of the rendering differs from the spec's")
            tot = sum(call_gr(snap, np.ascontiguousarray(f), None, ppp, rdelta)["gA"].values for f in comps)
            if not _vclose(df["gA"].values, tot, atol=1e-8):
                return "VectorIsSumOfComponents:code", dict(_first_bad(df["gA"].values, tot, atol=1e-8), left_is="field",
                                                            right_is="sum of scalar calls")
        elif name == "ComplexIsVectorOfParts":
            vec = np.c_[np.real(cond), np.imag(cond)].astype(float)
            other = call_gr(snap, vec, "vector", ppp, rdelta)["gA"].values
            if not _vclose(df["gA"].values, other):
                return "ComplexIsVectorOfParts:code", dict(_first_bad(df["gA"].values, other), left_is="complex", right_is="(Re, Im) vector")
        elif name == "NormalisedVariant":
            want = [ev(rel["formula"], {"gA": float(x)}) for x in df["gA"].values]
            slope = abs(ev(rel["formula"], {"gA": 1.0}) - ev(rel["formula"], {"gA": 0.0}))
            if not _vclose(df["gA_norm"].values, want, atol=1e-9 + 1e-12 * slope * (1 + float(np.abs(df["gA"].values).max()))):
                return "NormalisedVariant:code", dict(_first_bad(df["gA_norm"].values, want), left_is="gA_norm",
                                                      right_is="(gA - <A>^2)/(<A^2> - <A>^2) of the returned gA")
        elif name == "BoolIsScaledIndicator":
            other = call_gr(snap, cond.astype(float), None, ppp, rdelta)["gA"].values * ev(rel["ratio"])
            if not _vclose(df["gA"].values, other):
                return "BoolIsScaledIndicator:code", dict(_first_bad(df["gA"].values, other), left_is="bool",
                                                          right_is="0/1 float field times N^2/Nsel^2")
        else:
            raise MachineryError(f"unknown relation {name}")
    return None


def relations_sq(case, snap, cond, qvector, res, ave):
    from PyMatterSim.static.sq import sq
    for rel in case["rel"]:
        name = rel["name"]
        if name in ("BoolOfSpeciesIsPartial", "OnesIsTotal"):
            if case.get("_tie_groups"):
                continue
            snaps = common.make_snapshots([snap.positions], case["types"], snap.hmatrix)
            full = _lib("sq.getresults", lambda: sq(snaps, qvector=np.array(qvector).copy()).getresults())
            if rel["col"] not in full.columns:
                return f"{name}:code", {"missing_column": rel["col"], "columns": list(full.columns)}
            if len(full) != len(ave):      # sq groups by |q| rounded to 1e-6, conditional_sq to 1e-8
                continue
            if not _vclose(ave["Sq"].values, full[rel["col"]].values, atol=SQ6):
                return f"{name}:code", dict(_first_bad(ave["Sq"].values, full[rel["col"]].values, atol=SQ6),
                                            left_is="conditional_sq average", right_is=f"sq(...).getresults()[{rel['col']}]")
        elif name == "VectorIsSumOfComponents":
            tot = sum(call_sq(snap, np.array(qvector).copy(), np.ascontiguousarray(cond[:, k]))[0]["Sq"].values
                      for k in range(cond.shape[1]))
            if not _vclose(res["Sq"].values, tot, atol=4 * QTOL):
                return "VectorIsSumOfComponents:code", dict(_first_bad(res["Sq"].values, tot, atol=4 * QTOL), left_is="vector",
                                                            right_is="sum of scalar calls")
        else:
            raise MachineryError(f"unknown relation {name}")
    return None


# --------------------------------------------------------------------------
# direction A
# --------------------------------------------------------------------------

def default_vectors(case, L):
    """the documented way to obtain the default set (docs/sq.md example)"""
    from PyMatterSim.utils.wavevector import choosewavevector
    sel = case["sel"]
    twopidl = 2 * np.pi / L
    numofq = int(sel["qn"] / sel["qd"] * 2.0 / twopidl.min())
    opt = {"F": False, "T": True}.get(sel["opt"], sel["opt"])
    return np.asarray(choosewavevector(len(L), numofq, opt)).reshape(-1, len(L))


def replay_case(item):
    """Runs one emitted case through the real code.  -> dict(verdict, clause, detail, nontrivial, flags)."""
    idx, case = item
    variant = idx % 4 if idx % 4 in (1, 3) else 0
    out = {"verdict": "ok", "clause": None, "detail": None, "nontrivial": False, "kind": case["kind"], "m": case["m"],
           "conj": 0, "trans": 0, "rels": [r["name"] for r in case["rel"]], "partial": False, "variant": variant}
    info = {"dir": "A", "case": brief(case), "rendering_variant": variant}

    def bad(clause, detail):
        out.update(verdict="violation", clause=clause, detail={**info, **(detail or {})})
        return out
    try:
        cond, ctype = make_condition(case, variant)
        before = cond.copy()
        if case["m"] == "CondGr":
            if case["nbins_on_integer"] and not case["dyadic_scale"]:
                out["verdict"] = "tie"
                return out
            snap = gr_snapshot(case)
            pos0 = snap.positions.copy()
            info["dtype"] = str(cond.dtype)
            df = call_gr(snap, cond, ctype, case["ppp"], case["wn"] / case["S"])
            single = cond.dtype == np.float32
            r = compare_gr(case, df, single)
            if r:
                return bad(*r)
            if single:      # the normalised variant of the returned gA: at single precision only
                case["rel"] = [x for x in case["rel"] if x["name"] != "NormalisedVariant"]
            if not (np.array_equal(before, cond) and np.array_equal(pos0, snap.positions)):
                return bad("InputUnchanged", None)
            r = relations_gr(case, snap, cond, ctype, df)
            if r:
                return bad(*r)
            out["conj"], out["trans"] = int(case["conj_observable"] > 0), int(case["trans_observable"] > 0)
            out["partial"] = bool(case.get("_partial"))
        else:
            if not case["decided"] or not case["vecs"]:
                out["verdict"] = "tie"
                return out
            snap, L = sq_snapshot(case)
            qvector = np.array(case["vecs"], dtype=int) if case["sel"]["kind"] == "list" else default_vectors(case, L)
            q0 = qvector.copy()
            info["dtype"] = str(cond.dtype)
            res, ave = call_sq(snap, qvector, cond)
            r = compare_sq(case, res, ave, q0)
            if r:
                return bad(*r)
            if not (np.array_equal(before, cond) and np.array_equal(q0, qvector)):
                return bad("InputUnchanged", None)
            r = relations_sq(case, snap, cond, q0, res, ave)
            if r:
                return bad(*r)
        out["nontrivial"] = bool(case.get("_nontrivial"))
        return out
    except LibraryRaised as e:
        return bad(e.clause, {"error": str(e)})


def sample_of(case):
    keep = ("m", "fam", "kind", "AS", "A", "types", "pos", "wn", "H", "L", "M", "cols", "nnorm", "nA", "nG", "rel")
    s = {k: case[k] for k in keep if k in case}
    if "vecs" in case:
        s["vecs"] = case["vecs"][:4]
        s["rho_first_vector"] = case["rho"][0] if case["rho"] else []
    return s


def collect(chk, cases, stats, label="A"):
    results = common.pmap(replay_case, list(enumerate(cases)), chunksize=16)
    for case, r in zip(cases, results):
        if r["verdict"] == "ok":
            chk.ok((label, case["m"], case.get("fam"), case.get("id"), json.dumps(case["A"])[:200], json.dumps(case["pos"])[:120],
                    str(case.get("H", case.get("L"))), case.get("wn", 0), r["variant"]),
                   nontrivial=r["nontrivial"], sample=sample_of(case) if r["nontrivial"] and case.get("fam") in ("gh", "sh") else None)
            key = f"{case['m']}:{case['kind']}"
            stats["ok_by_kind"][key] = stats["ok_by_kind"].get(key, 0) + 1
            stats["conj_observable"] += r["conj"]
            stats["transposed_observable"] += r["trans"]
            stats["partial_cases"] += int(r["partial"])
            for n in r["rels"]:
                k = f"{case['m']}:{n}"
                stats["relations_between_public_calls"][k] = stats["relations_between_public_calls"].get(k, 0) + 1
        elif r["verdict"] == "tie":
            chk.tie()
        else:
            chk.violation(r["clause"], r["detail"])


# --------------------------------------------------------------------------
# direction B
# --------------------------------------------------------------------------

def _leaf(rng, cplx, vmax):
    return [rng.randint(-vmax, vmax), rng.randint(-vmax, vmax) if cplx else 0]


def gen_values(rng, N, kinds, d):
    """-> (kind, AS, A) with decimal values (unit 1/AS) in [-3, 3]"""
    kn = rng.choice(kinds)
    AS = rng.choice([1, 10, 100])
    vmax = 3 * AS
    if kn == "bool":
        A = [[rng.randint(0, 1), 0] for _ in range(N)]
        A[rng.randrange(N)] = [1, 0]
        return "bool", 1, A
    if kn == "float":
        return "float", AS, [_leaf(rng, False, vmax) for _ in range(N)]
    if kn == "complex":
        return "complex", AS, [_leaf(rng, True, vmax) for _ in range(N)]
    if kn in ("vector", "cvector"):
        nc = rng.choice([2, 3, 5])
        return "vector", AS, [[_leaf(rng, kn == "cvector", vmax) for _ in range(nc)] for _ in range(N)]
    if kn in ("svector", "scvector"):       # S(q): as many components as dimensions
        return "vector", AS, [[_leaf(rng, kn == "scvector", vmax) for _ in range(d)] for _ in range(N)]
    td = rng.choice([2, 3])
    A = []
    for _ in range(N):
        t = [[_leaf(rng, kn == "ctensor", vmax) for _ in range(td)] for _ in range(td)]
        if kn == "tensor":                  # symmetric
            for a in range(td):
                for b in range(a):
                    t[a][b] = list(t[b][a])
        A.append(t)
    return "tensor", AS, A


def gen_lattice_record(rng, d):
    """Scale: a full lattice of more than a thousand selected particles with two very coarse bins, so that one particle has
    hundreds of selected neighbours in one bin (narrow accumulators).  Decided by the lattice shortcut of the specification
    (Conditional!WHistLat, tied to the pair loop by LatticeLemma)."""
    a, S = 10, 10
    n = [11, 11, 11] if d == 3 else rng.choice([[37, 37], [35, 39]])
    wn = 23 if d == 3 else 83
    H = [[(n[i] * a if i == j else 0) for j in range(d)] for i in range(d)]
    import itertools
    pos = [[a * x for x in site] for site in itertools.product(*[range(k) for k in n])]
    rng.shuffle(pos)
    N = len(pos)
    return {"op": "gr", "H": H, "ppp": [1] * d, "S": S, "types": [1] * N, "pos": pos, "wn": wn, "sharp": 0,
            "kind": "bool", "AS": 1, "A": [[1, 0]] * N, "lat": {"n": n, "a": a}}


def gen_gr_record(rng):
    d = rng.choice([2, 3])
    S = 100 if d == 2 else 10
    lo, hi = (600, 2000) if d == 2 else (40, 120)
    H = [[0] * d for _ in range(d)]
    tri = rng.random() < 0.6
    for i in range(d):
        H[i][i] = rng.randint(lo, hi)
        if tri:
            for j in range(i):
                H[i][j] = rng.randint(-(H[j][j] // 2), H[j][j] // 2)
    lmin = min(H[i][i] for i in range(d))
    wn = rng.randint(max(1, lmin // 70), max(2, lmin // 6))
    while lmin % (2 * wn) == 0:    # int() of an inexact float quotient: not generated
        wn += 1
    K = rng.randint(1, 4)
    N = rng.randint(max(K, 5), 30)
    types = list(range(1, K + 1)) + [rng.randint(1, K) for _ in range(N - K)]
    rng.shuffle(types)
    pos = [[rng.randint(-(H[k][k] // 4), H[k][k] + H[k][k] // 4) for k in range(d)] for _ in range(N)]
    ppp = [rng.randint(0, 1) for _ in range(d)] if rng.random() < 0.4 else [1] * d
    kind, AS, A = gen_values(rng, N, ["bool", "float", "complex", "vector", "cvector", "tensor", "gtensor", "ctensor"], d)
    return {"op": "gr", "H": H, "ppp": ppp, "S": S, "types": types, "pos": pos, "wn": wn, "sharp": 0,
            "kind": kind, "AS": AS, "A": A}


def gen_sq_record(rng):
    from PyMatterSim.utils.wavevector import choosewavevector
    d = rng.choice([2, 3])
    L = [rng.randint(10, 36) for _ in range(d)]
    M = rng.choice([3, 4, 5, 6, 8, 10, 12, 25])
    K = rng.randint(1, 4)
    N = rng.randint(max(K, 3), 30)
    types = list(range(1, K + 1)) + [rng.randint(1, K) for _ in range(N - K)]
    rng.shuffle(types)
    pos = [[rng.randint(-M, 2 * M) for _ in range(d)] for _ in range(N)]
    if rng.random() < 0.5:
        nv = rng.randint(3, 12)
        vs = set()
        while len(vs) < nv:
            v = tuple(rng.randint(-3, 3) for _ in range(d))
            if any(v):
                vs.add(v)
        vecs = [list(v) for v in vs]
        rng.shuffle(vecs)
    else:           # a default set of the library (the vectors are recorded, the spec takes them as a list)
        numofq = rng.randint(3, 7) if d == 2 else rng.randint(3, 5)
        opt = rng.choice([False, False, True, "x", "y"])
        vecs = [[int(x) for x in v] for v in np.asarray(choosewavevector(d, numofq, opt)).reshape(-1, d)]
        if not vecs or len(vecs) > 40:
            vecs = [[1] + [0] * (d - 1), [0] * (d - 1) + [2]]
    kind, AS, A = gen_values(rng, N, ["bool", "float", "complex", "svector", "scvector"], d)
    return {"op": "sq", "L": L, "S": 2, "M": M, "types": types, "pos": pos, "sel": {"kind": "list", "vecs": vecs},
            "kind": kind, "AS": AS, "A": A}


def observe(rec, variant=0, shared=None):
    """Runs the real code on a record, adds the integer-projected observation; -> context with the frames.
    shared: objects of a multi-call session (snapshot, condition array, wave vectors) used instead of fresh ones."""
    ctx = {}
    try:
        if shared:
            cond, ctype = shared["cond"], shared["ctype"]
        else:
            cond, ctype = make_condition(rec, variant)
        if rec["op"] == "gr":
            snap = shared["snap"] if shared else gr_snapshot(rec)
            df = call_gr(snap, cond, ctype, rec["ppp"], rec["wn"] / rec["S"])
            r = df["r"].values.astype(float) * 2 * rec["S"] if "r" in df.columns else np.zeros(len(df))
            r2 = [int(round(x)) for x in r]
            rec["obs"] = {"rows": len(df), "ncols": len(df.columns), "hasnorm": int("gA_norm" in df.columns), "r2": r2,
                          "r_ok": int(all(abs(a - b) <= 1e-9 * (1 + abs(b)) for a, b in zip(r, r2)))}
            ctx["df"] = df
        else:
            if shared:
                snap, L, qv = shared["snap"], shared["L"], shared["qv"]
            else:
                snap, L = sq_snapshot(rec)
                qv = np.array(rec["sel"]["vecs"], dtype=int)
            res, ave = call_sq(snap, qv, cond)
            d = len(L)
            names = [f"q{k}" for k in range(d)]
            if all(n in res.columns for n in names):
                nqf = res[names].values.astype(float) * L[np.newaxis, :] / (2 * np.pi)
            else:
                nqf = np.full((len(res), d), 0.5)
            nq = np.rint(nqf).astype(int)
            rec["obs"] = {"rows": len(res), "ncols": len(res.columns), "groups": len(ave), "nq": nq.tolist(),
                          "nq_ok": int(bool(np.all(np.abs(nqf - nq) <= 1e-6))),
                          "fft": sum(1 for c in res.columns if str(c).startswith("FFT"))}
            ctx.update(res=res, ave=ave, qvector=np.array(rec["sel"]["vecs"], dtype=int))
    except LibraryRaised as e:
        ctx["raises"] = e.clause[len("raises:"):] + ": " + str(e)
        if rec["op"] == "gr":
            rec["obs"] = {"rows": -1, "ncols": 0, "hasnorm": 0, "r2": [], "r_ok": 0}
        else:
            rec["obs"] = {"rows": -1, "ncols": 0, "groups": 0, "nq": [], "nq_ok": 0, "fft": 0}
    return ctx


def _digest(*arrays):
    import hashlib
    h = hashlib.sha1()
    for a in arrays:
        a = np.ascontiguousarray(a)
        h.update(str(a.dtype).encode() + str(a.shape).encode() + a.tobytes())
    return h.hexdigest()


def gen_session(rng, sid):
    """A multi-call session: one snapshot object, two condition arrays and one wave-vector array shared by a sequence of
    conditional_gr / conditional_sq calls (with repetitions).  The same configuration is described to the spec in the
    g(r) form (scale M S) and in the S(q) form (grid coordinates)."""
    d = rng.choice([2, 3])
    S, M = 2, rng.choice([3, 4, 5, 6, 8, 10])
    L = [rng.randint(10, 30) for _ in range(d)]
    K = rng.randint(1, 3)
    N = rng.randint(max(K, 4), 14)
    types = list(range(1, K + 1)) + [rng.randint(1, K) for _ in range(N - K)]
    rng.shuffle(types)
    pos = [[rng.randint(-M, 2 * M) for _ in range(d)] for _ in range(N)]
    lmin = min(L) * M
    wn = rng.randint(max(1, lmin // 20), max(2, lmin // 4))
    while lmin % (2 * wn) == 0:
        wn += 1
    ppp = [1] * d if rng.random() < 0.7 else [rng.randint(0, 1) for _ in range(d)]
    ggeom = {"H": [[L[i] * M if i == j else 0 for j in range(d)] for i in range(d)], "ppp": ppp, "S": M * S, "types": types,
             "pos": [[p[k] * L[k] for k in range(d)] for p in pos], "wn": wn, "sharp": 0}
    vs = set()
    while len(vs) < 5:
        v = tuple(rng.randint(-2, 2) for _ in range(d))
        if any(v):
            vs.add(v)
    sgeom = {"L": L, "S": S, "M": M, "types": types, "pos": pos, "sel": {"kind": "list", "vecs": [list(v) for v in sorted(vs)]}}
    fields = [gen_values(rng, N, ["bool", "float", "complex", "svector", "scvector"], d) for _ in range(2)]
    snap, Lr = sq_snapshot(sgeom)
    qv = np.array(sgeom["sel"]["vecs"], dtype=int)
    conds = [make_condition({"kind": k, "AS": a, "A": A}, 0) for (k, a, A) in fields]
    plan = [("gr", 0), ("sq", 0), ("gr", 1), ("gr", 0), ("sq", 1), ("sq", 0), ("gr", 1)]
    rng.shuffle(plan)
    plan = plan[:rng.randint(4, 7)]

    def inputs():
        return _digest(snap.positions, snap.particle_type, snap.hmatrix, snap.boxlength, snap.boxbounds, qv, conds[0][0], conds[1][0])
    d0 = inputs()
    seen = {}
    recs, ctxs = [], []
    for op, fi in plan:
        kind, AS, A = fields[fi]
        rec = dict(ggeom if op == "gr" else sgeom, op=op, kind=kind, AS=AS, A=A)
        ctx = observe(rec, shared={"snap": snap, "L": Lr, "qv": qv, "cond": conds[fi][0], "ctype": conds[fi][1]})
        if op == "gr":
            dg = _digest(ctx["df"].to_numpy(dtype=float)) + ",".join(ctx["df"].columns) if "df" in ctx else "raised"
        else:
            dg = (_digest(ctx["res"].to_numpy(dtype=complex), ctx["ave"].to_numpy(dtype=float)) + ",".join(ctx["res"].columns)) if "res" in ctx else "raised"
        rec.update(ses=sid, key=(0 if op == "gr" else 2) + fi, dig=seen.setdefault(dg, len(seen)), sd=0 if inputs() == d0 else 1)
        recs.append(rec)
        ctxs.append(ctx)
    return recs, ctxs


def validate_records(records, timeout=1800):
    """Run TraceConditional over the records.  -> (TlcResult, reject | None, printed expectations)."""
    tmp = common.scratch_dir("verif_c13_")
    try:
        path = os.path.join(tmp, "trace.ndjson")
        with open(path, "w") as f:
            for rec in records:
                f.write(json.dumps(rec, separators=(",", ":")) + "\n")
        r = run_tlc("TraceConditional", dict(invariants=["Accepted", "TraceModel"]), workers=1, timeout=timeout,
                    env={"TRACE_FILE": path}, keep_stdout=True)
        out = r.stdout
        printed = list(r.cases)
        r.cases = []
        if r.violated == "Accepted":
            bads = common._BAD.findall(out)
            ls = common._LVAL.findall(out)
            clause = [b for b in bads if b][-1] if any(bads) else "rejected"
            idx = int(ls[-1]) - 1 if ls else -1
            r.violated = None
            r.stdout = out[-2000:]
            return r, (idx, clause), printed
        if r.violated or r.error:
            raise MachineryError(f"trace validation with TraceConditional failed:\n{(r.error or out)[-3000:]}")
        if len({p["rec"] for p in printed}) != len(records):
            raise MachineryError(f"TraceConditional consumed {len(printed)} of {len(records)} records without naming a clause")
        r.stdout = out[-1000:]
        return r, None, printed
    finally:
        shutil.rmtree(tmp, ignore_errors=True)


def validate_chunk(args):
    """One chunk of the trace, continuing after rejected records.  -> list of (global index, 'ok'|clause, printed|None), TLC results"""
    offset, recs = args
    out, tlcs = [], []
    todo, off = list(recs), offset
    rejects = 0
    while todo:
        r, rej, printed = validate_records(todo)
        tlcs.append(r)
        byrec = {}
        for p in printed:            # TLC re-evaluates actions when it rebuilds an error trace: dedupe
            byrec.setdefault(p["rec"], p)
        nacc = len(todo) if rej is None else rej[0]
        if nacc < 0 or sorted(byrec)[:nacc] != list(range(1, nacc + 1)):
            raise MachineryError(f"TraceConditional printed records {sorted(byrec)[:5]}.. but accepted {nacc}")
        for j in range(nacc):
            out.append((off + j, "ok", byrec[j + 1]))
        if rej is None:
            break
        out.append((off + nacc, rej[1], None))
        rejects += 1
        if rejects >= 4:
            for j in range(nacc + 1, len(todo)):
                out.append((off + j, "unvalidated", None))
            break
        todo = todo[nacc + 1:]
        off += nacc + 1
    return out, tlcs


def check_trace(chk, recs, ctxs, stats, nchunks=8, keep_together=0):
    """keep_together: the last that many records are sessions (history in the trace spec): one chunk of their own."""
    n = len(recs) - keep_together
    size = max(1, math.ceil(n / nchunks))
    chunks = [(i, recs[i:i + size]) for i in range(0, n, size)]
    if keep_together:
        chunks.append((n, recs[n:]))
    with cf.ThreadPoolExecutor(max_workers=min(common.JOBS, len(chunks))) as ex:
        parts = list(ex.map(validate_chunk, chunks))
    accepted = []
    for out, tlcs in parts:
        for r in tlcs:
            chk.add_tlc(r, None)
            stats["trace_tlc_runs"] += 1
        for i, verdict, printed in out:
            rec, ctx = recs[i], ctxs[i]
            info = {"dir": "B", "record": rec}
            if verdict == "unvalidated":
                chk.extra["trace_records_not_validated_after_rejections"] = chk.extra.get("trace_records_not_validated_after_rejections", 0) + 1
                continue
            if verdict != "ok":
                clause = "raises:" + ctx["raises"].split(":")[0] if "raises" in ctx else verdict
                chk.violation("trace:" + clause, {**info, **({"error": ctx["raises"]} if "raises" in ctx else {})})
                continue
            accepted.append(i)
            if rec["op"] == "gr":
                r = compare_gr(printed, ctx["df"])
            else:
                r = compare_sq(printed, ctx["res"], ctx["ave"], ctx["qvector"])
            if r:
                chk.violation("trace:" + r[0], {**info, **r[1]})
            else:
                chk.ok(("B", i, json.dumps(rec["A"])[:200], json.dumps(rec["pos"])[:100]), nontrivial=bool(printed.get("_nontrivial")))
                key = f"trace:{rec['op']}:{rec['kind']}"
                stats["ok_by_kind"][key] = stats["ok_by_kind"].get(key, 0) + 1
    return accepted


def corrupt_one_field(chk, recs):
    """Binding self-test of the trace spec: the row count of one ACCEPTED record is changed; TraceConditional must reject
    exactly that record with clause Rows."""
    if len(recs) < 3:
        return
    bad = json.loads(json.dumps(recs[:3]))
    bad[1]["obs"]["rows"] += 1
    r, rej, _ = validate_records(bad)
    chk.add_tlc(r, "TraceConditional corrupt-one-field")
    if rej is None or rej[0] != 1 or rej[1] != "Rows":
        raise MachineryError(f"corrupted trace record was not rejected at that record (got {rej})")
    chk.extra["corrupt_one_field_rejected"] = True


def corrupt_session(chk, recs):
    """The same for the history part: the result digest of a REPEATED call of an accepted session is changed; the trace spec
    must reject that record with clause RepeatedCallDiffers (its memo carries the earlier result)."""
    seen = set()
    for j, rec in enumerate(recs):
        k = (rec["ses"], rec["key"])
        if k in seen:
            first = next(i for i, r in enumerate(recs) if r["ses"] == rec["ses"])
            bad = json.loads(json.dumps(recs[first:j + 1]))
            _r0, rej0, _ = validate_records(bad)
            if rej0 is not None:          # the session is rejected as recorded (a library violation, reported by the
                seen.add(k)               # validation above): it cannot serve the corrupt-one-field self-test
                continue
            bad[-1]["dig"] += 7
            r, rej, _ = validate_records(bad)
            chk.add_tlc(r, "TraceConditional corrupt-session")
            if rej is None or rej[0] != len(bad) - 1 or rej[1] != "RepeatedCallDiffers":
                raise MachineryError(f"corrupted session record was not rejected at that record (got {rej})")
            chk.extra["corrupt_session_rejected"] = True
            return
        seen.add(k)


# --------------------------------------------------------------------------
# entry point
# --------------------------------------------------------------------------

def run(tier, replay=None):
    common.import_lib()
    chk = Check("C13", tier)
    chk.rule = ("A: TLC enumerates MC_Conditional (gl: 3 particles on a sub-lattice x 2 cells x 2 widths x EVERY assignment of "
                "boolean / real / Gaussian / vector / tensor values; gh: 12 condition kinds x {2-D,3-D} x 4 cells x masks x widths "
                "x sizes, hashed positions and values; sg: quarter-box lattice x every value assignment; sh: 7 kinds x {2-D,3-D} x "
                "boxes x M in {3,4,5,6,8} x explicit lists and default sets), checks the C13 clauses as invariants against PairHist "
                "and DensityModes, and emits exact weighted pair sums / class sums with normalisation, shell and formula terms; "
                "emitted cases are replayed into conditional_gr / conditional_sq (every column) and the reductions named by the spec "
                "are executed between public calls (gr, sq, scalar calls). B: seeded random decimal inputs (N <= 30) recorded from "
                "the real code; TraceConditional.tla decides rows / columns / bin centres / wave vectors / groups and prints the "
                "expected columns as terms. Non-trivial = some bin has non-zero reference and weighted value / some |S| > 1e-3.")
    chk.assumptions = ["float comparison at 1e-9 of values the spec gives as terms; 6e-9 for conditional_sq (rounds to 8 decimals), "
                       "6e-7 against sq(...) (rounds to 6 decimals)",
                       "bins in which a pair may or may not fall (distance exactly on a bin edge in non-dyadic scopes, on the "
                       "histogram's upper limit, triclinic half-cell ties) are not asserted (the other bins of the case are)",
                       "configurations whose L_min/(2 w) is an exact integer are skipped in decimal scopes (int() of a float quotient)",
                       "empty boolean selections and constant real fields (normalised variant 0/0) are outside the property",
                       "complex fields are also rendered as complex64 and integral real fields as int64 (variant 1)"]
    stats = {"ok_by_kind": {}, "relations_between_public_calls": {}, "conj_observable": 0, "transposed_observable": 0,
             "partial_cases": 0, "trace_tlc_runs": 0}
    chk.extra["c13"] = stats
    try:
        from PyMatterSim.static.gr import conditional_gr  # noqa
        from PyMatterSim.static.sq import conditional_sq  # noqa
    except Exception as e:
        chk.violation(f"raises:{type(e).__name__}", {"dir": "import", "error": str(e)[:300]})
        return chk.finish()

    if replay:
        data = common.load_replay(replay)
        case = data["case"]
        print("clause:", data.get("clause"))
        if case.get("dir") == "A":
            rec = dict(case["case"])
            rec["op"] = "gr" if "H" in rec else "sq"
            if rec["op"] == "sq" and rec["sel"]["kind"] != "list":
                snap, L = sq_snapshot(rec)
                rec["sel"] = {"kind": "list", "vecs": [[int(x) for x in v] for v in default_vectors(rec, L)]}
            rec = {k: v for k, v in rec.items() if k not in ("fam", "id")}
        else:
            rec = {k: v for k, v in case["record"].items() if k != "obs"}
        ctx = observe(rec, case.get("rendering_variant", 0))
        print("observation:", json.dumps(rec["obs"])[:400])
        for k in ("df", "res", "ave"):
            if k in ctx:
                print(ctx[k].to_string(max_rows=40))
        if "raises" in ctx:
            print("library raised:", ctx["raises"])
        check_trace(chk, [rec], [ctx], stats, nchunks=1)
        return chk.finish()

    # ---- direction A: model checking + emission + replay
    samp = 6 if tier == "quick" else 16
    g = run_tlc_sharded("MC_Conditional",
                        dict(constants={"Tier": tier, "Fam": "all", "SEED": common.SEED, "SAMPLE": samp, "SALT": common.SEED},
                             invariants=INVS + ["Emit"]), nshards=(8 if tier == "quick" else None))
    require_model_ok(g, "MC_Conditional")
    chk.add_tlc(g, "MC_Conditional (gl, gh, sg, sh)")
    if not g.cases:
        raise MachineryError("no cases emitted")
    fams = {}
    for case in g.cases:
        fams[case["fam"]] = fams.get(case["fam"], 0) + 1
    chk.extra["emitted_by_family"] = fams
    if set(fams) != {"gl", "gh", "sg", "sh"}:
        raise MachineryError(f"a family emitted no case: {fams}")
    cases = sorted(g.cases, key=lambda c: (c["fam"], c["id"], json.dumps(c["A"]), json.dumps(c["pos"])))
    collect(chk, cases, stats)
    chk.exhaustive = True
    if not chk.violations:
        need = ["CondGr:bool", "CondGr:float", "CondGr:complex", "CondGr:vector", "CondGr:tensor",
                "CondSq:bool", "CondSq:float", "CondSq:complex", "CondSq:vector"]
        if any(stats["ok_by_kind"].get(k, 0) == 0 for k in need) or stats["conj_observable"] == 0 or stats["transposed_observable"] == 0:
            raise MachineryError(f"scope is vacuous: {stats}")

    # ---- direction B
    rng = random.Random(common.SEED * 7919 + 13)
    nrec = 72 if tier == "quick" else 1200
    recs, ctxs = [], []
    for i in range(nrec):
        rec = gen_gr_record(rng) if i % 2 == 0 else gen_sq_record(rng)
        ctxs.append(observe(rec))
        recs.append(rec)
    for d in ((3, 2) if tier == "quick" else (3, 2, 2)):                                  # scale (see gen_lattice_record)
        rec = gen_lattice_record(rng, d)
        at = 0 if d == 3 else len(recs)             # in different chunks of the parallel trace validation
        ctxs.insert(at, observe(rec))
        recs.insert(at, rec)
    nses = 0
    for sid in range(6 if tier == "quick" else 60):       # multi-call sessions on shared objects
        r2, c2 = gen_session(rng, sid + 1)
        recs += r2
        ctxs += c2
        nses += len(r2)
    stats["session_calls"] = nses
    accepted = check_trace(chk, recs, ctxs, stats, nchunks=4 if tier == "quick" else 15, keep_together=nses)
    corrupt_one_field(chk, [recs[i] for i in accepted if recs[i]["op"] == "gr" and "ses" not in recs[i]])
    if all(i in set(accepted) for i in range(len(recs) - nses, len(recs))):
        corrupt_session(chk, recs[len(recs) - nses:])
    return chk.finish()
