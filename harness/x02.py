"""X02 — growth of the specification: the voro++ pipeline, the Voronoi-index histogram, the remaining
wave-vector generators.

Routines: neighbors/voropp_neighbors.py (get_input, cal_voro, voronowalls, indicehis) and
utils/wavevector.py (wavevector3d, wavevector2d, continuousvector; relations to choosewavevector).

(a) spec/VoroPP.tla + MC_VoroPP.tla: the pipeline as a state machine WriteInput(n) -> VoroRun(n) -> Split(n) ..
    Finish, then Read(nmax) on the two list files (Neighbors' reader).  voro++ is an ENVIRONMENT component: the
    harness puts an executable `voro++` (a small Python script) first on PATH; it logs its argv and the content
    of `dumpused` and answers the k-th invocation with the k-th table the TLC behaviour prescribes.
(b) spec/VoroHist.tla + MC_VoroHist.tla: indicehis as a counting state machine (one action per row).
(c) spec/WaveExtra.tla + MC_WaveExtra.tla: the sets / orders of the generators, one state per input.
Direction A replays TLC's behaviours / states into the public routines; direction B runs seeded random larger
inputs through the real code and lets TraceVoroPP.tla / TraceWaveExtra.tla accept or reject the recorded
invocation log, file contents, reads and histograms record by record.
Python only renders inputs, calls the API, projects tokens to integers and compares (tie groups included).
"""
import concurrent.futures as cf
import copy
import json
import multiprocessing as mp
import os
import random
import re
import shutil
import stat
import sys
import time

import numpy as np

from . import common
from .common import Check, MachineryError, require_model_ok, run_tlc_sharded, validate_trace_all

KEY_TOP50 = "indicehis:top50"

PIPE_INVS = ["InvEnvironmentInScope", "InvInputIsFrame", "InvCommandLine", "InvFramesInOrderOnce", "InvHeaders", "InvVerbatim",
             "InvWallsRemoved", "InvReadableBack", "InvTempFiles", "InvHistComposes", "InvDeterministic", "InvReadsInOrder", "Emit"]
PIPE_PROPS = ["PropInputsUnchanged", "PropFilesStable"]
HIST_INVS = ["InvAlgorithmIsDefinition", "InvEveryRowOnce", "InvFractionsSumToOne", "InvCanonicalAccepted",
             "InvCutKeepsMostFrequent", "InvRejectsCorruptions", "InvShortRowsPadded", "Emit"]
WAVE_INVS = ["InvWVCharacterisation", "InvWVMonotone", "InvWVIsBoundedChoose", "InvWVCanonicalAccepted", "InvContCharacterisation",
             "InvContSignSymmetry", "InvContPositiveIsFilter", "InvChooseIsFilterOfCont", "InvContAccepted", "Emit"]

FAKE_VORO = """#!%s -S
# stand-in for voro++ (the ENVIRONMENT of the specification): logs the invocation, answers with the prescribed table
import json, os, sys
d = os.path.dirname(os.path.abspath(__file__))
log = os.path.join(d, "voro_calls.ndjson")
n = 0
if os.path.exists(log):
    with open(log) as f:
        n = sum(1 for _ in f)
inp = sys.argv[-1] if len(sys.argv) > 1 else ""
try:
    with open(inp) as f:
        content = f.read()
except OSError:
    content = None
with open(log, "a") as f:
    f.write(json.dumps({"argv": sys.argv[1:], "cwd": os.getcwd(), "dump": content}) + "\\n")
with open(os.path.join(d, "voro_tables.json")) as f:
    tabs = json.load(f)
if n < len(tabs) and inp:
    with open(inp + ".vol", "w") as f:
        f.write(tabs[n])
"""
OUT_SUFFIX = ("neighbor", "facearea", "voroindex", "overall")


# --------------------------------------------------------------------------
# rendering (abstract -> real) and projection (real -> abstract)
# --------------------------------------------------------------------------

def g(v, scale):
    """a number the way voro++ prints it (%g)"""
    return "%g" % (v / scale)


def render_table(tab, AS):
    """the content of dumpused.vol for one table: one line per cell, four @-separated fields
    (%i %s %v %F @%i %A @%i %s %n @%i %s %f)"""
    out = []
    for cl in tab:
        cn = len(cl["nbs"])
        out.append("%d %d %s %s @%d %s @%d %d %s @%d %d %s\n" % (
            cl["id"], cn, g(cl["vol"], AS), g(cl["tot"], AS), cl["id"], " ".join(str(x) for x in cl["hist"]),
            cl["id"], cn, " ".join(str(x) for x in cl["nbs"]), cl["id"], cn, " ".join(g(a, AS) for a in cl["areas"])))
    return "".join(out)


class Proj:
    """projection of text tokens to integers in a quantum; remembers whether every token was on its grid"""

    def __init__(self):
        self.exact = 1

    def i(self, tok):
        if re.fullmatch(r"[+-]?\d+", tok):
            return int(tok)
        self.exact = 0
        try:
            return int(round(float(tok)))
        except ValueError:
            return -999999

    def q(self, tok, scale):
        try:
            v = float(tok) * scale
        except ValueError:
            self.exact = 0
            return -999999
        if not np.isfinite(v) or abs(v) > 2.0e9:
            self.exact = 0
            return -999999
        r = round(v)
        if abs(v - r) > 1e-6 * max(1.0, abs(r)):
            self.exact = 0
        return int(r)


def parse_file(path, kind, AS, pj):
    """lines of an output file -> [{h, w, t}]; kind: neighbor | facearea | voroindex | overall | hist"""
    lines = []
    with open(path) as f:
        text = f.read()
    for ln in text.split("\n")[:-1] if text.endswith("\n") else text.split("\n"):
        toks = ln.split()
        if toks and not re.fullmatch(r"[+-]?[\d.]+(e[+-]?\d+)?", toks[0], re.I):
            lines.append({"h": 1, "w": toks, "t": []})
            continue
        if kind in ("neighbor", "voroindex"):
            t = [pj.i(x) for x in toks]
        elif kind == "facearea":
            t = [pj.i(x) for x in toks[:2]] + [pj.q(x, AS) for x in toks[2:]]
        elif kind == "overall":
            t = [pj.i(x) for x in toks[:2]] + [pj.q(x, AS) for x in toks[2:]]
        else:       # hist output: four integers and a fraction in 1e-6
            t = [pj.i(x) for x in toks[:-1]] + [pj.q(toks[-1], 1000000)] if toks else []
        lines.append({"h": 0, "w": [], "t": t})
    return lines


def parse_invocation(rec, PS, pj):
    """one line of the stand-in's log -> [argv |-> [ppp, opts, bounds, input], dump |-> rows]"""
    argv = rec["argv"]
    try:
        i = argv.index("-r")
    except ValueError:
        i = len(argv)
    a = {"ppp": argv[:i], "opts": argv[i:i + 3], "bounds": [pj.q(x, PS) for x in argv[i + 3:i + 9]],
         "input": argv[i + 9] if len(argv) == i + 10 else "?"}
    rows = []
    for ln in (rec["dump"] or "").splitlines():
        toks = ln.split()
        if len(toks) != 5 or not re.fullmatch(r"\d+", toks[0]):
            rows.append([])           # not `id x y z radius` with an integer id
        else:
            rows.append([int(toks[0])] + [pj.q(x, PS) for x in toks[1:]])
    return {"argv": a, "dump": rows}


def build_snaps(c):
    from PyMatterSim.reader.reader_utils import SingleSnapshot, Snapshots
    PS = float(c["PS"])
    ss = []
    for f in range(len(c["pos"])):
        b = np.array(c["bounds"][f], dtype=float).reshape(3, 2) / PS
        L = b[:, 1] - b[:, 0]
        ss.append(SingleSnapshot(timestep=10 * f, nparticle=len(c["pos"][f]),
                                 particle_type=np.array(c["types"][f], dtype=np.int32),
                                 positions=np.array(c["pos"][f], dtype=float).reshape(-1, 3) / PS,
                                 boxlength=L, boxbounds=b, realbounds=None, hmatrix=np.diag(L)))
    return Snapshots(nsnapshots=len(ss), snapshots=ss)


def snap_state(snaps):
    return [(s.timestep, s.nparticle, s.particle_type.copy(), s.positions.copy(), s.boxlength.copy(), s.boxbounds.copy(),
             s.hmatrix.copy()) for s in snaps.snapshots]


def snap_same(a, b):
    return len(a) == len(b) and all(x[0] == y[0] and x[1] == y[1] and all(np.array_equal(p, q) for p, q in zip(x[2:], y[2:]))
                                    for x, y in zip(a, b))


# --------------------------------------------------------------------------
# one execution of cal_voro / voronowalls against the stand-in environment (always inside a forked child:
# the routines write `dumpused`, `dumpused.vol`, `temp` relative to the current directory)
# --------------------------------------------------------------------------

def run_pipeline(c, tabs, root, variant=0):
    """-> observation dict: invocations, the four files (parsed), leftover temporary files, purity, exception"""
    from PyMatterSim.neighbors import voropp_neighbors as V
    bind, cwd, outd = (os.path.join(root, x) for x in ("bin", "run", "out"))
    for d in (bind, cwd, outd):
        os.makedirs(d)
    exe = os.path.join(bind, "voro++")
    with open(exe, "w") as f:
        f.write(FAKE_VORO % sys.executable)
    os.chmod(exe, os.stat(exe).st_mode | stat.S_IXUSR | stat.S_IXGRP | stat.S_IXOTH)
    with open(os.path.join(bind, "voro_tables.json"), "w") as f:
        json.dump([render_table(t, c["AS"]) for t in tabs], f)
    relative = variant % 2 == 1
    out = "res" if relative else os.path.join(outd, "res")
    snaps = build_snaps(c)
    before = snap_state(snaps)
    radii = {a + 1: r / float(c["PS"]) for a, r in enumerate(c["radii"])}
    radii0 = dict(radii)
    ppp = " ".join(c["ppp"])
    default_radii = [r / float(c["PS"]) for r in c["radii"]] == [0.5, 0.5]       # the documented default {1: 0.5, 2: 0.5}
    obs_input = None
    try:          # get_input: the rows of every frame and its bounds, before anything is run
        pos_, bnd_ = V.get_input(snaps) if default_radii else V.get_input(snaps, radii)
        pj0 = Proj()
        obs_input = {"rows": [[[pj0.i("%d" % r[0]) if float(r[0]).is_integer() else -1] + [pj0.q(repr(float(x)), c["PS"]) for x in r[1:]]
                               for r in np.asarray(p_)] for p_ in pos_],
                     "bounds": [[pj0.q(repr(float(x)), c["PS"]) for x in np.asarray(b_).ravel()] for b_ in bnd_], "exact": pj0.exact}
    except Exception as e:
        obs_input = {"error": type(e).__name__ + ": " + str(e)[:200]}
    old_path, old_cwd = os.environ.get("PATH", ""), os.getcwd()
    os.environ["PATH"] = bind + os.pathsep + old_path
    os.chdir(cwd)
    raised = ""
    try:
        if c["kind"] == "cal":
            if c["ppp"] == ["-p"] and variant % 4 >= 2:
                V.cal_voro(snaps, radii=radii, outputfile=out)            # documented default ppp='-p'
            else:
                V.cal_voro(snaps, ppp=ppp, radii=radii, outputfile=out)
        elif default_radii:
            V.voronowalls(snaps, ppp, outputfile=out)                     # documented default radii
        else:
            V.voronowalls(snaps, ppp, radii, out)
    except BaseException as e:            # noqa: the routine converts BaseException itself
        raised = type(e).__name__ + ": " + str(e)[:200]
    finally:
        os.chdir(old_cwd)
        os.environ["PATH"] = old_path
    obs = {"raised": raised, "pure": int(snap_same(before, snap_state(snaps)) and radii == radii0), "input": obs_input}
    pj = Proj()
    log = os.path.join(bind, "voro_calls.ndjson")
    calls = [json.loads(x) for x in open(log)] if os.path.exists(log) else []
    obs["cwd_ok"] = int(all(os.path.realpath(x["cwd"]) == os.path.realpath(cwd) for x in calls))
    obs["inv"] = [parse_invocation(x, c["PS"], pj) for x in calls]
    base = os.path.join(cwd, "res") if relative else out
    obs["base"] = base
    for sfx in OUT_SUFFIX:
        p = f"{base}.{sfx}.dat"
        obs[sfx] = parse_file(p, sfx, c["AS"], pj) if os.path.exists(p) else None
    keep = {f"res.{sfx}.dat" for sfx in OUT_SUFFIX} if relative else set()
    obs["tmp"] = sorted(x for x in os.listdir(cwd) if x not in keep)
    obs["exact"] = pj.exact
    return obs


def read_back(base, which, schedule, AS):
    """read_neighbors frame by frame on ONE handle; schedule = [(n, nmax), ...] -> [(matrix, lines consumed, error)]"""
    from PyMatterSim.neighbors.read_neighbors import read_neighbors
    path = f"{base}.{'neighbor' if which == 'nb' else 'facearea'}.dat"
    with open(path) as f:
        text = f.read()
    out = []
    with open(path) as f:
        for n, nmax in schedule:
            try:
                m = read_neighbors(f, n, nmax)
                pos = f.tell()
                if which == "nb":
                    res = [[int(x) for x in row] for row in m] if m.dtype.kind == "i" else None
                else:
                    v = np.asarray(m, dtype=float).copy()
                    v[:, 1:] *= AS              # column 0 is the coordination number, the rest areas in quanta
                    r = np.rint(v)
                    ok = m.dtype.kind == "f" and bool(np.all(np.abs(v - r) <= 1e-6 * np.maximum(1.0, np.abs(r))))
                    res = [[int(x) for x in row] for row in r] if ok else None
                out.append((res, text[:pos].count("\n"), ""))
            except Exception as e:
                out.append((None, -1, type(e).__name__ + ": " + str(e)[:200]))
                break
    return out


def run_indicehis(inp, outp):
    """-> (header words, rows <<n3 n4 n5 n6 frac>>, exact, error)"""
    from PyMatterSim.neighbors import voropp_neighbors as V
    try:
        V.indicehis(inp, outputfile=outp)
    except Exception as e:
        return None, None, 0, type(e).__name__ + ": " + str(e)[:200]
    if not os.path.exists(outp):
        return None, None, 0, "no output file"
    pj = Proj()
    lines = parse_file(outp, "hist", 1, pj)
    hdr = lines[0]["w"] if lines and lines[0]["h"] == 1 else []
    rows = [ln["t"] for ln in lines[1:]] if lines and lines[0]["h"] == 1 else [ln["t"] for ln in lines]
    return hdr, rows, pj.exact, ""


def write_lines(path, lines, header_text=None):
    """render abstract voroindex lines to text, the way cal_voro writes them (trailing blank after the last token)"""
    with open(path, "w") as f:
        for ln in lines:
            if ln["h"] == 1:
                f.write((header_text or "   ".join(ln["w"])) + "\n")
            else:
                f.write(" ".join(str(x) for x in ln["t"]) + " \n")


# --------------------------------------------------------------------------
# direction A: comparison of an observation with the printed behaviour
# --------------------------------------------------------------------------

def why_lines(obs, exp, name, kind):
    """first difference between parsed and expected lines ('' when equal) - names as in TraceVoroPP!WhyLines"""
    if obs is None:
        return f"Headers:{name}:file-missing"
    if len(obs) != len(exp) or any(o["h"] != e["h"] for o, e in zip(obs, exp)):
        return f"Headers:{name}"
    for o, e in zip(obs, exp):
        if e["h"] == 1 and o["w"] != e["w"]:
            return f"Headers:text:{name}"
    for o, e in zip(obs, exp):
        if o["t"] != e["t"]:
            ot, et = o["t"], e["t"]
            if len(ot) >= 2 and len(et) >= 2 and ot[0] != et[0]:
                what = "id"
            elif name != "voroindex" and len(ot) >= 2 and ot[1] != et[1]:
                what = "cn"
            elif len(ot) != len(et):
                what = "entries"
            else:
                what = "values"
            return ("Verbatim:" if kind == "cal" else "WallsRemoved:") + name + ":" + what
    return ""


def hist_compare(hdr, rows, hist):
    """tie-group comparison of an indicehis output with the printed groups -> clause or ''"""
    if hdr != hist["header"]:
        return "HistHeader"
    groups = hist["groups"]
    nsig = sum(len(gp["sigs"]) for gp in groups)
    want = min(nsig, hist["top"])
    if any(len(r) != 5 for r in rows):
        return "RowFormat"
    if len(rows) > hist["top"]:
        return "OnlyTop50"
    if len(rows) != want:
        return "EverySignatureOnce:missing" if len(rows) < want else "EverySignatureOnce"
    k = 0
    for gp in groups:
        take = min(len(gp["sigs"]), want - k)
        if take <= 0:
            break
        seg = rows[k:k + take]
        sigs = [r[:4] for r in seg]
        if any(s not in gp["sigs"] for s in sigs):
            allsig = [s for g2 in groups for s in g2["sigs"]]
            return "DecreasingFrequency" if all(s in allsig for s in sigs) else "SignatureOfSomeRow"
        if len({tuple(s) for s in sigs}) != take:
            return "EverySignatureOnce"
        if any(r[4] not in gp["frac"] for r in seg):
            return "FractionOfAllRows"
        k += take
    return ""


def replay_pipe(case, root, variant):
    """-> list of (clause, info, finding_key); [] = conforming"""
    c = case["c"]
    brief = {"m": "pipe", "kind": c["kind"], "ppp": c["ppp"], "N": [len(p) for p in c["pos"]], "variant": variant}
    out = []
    obs = run_pipeline(c, case["tabs"], root, variant)
    if obs["raised"]:
        return [("raises:" + obs["raised"].split(":")[0], dict(brief, error=obs["raised"], tabs=case["tabs"]), None)]
    # get_input: position[f] = the rows of frame f, bounds[f] = its box bounds
    gi = obs["input"]
    if "error" in gi:
        out.append(("get_input:raises:" + gi["error"].split(":")[0], dict(brief, error=gi["error"]), None))
    elif gi["rows"] != [e["dump"] for e in case["inv"]] or not gi["exact"]:
        out.append(("get_input:InputIsFrame", dict(brief, observed=gi["rows"], expected=[e["dump"] for e in case["inv"]]), None))
    elif gi["bounds"] != [e["argv"]["bounds"] for e in case["inv"]]:
        out.append(("get_input:BoundsOfFrame", dict(brief, observed=gi["bounds"]), None))
    # the environment's view: k-th invocation got the rows / bounds of frame k
    if len(obs["inv"]) != len(case["inv"]):
        out.append(("FramesInOrderOnce", dict(brief, invocations=len(obs["inv"]), frames=len(case["inv"])), None))
    for k, (o, e) in enumerate(zip(obs["inv"], case["inv"])):
        if o["dump"] != e["dump"]:
            other = [j for j, e2 in enumerate(case["inv"]) if e2["dump"] == o["dump"]]
            out.append(("InputIsFrame" + (":PositionsOfAnotherFrame" if other else ""),
                        dict(brief, invocation=k + 1, observed=o["dump"], expected=e["dump"]), None))
            break
        if o["argv"]["ppp"] != e["argv"]["ppp"]:
            out.append(("CommandLine:PeriodicityFlagPassedThrough", dict(brief, invocation=k + 1, observed=o["argv"]), None))
            break
        if o["argv"]["bounds"] != e["argv"]["bounds"]:
            out.append(("CommandLine:BoundsOfFrame", dict(brief, invocation=k + 1, observed=o["argv"], expected=e["argv"]), None))
            break
        if o["argv"]["opts"] != e["argv"]["opts"] or o["argv"]["input"] != e["argv"]["input"]:
            out.append(("CommandLine:Options", dict(brief, invocation=k + 1, observed=o["argv"], expected=e["argv"]), None))
            break
    if not obs["cwd_ok"]:
        out.append(("CommandLine:WorkingDirectory", brief, None))
    if not obs["exact"]:
        out.append(("WrittenPrecision", brief, None))
    for sfx, key in zip(OUT_SUFFIX, ("nb", "fa", "vi", "ov")):
        w = why_lines(obs[sfx], case[key], sfx, c["kind"])
        if w:
            out.append((w, dict(brief, file=sfx, observed=obs[sfx], expected=case[key], tabs=case["tabs"]), None))
    if obs["tmp"] != case["tmp"]:
        out.append(("TempFilesRemoved", dict(brief, left=obs["tmp"]), None))
    if not obs["pure"]:
        out.append(("InputsUnchanged", brief, None))
    if out:
        return out
    # hand-off to read_neighbors: the behaviour's reads, frame by frame on one handle per file
    sched = [(r["n"], r["nmax"]) for r in case["reads"]]
    for which in ("nb", "fa"):
        got = read_back(obs["base"], which, sched, c["AS"])
        for k, r in enumerate(case["reads"]):
            if k >= len(got) or got[k][2]:
                err = got[min(k, len(got) - 1)][2] if got else "no result"
                out.append(("ReadableBack:raises:" + err.split(":")[0], dict(brief, which=which, read=k + 1, error=err), None))
                break
            res, tell, _ = got[k]
            if res != r[which]:
                out.append(("ReadableBack:ZeroBasedIdsAreasTruncation",
                            dict(brief, which=which, read=k + 1, nmax=r["nmax"], observed=res, expected=r[which]), None))
                break
            if tell != r["tell"]:
                out.append(("ReadableBack:Cursor", dict(brief, which=which, read=k + 1, observed=tell, expected=r["tell"]), None))
                break
    # composition with indicehis: the produced voroindex file is its input
    hdr, rows, exact, err = run_indicehis(obs["base"] + ".voroindex.dat", os.path.join(root, "hist.dat"))
    if err:
        out.append(("hist:raises:" + err.split(":")[0], dict(brief, error=err), None))
    else:
        w = hist_compare(hdr, rows, case["hist"])
        if w or not exact:
            out.append(("HistComposes:" + (w or "WrittenPrecision"), dict(brief, observed=rows, expected=case["hist"]), None))
    return out


def replay_hist(case, root):
    brief = {"m": "hist", "rows": [ln["t"] for ln in case["lines"][1:]]}
    inp = os.path.join(root, "in.voroindex.dat")
    out = []
    for variant in (0, 1):
        # the header text is free (the routine skips one line); rows with / without the trailing blank
        with open(inp, "w") as f:
            for ln in case["lines"]:
                if ln["h"] == 1:
                    f.write("id   voro_index   0_to_7_faces\n")
                else:
                    f.write(" ".join(str(x) for x in ln["t"]) + (" \n" if variant == 0 else "\n"))
        before = open(inp).read()
        hdr, rows, exact, err = run_indicehis(inp, os.path.join(root, f"hist{variant}.dat"))
        if err:
            return [("hist:raises:" + err.split(":")[0], dict(brief, error=err), None)]
        if open(inp).read() != before:
            return [("hist:InputsUnchanged", brief, None)]
        w = hist_compare(hdr, rows, case["hist"])
        if w or not exact:
            key = KEY_TOP50 if w.startswith("OnlyTop50") else None
            return [("hist:" + (w or "WrittenPrecision"), dict(brief, observed=rows, expected=case["hist"]), key)]
    return out


def replay_wave(case, W):
    d = case["d"]
    if case["m"] == "wv":
        n = case["n"]
        brief = {"m": "wv", "d": d, "numofq": n}
        fn = W.wavevector2d if d == 2 else W.wavevector3d
        try:
            a = np.asarray(fn(n))
            b = np.asarray(fn(numofq=n))
        except Exception as e:
            return [("wv:raises:" + type(e).__name__, dict(brief, error=str(e)), None)]
        if a.ndim != 2 or a.shape[1] != d + 1 or not np.array_equal(a, b):
            return [("wv:RowFormat", dict(brief, shape=list(a.shape)), None)]
        if a.size and not np.all(a == np.rint(a)):
            return [("wv:RowFormat", dict(brief, note="non-integer entries"), None)]
        rows = [[int(x) for x in r] for r in a]
        if len(rows) != case["count"]:
            return [("wv:AllIntegerNormVectorsPresent", dict(brief, observed=len(rows), expected=case["count"], rows=rows[:40]), None)]
        k = 0
        for gp in case["groups"]:       # tie-group comparison: groups in order, any order inside a group
            seg = rows[k:k + len(gp["rows"])]
            if sorted(seg) != sorted(gp["rows"]):
                allrows = sorted(r for g2 in case["groups"] for r in g2["rows"])
                clause = "wv:SortedByNorm" if sorted(rows) == allrows else "wv:VectorsOfTheRange"
                return [(clause, dict(brief, norm2=gp["norm2"], observed=seg, expected=gp["rows"]), None)]
            k += len(seg)
        # relation on the code's own outputs: the vectors of choosewavevector(d, 2 n, True) of norm < n
        ch = [[int(x) for x in r] for r in np.asarray(W.choosewavevector(d, 2 * n, True)).reshape(-1, d)]
        if any(i > len(ch) for i in case["bounded"]):
            return [("wv:WVIsBoundedChoose", dict(brief, note="choosewavevector shorter than specified"), None)]
        sel = sorted(ch[i - 1] for i in case["bounded"])
        if sel != sorted(r[1:] for r in rows):
            return [("wv:WVIsBoundedChoose", dict(brief, choose=sel[:30], wv=sorted(r[1:] for r in rows)[:30]), None)]
        return []
    q, pos = case["q"], case["pos"]
    brief = {"m": "cont", "d": d, "numofq": q, "onlypositive": pos}
    try:
        a = np.asarray(W.continuousvector(d, q, pos))
        b = np.asarray(W.continuousvector(ndim=d, numofq=q, onlypositive=pos))
    except Exception as e:
        return [("cont:raises:" + type(e).__name__, dict(brief, error=str(e)), None)]
    if a.ndim != 2 or a.shape[1] != d or not np.array_equal(a, b) or a.dtype.kind not in "iu":
        return [("cont:RowFormat", dict(brief, shape=list(a.shape), dtype=str(a.dtype)), None)]
    rows = [[int(x) for x in r] for r in a]
    if rows != case["vecs"]:
        clause = "cont:LoopOrder" if sorted(rows) == sorted(case["vecs"]) else "cont:AllVectorsOfTheRange"
        return [(clause, dict(brief, observed=rows[:40], expected=case["vecs"][:40]), None)]
    if q == 100 or pos is False:        # documented defaults: numofq = 100, onlypositive = False
        if pos is False and not np.array_equal(np.asarray(W.continuousvector(d, q)), a):
            return [("cont:DefaultOnlyPositiveFalse", brief, None)]
    ch = [[int(x) for x in r] for r in np.asarray(W.choosewavevector(d, q, pos)).reshape(-1, d)]
    if ch != [rows[i - 1] for i in case["square"]]:
        return [("cont:ChooseIsFilterOfCont", dict(brief, choose=ch[:30]), None)]
    return []


_W = {}


def _worker(job):
    """fork-pool worker: one case in a private scratch directory -> (kind, key, verdicts, sample)"""
    kind, idx, case = job
    root = os.path.join(_W["tmp"], f"{kind}{idx}_{os.getpid()}")
    os.makedirs(root)
    try:
        if kind == "pipe":
            v = replay_pipe(case, root, idx)
            c = case["c"]
            nontrivial = any(any(x < 0 for x in cl["nbs"]) for t in case["tabs"] for cl in t) or c["kind"] == "cal"
            sample = {"m": "pipe", "kind": c["kind"], "ppp": c["ppp"], "tabs": case["tabs"][:1], "nb": case["nb"][:4]}
        elif kind == "hist":
            v = replay_hist(case, root)
            nontrivial = len(case["hist"]["groups"]) > 1
            sample = {"m": "hist", "rows": [ln["t"] for ln in case["lines"][1:]], "groups": case["hist"]["groups"]}
        else:
            v = replay_wave(case, _W["wave"])
            nontrivial = bool(case.get("count") or case.get("vecs"))
            sample = {k: case[k] for k in case if k not in ("groups", "vecs", "bounded", "square")}
        for clause, info, key in v:
            info["full"] = case
        return kind, idx, v, nontrivial, sample
    finally:
        shutil.rmtree(root, ignore_errors=True)


def fork_map(fn, jobs_, nproc=None):
    """always a fork pool (the pipeline routines need their own working directory: chdir only in children)"""
    jobs_ = list(jobs_)
    if not jobs_:
        return []
    ctx = mp.get_context("fork")
    with ctx.Pool(min(nproc or common.JOBS, max(1, len(jobs_)))) as pool:
        return pool.map(fn, jobs_, chunksize=max(1, min(16, len(jobs_) // (4 * common.JOBS) or 1)))


# --------------------------------------------------------------------------
# direction B: seeded random larger cases, recorded and handed to the trace specifications
# --------------------------------------------------------------------------



def rand_area(rng):
    e = rng.randint(3, 6)
    m = rng.randint(1, 999999)
    return m * 10 ** (6 - e)         # m / 10^e in quanta of 1e-6: at most 6 significant digits, below 1000


def rand_table(rng, n, walls, AS):
    order = list(range(1, n + 1))
    rng.shuffle(order)
    tab = []
    for i in order:
        cn = rng.choice([1, 2, 3, 5, 9, 10, 12, 16]) if rng.random() < 0.5 else rng.randint(1, 16)
        allw = walls and rng.random() < 0.08
        nbs = [(-rng.randint(1, 6)) if (allw or (walls and rng.random() < 0.3)) else rng.randint(1, n) for _ in range(cn)]
        areas = [rand_area(rng) if rng.random() < 0.8 else rng.randint(1, 99) * 10 ** rng.randint(0, 5) for _ in range(cn)]
        areas = [min(a, 99000000) for a in areas]
        vol = rng.randint(1, 999999) * 10 ** rng.randint(0, 3)
        tot = int(round(float("%g" % (sum(areas) / AS)) * AS))       # voro++ prints the sum with 6 digits
        hist = [0, 0, 0] + [rng.randint(0, 12) for _ in range(rng.randint(0, 12))]
        if rng.random() < 0.1:
            hist = hist[:rng.randint(1, 3)]
        tab.append({"id": i, "nbs": nbs, "areas": areas, "vol": vol, "tot": tot, "hist": hist})
    return tab


def rand_call(rng, big):
    kind = rng.choice(["cal", "walls"])
    PS, AS = 1000, 1000000
    F = rng.randint(1, 4)
    n0 = rng.choice([1, 2, 7, 12, 25, 40]) if rng.random() < 0.6 else rng.randint(1, 40)
    Ns = [n0] * F if rng.random() < 0.8 else [rng.randint(1, 40) for _ in range(F)]
    K = rng.choice([2, 2, 3])
    if kind == "cal":
        ppp = ["-p"] if rng.random() < 0.8 else rng.choice([["-px"], ["-px", "-py"]])
    else:
        ppp = rng.choice([[], ["-px"], ["-py"], ["-pz"], ["-px", "-pz"]])
    walls = kind == "walls" or ppp != ["-p"]
    c = {"kind": kind, "ppp": ppp, "PS": PS, "AS": AS, "radii": [rng.randint(100, 2500) for _ in range(K)],
         "types": [], "pos": [], "bounds": []}
    for f in range(F):
        lo = [rng.randint(-20000, 5000) for _ in range(3)]
        hi = [lo[k] + rng.randint(3000, 40000) for k in range(3)]
        c["bounds"].append([lo[0], hi[0], lo[1], hi[1], lo[2], hi[2]])
        c["pos"].append([[rng.randint(lo[k], hi[k]) for k in range(3)] for _ in range(Ns[f])])
        ty = [rng.randint(1, K) for _ in range(Ns[f])]
        c["types"].append(ty)
    tabs = [rand_table(rng, Ns[f], walls, AS) for f in range(F)]
    return c, tabs


def rand_hist_lines(rng, nrows, nsig):
    """voroindex lines with about nsig distinct signatures"""
    pool = []
    while len(pool) < nsig:
        s = [rng.randint(0, 4), rng.randint(0, 12), rng.randint(0, 9), rng.randint(0, 6)]
        if s not in pool:
            pool.append(s)
    lines = [{"h": 1, "w": ["id", "voro_index", "0_to_7_faces"], "t": []}]
    weights = [1.0 / (1 + k // 3) for k in range(len(pool))]
    for i in range(nrows):
        s = rng.choices(pool, weights)[0] if i >= len(pool) or rng.random() < 0.3 else pool[i]
        tail = [rng.randint(0, 3) for _ in range(rng.randint(0, 8))]
        t = [i + 1, rng.randint(0, 1), 0, rng.randint(0, 2)] + list(s) + tail
        while len(t) > 2 and t[-1] == 0 and rng.random() < 0.7:     # voro++ stops at the largest face order
            t = t[:-1]
        lines.append({"h": 0, "w": [], "t": t})
    return lines


def _session(job):
    """one direction-B session in a forked child -> list of trace records"""
    idx, c, tabs, seed = job
    rng = random.Random(seed)
    root = os.path.join(_W["tmp"], f"B{idx}_{os.getpid()}")
    os.makedirs(root)
    try:
        obs = run_pipeline(c, tabs, root, variant=idx)
        recs = [{"op": "begin", "c": c, "sid": idx}]
        for k, inv in enumerate(obs["inv"]):
            recs.append({"op": "run", "argv": inv["argv"], "dump": inv["dump"], "tab": tabs[k] if k < len(tabs) else tabs[-1],
                         "sid": idx})
        empty = [{"h": 1, "w": ["missing"], "t": []}]
        recs.append({"op": "files", "nb": obs["neighbor"] or empty, "fa": obs["facearea"] or empty, "vi": obs["voroindex"] or empty,
                     "ov": obs["overall"] or empty, "tmp": obs["tmp"], "pure": obs["pure"], "exact": obs["exact"],
                     "raised": obs["raised"].split(":")[0], "error": obs["raised"], "sid": idx})
        if obs["raised"] or not all(obs[s] for s in OUT_SUFFIX):
            return recs
        F = len(c["pos"])
        scheds = {w: [(len(c["pos"][f]), rng.choice([1, 2, 5, 12, 200])) for f in range(F)] for w in ("nb", "fa")}
        got = {w: read_back(obs["base"], w, scheds[w], c["AS"]) for w in ("nb", "fa")}
        order = [(w, k) for w in ("nb", "fa") for k in range(F)]
        order.sort(key=lambda x: (x[1], rng.random()))       # interleave the two handles, each in frame order
        for w, k in order:
            if k >= len(got[w]):
                continue
            res, tell, err = got[w][k]
            recs.append({"op": "read", "which": w, "nmax": scheds[w][k][1], "res": res if res is not None else [[-7]],
                         "tell": tell, "raised": err.split(":")[0], "error": err, "sid": idx})
        hdr, rows, exact, err = run_indicehis(obs["base"] + ".voroindex.dat", os.path.join(root, "hist.dat"))
        recs.append({"op": "hist", "src": "vi", "lines": [], "header": hdr or [], "out": rows or [], "raised": err.split(":")[0],
                     "error": err, "sid": idx, "exact": exact})
        return recs
    finally:
        shutil.rmtree(root, ignore_errors=True)


def _hist_session(job):
    idx, lines = job
    root = os.path.join(_W["tmp"], f"H{idx}_{os.getpid()}")
    os.makedirs(root)
    try:
        inp = os.path.join(root, "x.voroindex.dat")
        write_lines(inp, lines)
        hdr, rows, exact, err = run_indicehis(inp, os.path.join(root, "hist.dat"))
        return [{"op": "hist", "src": "lines", "lines": lines, "header": hdr or [], "out": rows or [], "raised": err.split(":")[0],
                 "error": err, "sid": 1000 + idx, "exact": exact}]
    finally:
        shutil.rmtree(root, ignore_errors=True)


def gen_wave_trace(rng, W, big):
    recs = []

    def rows(a):
        return [[int(x) for x in r] for r in np.asarray(a)]

    for d, choices, k in ((2, range(17, 61), 4 if big else 2), (3, range(9, 25), 3 if big else 2)):
        for n in rng.sample(list(choices), k):
            wv = rows((W.wavevector2d if d == 2 else W.wavevector3d)(n))
            recs.append({"op": "wv", "d": d, "n": n, "rows": wv})
            recs.append({"op": "bounded", "d": d, "n": n, "wv": wv, "choose": rows(W.choosewavevector(d, 2 * n, True))})
    for d, choices, k in ((2, range(12, 41), 4 if big else 2), (3, range(8, 17), 3 if big else 2)):
        for q in rng.sample(list(choices), k):
            for pos in ((0, 1) if big else (rng.randint(0, 1),)):
                cont = rows(W.continuousvector(d, q, bool(pos)))
                recs.append({"op": "cont", "d": d, "q": q, "pos": pos, "rows": cont})
                recs.append({"op": "choose", "d": d, "q": q, "pos": pos, "cont": cont, "rows": rows(W.choosewavevector(d, q, bool(pos)))})
    return recs


def corrupted_sessions(precs):
    """corrupt-one-field self-test of the trace specification (DESIGN 8): copies of the smallest complete recorded
    session with ONE field changed each; every copy must be rejected at that record with the named clause"""
    by = {}
    for r in precs:
        by.setdefault(r["sid"], []).append(r)
    full = [rs for rs in by.values() if [r["op"] for r in rs].count("read") >= 2 and rs[-1]["op"] == "hist"
            and not any(r.get("raised") for r in rs)
            and any(len(ln["t"]) > 2 for r in rs if r["op"] == "files" for ln in r["nb"])]
    if not full:
        return [], []
    base = min(full, key=lambda rs: len(json.dumps(rs)))
    out, expect = copy.deepcopy(base), []       # the unmodified session first: when IT is rejected the test says nothing

    def add(mutate, clause):
        rs = copy.deepcopy(base)
        k = mutate(rs)
        expect.append((len(out) + k, clause))
        out.extend(rs)

    def m_nb(rs):
        k = next(i for i, r in enumerate(rs) if r["op"] == "files")
        ln = next(x for x in rs[k]["nb"] if len(x["t"]) > 2)
        ln["t"][2] += 1
        return k

    def m_tell(rs):
        k = next(i for i, r in enumerate(rs) if r["op"] == "read")
        rs[k]["tell"] += 1
        return k

    def m_radius(rs):
        k = next(i for i, r in enumerate(rs) if r["op"] == "run")
        rs[k]["dump"][0][4] += 1
        return k

    add(m_nb, ":neighbor:values")
    add(m_tell, "ReadableBack:Cursor")
    add(m_radius, "InputIsFrame:RadiusOfSpecies")
    return out, expect


# --------------------------------------------------------------------------
# driver
# --------------------------------------------------------------------------

def tlc_all(tier):
    big = tier == "thorough"
    jobs_ = [("MC_VoroPP cells", "MC_VoroPP", {"Tier": tier, "Mode": "cells", "Gen": True}, PIPE_INVS, PIPE_PROPS, 12 if big else 4),
             ("MC_VoroPP frames", "MC_VoroPP", {"Tier": tier, "Mode": "frames", "Gen": True}, PIPE_INVS, PIPE_PROPS, 8 if big else 4),
             ("MC_VoroHist", "MC_VoroHist", {"Tier": tier, "Gen": True}, HIST_INVS, ["PropRowsUnchanged"], 6 if big else 2),
             ("MC_WaveExtra", "MC_WaveExtra", {"Tier": tier}, WAVE_INVS, [], 4 if big else 2)]

    def one(j):
        label, mod, consts, invs, props, nsh = j
        return label, run_tlc_sharded(mod, dict(constants=consts, invariants=invs, properties=props), nshards=nsh, timeout=3000)

    out = {}
    with cf.ThreadPoolExecutor(max_workers=len(jobs_)) as ex:
        for label, r in ex.map(one, jobs_):
            require_model_ok(r, label)
            if not r.cases:
                raise MachineryError(f"{label}: no cases emitted")
            out[label] = r
    return out


def pick_quick(cases, k, salt):
    """seeded sample plus sentinels: the first behaviour of every (kind, ppp, N) class, behaviours with a cell of walls
    only, with a wall first / last"""
    sent, seen = [], set()
    for i, c in enumerate(cases):
        cc = c["c"]
        cls = (cc["kind"], tuple(cc["ppp"]), tuple(len(p) for p in cc["pos"]))
        flags = set()
        for t in c["tabs"]:
            for cl in t:
                nb = cl["nbs"]
                if all(x < 0 for x in nb):
                    flags.add("allwalls")
                if nb[0] < 0 < nb[-1]:
                    flags.add("first")
                if nb[-1] < 0 < nb[0]:
                    flags.add("last")
        for fl in flags | {"any"}:
            if (cls, fl) not in seen:
                seen.add((cls, fl))
                sent.append(i)
    idx = set(sent)
    rng = random.Random(common.SEED * 1000003 + salt)
    rest = [i for i in range(len(cases)) if i not in idx]
    idx.update(rng.sample(rest, min(k, len(rest))))
    return [(i, cases[i]) for i in sorted(idx)]


def run(tier, replay=None):
    common.import_lib()
    from PyMatterSim.utils import wavevector as W
    chk = Check("X02", tier)
    chk.rule = ("A: the voro++ pipeline as a state machine (MC_VoroPP: WriteInput, VoroRun = environment choosing any cell table of "
                "the scope, Split, Finish, Read), indicehis as a counting machine (MC_VoroHist), the wave-vector generators one "
                "state per input (MC_WaveExtra); clauses as invariants; every final state printed and replayed into cal_voro / "
                "voronowalls (stand-in voro++ on PATH answering with the behaviour's tables), read_neighbors, indicehis, "
                "wavevector2d/3d, continuousvector. B: seeded random larger calls (N <= 40, cn <= 16, 1-4 frames) recorded as "
                "invocation log + file contents + reads + histogram and accepted / rejected record by record by TraceVoroPP.tla; "
                "wave-vector outputs for larger numofq by TraceWaveExtra.tla. distinct = replayed behaviours whose tables contain "
                "wall faces (or cal_voro), histograms with more than one count, non-empty vector sets.")
    chk.assumptions = ["voro++ itself is an environment component: any well-formed table (every particle once, cn = number of "
                       "neighbour ids = number of areas >= 1, at most 15 face orders) is admitted, the tessellation is not modelled",
                       "3-D snapshots only (voro++ is three-dimensional); real tokens are compared on the grid of the written "
                       "precision (areas / volumes with at most 6 significant digits, as voro++ prints them)",
                       "ties (equal counts in indicehis, equal norms in wavevectorNd) are compared as tie groups, never as an order",
                       "reference: docstrings, docs/neighbors.md IV, docs/utils.md IV (no listed property covers these routines)"]
    tmp = common.scratch_dir("verif_x02_")
    _W["tmp"], _W["wave"] = tmp, W
    try:
        if replay:
            stored = common.load_replay(replay)
            info = stored.get("case", {})
            full = info.get("full") if isinstance(info, dict) else None
            print(json.dumps({"clause": stored.get("clause"), "case": {k: v for k, v in info.items() if k != "full"}}, indent=1)[:6000])
            if not full and isinstance(info, dict) and info.get("input_lines"):
                rec = fork_map(_hist_session, [(0, info["input_lines"])], nproc=1)[0][0]
                print("observed output rows:", len(rec["out"]), json.dumps(rec["out"][:5]), "...")
                res, rej = validate_trace_all("TraceVoroPP", [{k: v for k, v in rec.items() if k not in ("error", "sid")}])
                print("replayed:", ("VIOLATION " + rej[0][1]) if rej else "ok (accepted by TraceVoroPP on this tree)")
                return 1 if rej else 0
            if not full:
                print("replay: a trace record (direction B); re-run the check with the same VERIF_SEED to reproduce")
                return 0
            kind = {"pipe": "pipe", "hist": "hist"}.get(full["m"], "wave")
            _, _, v, _, _ = fork_map(_worker, [(kind, info.get("variant", 0), full)], nproc=1)[0]
            print("replayed:", ("VIOLATION " + v[0][0]) if v else "ok (no violation on this tree)")
            return 1 if v else 0
        big = tier == "thorough"
        T0 = time.time()
        phases = {}
        runs = tlc_all(tier)
        phases["tlc_models"] = round(time.time() - T0, 1)
        for label, r in runs.items():
            chk.add_tlc(r, label)
        cells, frames = runs["MC_VoroPP cells"].cases, runs["MC_VoroPP frames"].cases
        hist, wave = runs["MC_VoroHist"].cases, runs["MC_WaveExtra"].cases
        chk.extra["behaviours"] = {"pipe_cells": len(cells), "pipe_frames": len(frames), "hist": len(hist), "wave": len(wave)}
        if big:
            pc = list(enumerate(cells))
            pf = list(enumerate(frames))
        else:
            pc = pick_quick(cells, 900, 1)
            pf = pick_quick(frames, 500, 2)
        jobs_ = [("pipe", i, c) for i, c in pc] + [("pipe", 100000 + i, c) for i, c in pf] \
            + [("hist", i, c) for i, c in enumerate(hist)] + [("wave", i, c) for i, c in enumerate(wave)]
        random.Random(common.SEED * 9176 + 3).shuffle(jobs_)
        T1 = time.time()
        for kind, idx, v, nontrivial, sample in fork_map(_worker, jobs_):
            if v:
                for clause, info, key in v:
                    info["variant"] = idx
                    chk.violation(kind + ":" + clause if kind == "pipe" else clause, info, finding_key=key)
            else:
                chk.ok((kind, idx), nontrivial=nontrivial,
                       sample=sample if not any(s.get("m") == sample.get("m") for s in chk.samples) else None)
        chk.exhaustive = big
        chk.extra["replayed_A"] = {"pipe_cells": len(pc), "pipe_frames": len(pf), "hist": len(hist), "wave": len(wave)}
        phases["replay_A"] = round(time.time() - T1, 1)
        # ---- direction B
        T2 = time.time()
        rng = random.Random(common.SEED * 7919 + 202)
        nsess = 60 if big else 10
        sess = []
        for i in range(nsess):
            c, tabs = rand_call(rng, big)
            sess.append((i, c, tabs, rng.randrange(1 << 30)))
        hl = [rand_hist_lines(rng, rng.randint(1, 160), rng.choice([1, 3, 8, 20, 45, 50, 51, 70])) for _ in range(30 if big else 6)]
        hl.append(rand_hist_lines(random.Random(5), 150, 64))         # sentinel: more than 50 distinct signatures
        precs = [r for rs in fork_map(_session, sess) for r in rs]
        hrecs = [r for rs in fork_map(_hist_session, list(enumerate(hl))) for r in rs]
        wrecs = gen_wave_trace(rng, W, big)
        phases["gen_B"] = round(time.time() - T2, 1)
        T3 = time.time()
        strip = lambda rs: [{k: v for k, v in r.items() if k not in ("error", "sid")} for r in rs]   # noqa: E731
        with cf.ThreadPoolExecutor(max_workers=4) as ex:
            fp = ex.submit(validate_trace_all, "TraceVoroPP", strip(precs), None, 3000, 10, lambda rec: rec["op"] == "begin")
            fh = ex.submit(validate_trace_all, "TraceVoroPP", strip(hrecs), None, 3000, 10, lambda rec: True)
            fw = ex.submit(validate_trace_all, "TraceWaveExtra", wrecs, None, 3000, 10, lambda rec: True)
            crecs, cexpect = corrupted_sessions(precs)
            fc = ex.submit(validate_trace_all, "TraceVoroPP", strip(crecs), None, 3000, 10, lambda rec: rec["op"] == "begin") \
                if crecs else None
            (pres, prej), (hres, hrej), (wres, wrej) = fp.result(), fh.result(), fw.result()
            if fc is not None:
                cres, crej = fc.result()
                if any(i < len(crecs) // 4 for i, _ in crej):       # the unmodified copy (first quarter) is rejected
                    chk.extra["trace_selftest"] = "skipped: the recorded session itself is rejected"
                elif len(crej) != len(cexpect) or any(i != j or not cl.endswith(want) for (i, cl), (j, want) in zip(crej, cexpect)):
                    raise MachineryError(f"TraceVoroPP corrupt-one-field self-test: rejected {crej}, expected {cexpect}")
                else:
                    chk.extra["trace_selftest"] = [f"record {i}: {cl}" for i, cl in crej]
                chk.add_tlc(cres, "TraceVoroPP corrupt-one-field")
        phases["trace_tlc"] = round(time.time() - T3, 1)
        chk.extra["phase_s"] = phases
        chk.add_tlc(pres, "TraceVoroPP sessions")
        chk.add_tlc(hres, "TraceVoroPP histograms")
        chk.add_tlc(wres, "TraceWaveExtra")
        for recs, rej, label in ((precs, prej, "trace:pipe"), (hrecs, hrej, "trace:hist"), (wrecs, wrej, "trace:wave")):
            bad = dict(rej)
            skip_sid = set()
            for i, rec in enumerate(recs):
                if i in bad:
                    clause = bad[i]
                    brief = {k: (v if len(json.dumps(v)) < 1500 else json.dumps(v)[:1500] + "...") for k, v in rec.items()}
                    if rec["op"] in ("run", "files", "read") and "sid" in rec:
                        brief["call"] = next(({k: v for k, v in r["c"].items() if k in ("kind", "ppp", "radii")}
                                              for r in recs if r.get("sid") == rec["sid"] and r["op"] == "begin"), None)
                    if label == "trace:hist":
                        brief["input_lines"] = rec["lines"]          # complete input: --replay re-runs it
                    key = KEY_TOP50 if clause.startswith("OnlyTop50") else None
                    chk.violation(f"{label}:{rec['op']}:{clause}", brief, finding_key=key)
                    skip_sid.add(rec.get("sid"))
                elif rec.get("sid") in skip_sid and label == "trace:pipe":
                    continue            # the rest of a rejected session is not judged (its state is lost)
                else:
                    nontrivial = rec["op"] not in ("begin",)
                    chk.ok((label, i), nontrivial=nontrivial)
        chk.extra["trace_records"] = {"pipe": len(precs), "hist": len(hrecs), "wave": len(wrecs), "sessions": nsess}
        if precs:
            chk.samples.append({"trace_record": {k: (v if len(json.dumps(v)) < 400 else "...") for k, v in precs[1].items()}})
        return chk.finish()
    finally:
        shutil.rmtree(tmp, ignore_errors=True)
