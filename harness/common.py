"""Shared machinery of the pymattersim verification harness.

* locating and importing the library from PYMATTERSIM_SRC (default /repo)
* running TLC (sharded), parsing emitted cases and statistics
* verdict collection, known findings, replay files, evidence writing
"""
from __future__ import annotations

import concurrent.futures as cf
import hashlib
import json
import os
import re
import shutil
import subprocess
import sys
import tempfile
import time

VERIF = os.path.dirname(os.path.dirname(os.path.abspath(__file__)))
SPEC = os.path.join(VERIF, "spec")
OUT = os.environ.get("VERIF_OUT", VERIF)     # evidence/ and replays/ go here (self-test redirects it)
SRC = os.environ.get("PYMATTERSIM_SRC", "/repo")
SEED = int(os.environ.get("VERIF_SEED", "0") or 0)
JOBS = int(os.environ.get("VERIF_JOBS", "16") or 16)
TLC_JAR = "/opt/veriftools/tla/tla2tools.jar:/opt/veriftools/tla/CommunityModules-deps.jar"

os.environ.setdefault("PYTHONHASHSEED", "0")
os.environ.setdefault("PYMATTERSIM_VERIF", "1")


class MachineryError(Exception):
    """The verification machinery itself failed (exit code 2)."""


def import_lib():
    """Put PYMATTERSIM_SRC first on sys.path and make sure the library that gets
    imported is the one under it (checks always run the current working tree)."""
    if SRC not in sys.path:
        sys.path.insert(0, SRC)
    import logging
    logging.disable(logging.CRITICAL)
    import PyMatterSim  # noqa
    # namespace package or regular: resolve a concrete module file
    import PyMatterSim.utils.pbc as pbc
    where = os.path.realpath(pbc.__file__)
    if not where.startswith(os.path.realpath(SRC) + os.sep):
        raise MachineryError(f"PyMatterSim imported from {where}, not from {SRC}")
    return PyMatterSim


# --------------------------------------------------------------------------
# TLC
# --------------------------------------------------------------------------

_STATS = re.compile(r"(\d+) states generated, (\d+) distinct states found")
_INVVIOL = re.compile(r"Error: Invariant (\S+) is violated")
_COVER = re.compile(r"^<(\w+) line (\d+), col (\d+) to line (\d+), col (\d+) of module (\w+)>: (\d+):(\d+)")


def _cfg_value(v):
    if isinstance(v, bool):
        return "TRUE" if v else "FALSE"
    if isinstance(v, int):
        if v < 0:
            raise MachineryError("negative constants cannot be written in a cfg")
        return str(v)
    if isinstance(v, str):
        return json.dumps(v)
    raise MachineryError(f"unsupported cfg constant {v!r}")


def write_cfg(path, constants=None, invariants=(), spec="Spec", properties=(),
              constraints=(), postconditions=(), substitutions=None, init=None, next_=None,
              deadlock=False, view=None):
    lines = []
    if init:
        lines += [f"INIT {init}", f"NEXT {next_}"]
    else:
        lines.append(f"SPECIFICATION {spec}")
    if constants or substitutions:
        lines.append("CONSTANTS")
        for k, v in (constants or {}).items():
            lines.append(f"  {k} = {_cfg_value(v)}")
        for k, v in (substitutions or {}).items():
            lines.append(f"  {k} <- {v}")
    for i in invariants:
        lines.append(f"INVARIANT {i}")
    for p in properties:
        lines.append(f"PROPERTY {p}")
    for c in constraints:
        lines.append(f"CONSTRAINT {c}")
    for p in postconditions:
        lines.append(f"POSTCONDITION {p}")
    if view:
        lines.append(f"VIEW {view}")
    lines.append(f"CHECK_DEADLOCK {'TRUE' if deadlock else 'FALSE'}")
    with open(path, "w") as f:
        f.write("\n".join(lines) + "\n")


def parse_printed(stdout):
    """Values printed by PrintT(ToJson(..)): one TLA+ string per line."""
    out = []
    for line in stdout.splitlines():
        if line.startswith('"{') or line.startswith('"['):
            try:
                out.append(json.loads(json.loads(line)))
            except Exception as e:  # pragma: no cover
                raise MachineryError(f"cannot parse TLC output line: {line[:200]} ({e})")
    return out


class TlcResult:
    def __init__(self):
        self.cases = []
        self.generated = 0
        self.distinct = 0
        self.violated = None      # name of a violated model invariant / property
        self.error = None         # other TLC error text
        self.stdout = ""
        self.wall = 0.0
        self.coverage = {}        # action name -> count
        self.post_ok = None

    def merge(self, o):
        self.cases += o.cases
        self.generated += o.generated
        self.distinct += o.distinct
        self.violated = self.violated or o.violated
        self.error = self.error or o.error
        self.wall = max(self.wall, o.wall)
        for k, v in o.coverage.items():
            self.coverage[k] = self.coverage.get(k, 0) + v
        if o.post_ok is not None:
            self.post_ok = o.post_ok if self.post_ok is None else (self.post_ok and o.post_ok)
        return self


def run_tlc(module, cfg_kwargs, workers=1, timeout=3600, env=None, simulate=None,
            coverage=False, depth_first=False, keep_stdout=False, extra_args=()):
    """Run TLC once on spec/<module>.tla with a generated cfg."""
    tmp = tempfile.mkdtemp(prefix="verif_tlc_")
    try:
        cfg = os.path.join(tmp, "mc.cfg")
        write_cfg(cfg, **cfg_kwargs)
        if workers == 1:
            cmd = ["java", "-XX:+UseSerialGC", "-Xmx3g", "-Xss64m", "-XX:CICompilerCount=2"]
        else:
            cmd = ["java", "-XX:+UseParallelGC", "-Xss64m"]
        if depth_first:
            cmd.append("-Dtlc2.tool.queue.IStateQueue=StateDeque")
        cmd += ["-cp", TLC_JAR, "tlc2.TLC", "-workers", str(workers), "-metadir",
                os.path.join(tmp, "meta"), "-noGenerateSpecTE", "-config", cfg]
        if coverage:
            cmd += ["-coverage", "1"]
        if simulate:
            cmd += ["-simulate", simulate]
        cmd += list(extra_args)
        cmd.append(os.path.join(SPEC, module + ".tla"))
        e = dict(os.environ)
        if env:
            e.update(env)
        t0 = time.time()
        try:
            p = subprocess.run(cmd, cwd=SPEC, env=e, capture_output=True, text=True, timeout=timeout)
        except subprocess.TimeoutExpired:
            raise MachineryError(f"TLC timed out on {module} after {timeout}s")
        r = TlcResult()
        r.wall = time.time() - t0
        out = p.stdout
        r.cases = parse_printed(out)
        if not keep_stdout:   # drop the printed cases and the parser chatter from what is kept for diagnostics
            out = "\n".join(l for l in out.splitlines()
                            if not (l.startswith('"{') or l.startswith('"[') or l.startswith("Parsing file")
                                    or l.startswith("Semantic processing") or l.startswith("Linting of")))
        r.stdout = out if keep_stdout else out[-6000:]
        m = None
        for m in _STATS.finditer(out):
            pass
        if m:
            r.generated, r.distinct = int(m.group(1)), int(m.group(2))
        mv = _INVVIOL.search(out)
        if mv:
            r.violated = mv.group(1)
        elif "is violated" in out and "Error:" in out:
            r.violated = re.search(r"Error: (.*is violated.*)", out).group(1)
        if "POSTCONDITION" in out.upper() and "violated" in out:
            r.post_ok = False
        elif cfg_kwargs.get("postconditions"):
            r.post_ok = "Model checking completed. No error has been found." in out or "finished" in out.lower()
        if r.violated is None and ("Error:" in out or p.returncode not in (0,)):
            i = out.find("Error:")
            diag = (out[i:i + 2500] if i >= 0 else "") + "\n...\n" + out[-1200:] + p.stderr[-800:]
            if "No error has been found" not in out and not simulate:
                r.error = diag
            elif simulate and "Error:" in out:
                r.error = diag
        for line in out.splitlines():
            mc = _COVER.match(line.strip())
            if mc:
                r.coverage[mc.group(1)] = r.coverage.get(mc.group(1), 0) + int(mc.group(8))
        return r
    finally:
        shutil.rmtree(tmp, ignore_errors=True)


def run_tlc_sharded(module, cfg_kwargs, nshards=None, timeout=3600, **kw):
    """Shard a model over several single-worker TLC processes (constants SHARD/NSHARDS)."""
    nshards = nshards or JOBS
    res = TlcResult()

    def one(s):
        ck = dict(cfg_kwargs)
        c = dict(ck.get("constants") or {})
        c["SHARD"] = s
        c["NSHARDS"] = nshards
        ck["constants"] = c
        return run_tlc(module, ck, workers=1, timeout=timeout, **kw)

    with cf.ThreadPoolExecutor(max_workers=min(JOBS, nshards)) as ex:
        for r in ex.map(one, range(nshards)):
            res.merge(r)
    return res


def apalache_lemmas(chk, module, lemmas, refuted=()):
    """Discharge state lemmas of spec/<module>.tla symbolically with Apalache (unbounded integers):
    `apalache-mc check --init=Init --inv=<lemma> --length=0`.  Every lemma must give NoError; every
    operator in `refuted` (a deliberately false variant) must give a counterexample, which shows that the
    encoding is not vacuous.  The verdicts go into the evidence (extra.apalache_unbounded_lemmas)."""
    tmp = tempfile.mkdtemp(prefix="verif_apa_")

    def one(inv):
        out = os.path.join(tmp, inv)
        try:
            p = subprocess.run(["apalache-mc", "check", "--init=Init", f"--inv={inv}", "--length=0", f"--out-dir={out}",
                                f"--run-dir={out}/run", os.path.join(SPEC, module + ".tla")],
                               capture_output=True, text=True, timeout=1800, cwd=tmp)
        except subprocess.TimeoutExpired:
            return inv, "timeout", ""
        txt = p.stdout + p.stderr
        return inv, ("NoError" if "The outcome is: NoError" in txt else "Error" if "The outcome is: Error" in txt else "failed"), txt[-1500:]
    try:
        with cf.ThreadPoolExecutor(max_workers=4) as ex:
            results = list(ex.map(one, list(lemmas) + list(refuted)))
    finally:
        shutil.rmtree(tmp, ignore_errors=True)
    summary = chk.extra.setdefault("apalache_unbounded_lemmas", {})
    for inv, verdict, tail in results:
        summary[f"{module}!{inv}"] = verdict
        want = "Error" if inv in refuted else "NoError"
        if verdict != want:
            raise MachineryError(f"Apalache: {module}!{inv} gave {verdict}, expected {want}\n{tail}")


def require_model_ok(r, what):
    if r.violated:
        raise MachineryError(f"model-level invariant {r.violated} violated in {what}: "
                             f"the specification itself is inconsistent\n{r.stdout[-1500:]}")
    if r.error:
        raise MachineryError(f"TLC failed in {what}:\n{r.error}")


# --------------------------------------------------------------------------
# verdicts, findings, evidence
# --------------------------------------------------------------------------

def load_findings():
    p = os.path.join(VERIF, "known_findings.json")
    if not os.path.exists(p):
        return {"findings": [], "fixed": []}
    with open(p) as f:
        return json.load(f)


def _digest(obj):
    return hashlib.sha1(json.dumps(obj, sort_keys=True, default=str).encode()).hexdigest()[:12]


class Check:
    """Collects what one run of one property's check covered and found."""

    def __init__(self, pid, tier, design_ref=""):
        self.pid = pid
        self.tier = tier
        self.t0 = time.time()
        self.states = 0
        self.transitions = 0
        self.replayed = 0          # cases replayed into / traces validated against the implementation
        self.evaluations = 0
        self.nontrivial = set()
        self.samples = []
        self.skipped_tie = 0
        self.violations = []       # (clause, case)
        self.known = []
        self.assumptions = []
        self.extra = {}
        self.exhaustive = False
        self.rule = ""
        self.coverage_actions = {}
        self.findings = [f for f in load_findings().get("findings", []) if f.get("property") == pid]
        self._known_printed = set()

    # --- TLC bookkeeping
    def add_tlc(self, r, label=None):
        self.states += r.distinct
        self.transitions += r.generated
        for k, v in r.coverage.items():
            self.coverage_actions[k] = self.coverage_actions.get(k, 0) + v
        if label:
            self.extra.setdefault("tlc_runs", []).append(
                {"model": label, "distinct": r.distinct, "generated": r.generated, "wall_s": round(r.wall, 2)})

    # --- per-case verdicts
    def ok(self, case_key=None, nontrivial=True, sample=None):
        self.replayed += 1
        self.evaluations += 1
        if nontrivial and case_key is not None:
            self.nontrivial.add(case_key if isinstance(case_key, (str, int)) else _digest(case_key))
        if sample is not None and len(self.samples) < 3:
            self.samples.append(sample)

    def tie(self):
        self.skipped_tie += 1
        self.evaluations += 1

    def violation(self, clause, case, finding_key=None):
        """Record a violation.  `finding_key` identifies the failing input / call site
        for the known-findings file."""
        self.replayed += 1
        self.evaluations += 1
        for f in self.findings:
            if finding_key is not None and f.get("key") == finding_key:
                if finding_key not in self._known_printed:
                    self._known_printed.add(finding_key)
                    self.known.append(f)
                return "known"
        self.violations.append((clause, case))
        return "violation"

    # --- finish
    def finish(self, level="model_checking"):
        os.makedirs(os.path.join(OUT, "evidence"), exist_ok=True)
        rdir = os.path.join(OUT, "replays", self.pid)
        lines = []
        seen = set()
        for clause, case in self.violations:
            d = _digest([clause, case])
            if d in seen:
                continue
            seen.add(d)
            if len(seen) > 20:
                break
            os.makedirs(rdir, exist_ok=True)
            path = os.path.join(rdir, f"{d}.json")
            with open(path, "w") as f:
                json.dump({"property": self.pid, "clause": clause, "case": case}, f, indent=1, default=str)
            lines.append(f"VIOLATION property={self.pid} replay={path}")
            print(f"  clause: {clause}")
        for f in self.known:
            print(f"KNOWN-FINDING: property={self.pid} {f.get('what', f.get('key'))}")
        cov = {
            "states": max(self.states, 0),
            "transitions": max(self.transitions, 0),
            "traces_validated_against_impl": self.replayed,
            "evaluations": self.evaluations,
            "distinct_nontrivial": len(self.nontrivial),
            "rule": self.rule,
            "samples": self.samples[:3] if self.samples else [],
            "exhaustive": bool(self.exhaustive),
            "skipped_tie": self.skipped_tie,
            "known_findings_reported": len(self.known),
        }
        if self.coverage_actions:
            cov["action_coverage"] = self.coverage_actions
        cov.update(self.extra)
        ev = {
            "property_id": self.pid,
            "tier": self.tier,
            "seed": SEED,
            "level": level,
            "coverage": cov,
            "assumptions": self.assumptions,
            "wall_s": round(time.time() - self.t0, 2),
            "violations": len(seen),
        }
        with open(os.path.join(OUT, "evidence", f"{self.pid}.json"), "w") as f:
            json.dump(ev, f, indent=1, default=str)
        for ln in lines:
            print(ln)
        print(f"{self.pid} {self.tier}: states={self.states} replayed={self.replayed} "
              f"nontrivial={len(self.nontrivial)} ties_skipped={self.skipped_tie} "
              f"violations={len(seen)} known={len(self.known)} wall={ev['wall_s']}s")
        return 1 if lines else 0


def load_replay(path):
    with open(path) as f:
        return json.load(f)


def scratch_dir(prefix="verif_"):
    return tempfile.mkdtemp(prefix=prefix)


# --------------------------------------------------------------------------
# trace validation (direction B)
# --------------------------------------------------------------------------

_BAD = re.compile(r'/\\ bad = "([^"]*)"')
_LVAL = re.compile(r"/\\ l = (\d+)")
_DEPTH = re.compile(r"The depth of the complete state graph search is (\d+)")


def validate_trace(module, records, constants=None, timeout=1800, chunk=None):
    """Validate a recorded trace against spec/<module>.tla.

    The trace spec has variables `l` (next record, 1-based) and `bad` (name of the
    failing clause, "" while accepted) and invariant `Accepted`.  Returns
    (TlcResult, None) when every record was consumed, else (TlcResult, (index0, clause)).
    """
    tmp = tempfile.mkdtemp(prefix="verif_trace_")
    try:
        path = os.path.join(tmp, "trace.ndjson")
        with open(path, "w") as f:
            for rec in records:
                f.write(json.dumps(rec, separators=(",", ":")) + "\n")
        r = run_tlc(module, dict(constants=constants or {}, invariants=["Accepted"]),
                    workers=1, timeout=timeout, env={"TRACE_FILE": path}, keep_stdout=True)
        out = r.stdout
        if r.violated == "Accepted":
            bads = _BAD.findall(out)
            ls = _LVAL.findall(out)
            clause = [b for b in bads if b][-1] if any(bads) else "rejected"
            idx = int(ls[-1]) - 1 if ls else -1
            r.violated = None
            r.stdout = out[-3000:]
            return r, (idx, clause)
        if r.violated or r.error:
            raise MachineryError(f"trace validation with {module} failed:\n{out[-3000:]}")
        m = _DEPTH.search(out)
        depth = int(m.group(1)) if m else -1
        if depth != len(records) + 1:
            raise MachineryError(f"{module}: depth {depth} but {len(records)} records (trace not fully consumed, no clause)")
        r.stdout = out[-2000:]
        return r, None
    finally:
        shutil.rmtree(tmp, ignore_errors=True)


def validate_trace_all(module, records, constants=None, timeout=1800, max_rejects=10, session_start=None):
    """Like validate_trace but continues after a rejection so that the rest of the
    trace is still checked.  Returns (merged TlcResult, [(index0, clause), ...]).
    session_start(rec) -> bool: when given, validation resumes at the next record that
    starts a session (the spec state of a rejected session cannot be continued)."""
    res = TlcResult()
    rejects = []
    offset = 0
    recs = list(records)
    while recs:
        r, rej = validate_trace(module, recs, constants, timeout)
        res.merge(r)
        if rej is None:
            break
        idx, clause = rej
        rejects.append((offset + idx, clause))
        if len(rejects) >= max_rejects or idx < 0:
            break
        skip = idx + 1
        if session_start is not None:
            while skip < len(recs) and not session_start(recs[skip]):
                skip += 1
        recs = recs[skip:]
        offset += skip
    return res, rejects


# --------------------------------------------------------------------------
# parallel replay of cases into the library (fork pool; the function must be a
# module-level function taking one case and returning a picklable result)
# --------------------------------------------------------------------------

def pmap(fn, items, jobs=None, chunksize=8):
    items = list(items)
    jobs = min(jobs or JOBS, max(1, len(items)))
    if jobs <= 1 or len(items) < 4:
        return [fn(x) for x in items]
    import multiprocessing as mp
    ctx = mp.get_context("fork")
    with ctx.Pool(jobs) as pool:
        return pool.map(fn, items, chunksize=chunksize)


def sample(items, k, salt=0):
    """Seeded sample (VERIF_SEED) that keeps order; all items when k >= len."""
    import random
    items = list(items)
    if k >= len(items):
        return items
    rng = random.Random(SEED * 1000003 + salt)
    idx = sorted(rng.sample(range(len(items)), k))
    return [items[i] for i in idx]


def make_snapshot(positions, types, hmatrix, timestep=0, origin=None):
    """A reader_utils.SingleSnapshot built the way the dump reader builds it
    (lower-triangular h-matrix, box length = its diagonal)."""
    import numpy as np
    from PyMatterSim.reader.reader_utils import SingleSnapshot
    H = np.array(hmatrix, dtype=float)
    d = H.shape[0]
    lo = np.zeros(d) if origin is None else np.array(origin, dtype=float)
    L = np.abs(np.diag(H)).astype(float)
    bounds = np.c_[lo, lo + L]
    return SingleSnapshot(timestep=int(timestep), nparticle=len(types),
                          particle_type=np.array(types, dtype=np.int32),
                          positions=np.array(positions, dtype=float),
                          boxlength=L, boxbounds=bounds, realbounds=None, hmatrix=H)


def make_snapshots(frames, types, hmatrix, timesteps=None, origin=None):
    from PyMatterSim.reader.reader_utils import Snapshots
    ss = [make_snapshot(f, types, hmatrix, (timesteps[i] if timesteps else i), origin) for i, f in enumerate(frames)]
    return Snapshots(nsnapshots=len(ss), snapshots=ss)
