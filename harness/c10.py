"""C10 — 2-D bond-orientational order (PyMatterSim.static.boo.boo_2d) against spec/Boo2D.tla.

Model (MC_Boo2D.tla, four modes): small integer configurations with neighbour and signed
weight files read frame by frame through two handles, perfect square / triangular /
honeycomb lattices (the latter two in the basis (1, e^{i pi/3}), i.e. in a triclinic cell),
configurations and their images under rotation by rational angles, and short trajectories
with the averaging window.  exp(i l theta) of an integer bond is an exact element of Z[i] or
Z[e^{i pi/3}] over an integer for even l and for bonds of integer length, so TLC itself
decides |psi| <= 1, |psi| = 1 on the perfect l-fold lattice, equal weights = plain mean,
sign flip, rotation covariance.  psi is emitted as Real terms (one per admissible choice of
minimum image at exact half-cell ties).

Direction A: every emitted case is rendered (snapshots, neighbour / weight files), boo_2d is
built per l, ParticlePhi compared with the terms; time_average (complex and modulus/phase),
spatial_corr, time_corr compared with the composition terms over the code's own psi and the
public conditional_gr / time_correlation.
Direction B: seeded random scaled-integer trajectories; TraceBoo2D.tla (file cursor = spec
variable) prints the expected psi terms per snapshot.
"""
import json
import os
import random
import shutil

import numpy as np

from . import common, realeval
from .common import Check, MachineryError, require_model_ok, run_tlc_sharded

INVS = ["InvCursorFollowsFrames", "InvDefined", "InvUnitPhases", "InvModulusAtMostOne", "InvEqualWeightsIsMean",
        "InvWeightSign", "InvPerfectLattice", "InvRotationCommutes", "InvRotationPhase", "InvWindow"]
NB_HEADER = "id     cn     neighborlist\n"
WT_HEADER = "id     cn     weights\n"


class Env(dict):
    """binds the free variables of composition terms: names are JSON lists"""

    def __init__(self, fn):
        super().__init__()
        self.fn = fn

    def __getitem__(self, k):
        return self.fn(tuple(k) if isinstance(k, list) else k)


def near(a, b, atol=1e-9, rtol=1e-9):
    return bool(np.all(np.isfinite(a)) and np.all(np.abs(np.asarray(a) - np.asarray(b)) <= atol + rtol * np.abs(b)))


# --------------------------------------------------------------------------
# rendering
# --------------------------------------------------------------------------

def basis_matrix(case):
    return np.array([[float(realeval.ev(x)) for x in row] for row in case["basis"]]) if "basis" in case else np.eye(2)


def make_snapshots(poses, H, B, timesteps=None, scale=1.0):
    from PyMatterSim.reader.reader_utils import SingleSnapshot, Snapshots
    Hc = (np.array(H, dtype=float) @ B) / scale
    L = np.array([abs(Hc[0, 0]), abs(Hc[1, 1])]) if Hc[0, 1] == 0 else np.array([np.linalg.norm(Hc[0]), np.linalg.norm(Hc[1])])
    ss = []
    for f, p in enumerate(poses):
        pc = (np.array(p, dtype=float) @ B) / scale
        ss.append(SingleSnapshot(timestep=int(timesteps[f]) if timesteps else f, nparticle=len(p),
                                 particle_type=np.ones(len(p), dtype=np.int32), positions=pc, boxlength=L,
                                 boxbounds=np.array([[0.0, L[0]], [0.0, L[1]]]), realbounds=None, hmatrix=Hc))
    return Snapshots(nsnapshots=len(ss), snapshots=ss)


def write_files(tmp, tag, nb_frames, wt_frames, wscale=0.5):
    nbp = os.path.join(tmp, f"{tag}.neighbor.dat")
    with open(nbp, "w") as f:
        for fr in nb_frames:
            f.write(NB_HEADER)
            for i, row in enumerate(fr):
                f.write(" ".join([str(i + 1), str(len(row))] + [str(j) for j in row]) + "\n")
    wtp = ""
    if wt_frames and any(len(w) for w in wt_frames):
        wtp = os.path.join(tmp, f"{tag}.weights.dat")
        with open(wtp, "w") as f:
            for fr in wt_frames:
                f.write(WT_HEADER)
                for i, row in enumerate(fr):
                    f.write(" ".join([str(i + 1), str(len(row))] + [repr(w * wscale) for w in row]) + "\n")
    return nbp, wtp


def build(lib, ss, l, nbp, wtp, ppp, nmax):
    kw = dict(ppp=np.array(ppp))
    if wtp:
        kw["weightsfile"] = wtp
    if nmax != 10:
        kw["Nmax"] = nmax
    try:
        return lib["boo_2d"](ss, l, nbp, **kw), None
    except Exception as e:
        return None, e


# --------------------------------------------------------------------------
# direction A
# --------------------------------------------------------------------------

def check_psi(chk, brief, frames, phi, l, tag=""):
    """phi[f, i] against the admissible terms of the spec; returns False after a violation"""
    ok = True
    for f, fr in enumerate(frames):
        for i, ent in enumerate(fr["psi"]):
            e = ent[l - 1]
            obs = complex(phi[f, i])
            if not np.isfinite(obs.real) or abs(obs) > 1 + 1e-9:
                chk.violation("ModulusAtMostOne" + tag, dict(brief, l=l, frame=f, particle=i + 1, observed=str(obs)))
                return False
            alts = [complex(realeval.ev(t)) for t in e["alts"]]
            if not any(realeval.close(obs, a) for a in alts):
                chk.violation("PsiDefinition" + tag, dict(brief, l=l, frame=f, particle=i + 1, observed=str(obs),
                                                          admissible=[str(a) for a in alts], pos=fr["pos"], nb=fr["nb"], wt=fr["wt"]))
                return False
            if len(alts) > 1:
                chk.extra["tie_particles_decided_as_sets"] = chk.extra.get("tie_particles_decided_as_sets", 0) + 1
            if e["mod2"]:
                if not realeval.close(abs(obs) ** 2, e["mod2"][0] / e["mod2"][1]):
                    chk.violation("ExactModulus" + tag, dict(brief, l=l, frame=f, particle=i + 1, observed=abs(obs) ** 2,
                                                             expected=e["mod2"]))
                    return False
                chk.extra["exact_moduli_compared"] = chk.extra.get("exact_moduli_compared", 0) + 1
            chk.extra["psi_values_compared"] = chk.extra.get("psi_values_compared", 0) + 1
    return ok


def replay_case(chk, case, lib, tmp):
    B = basis_matrix(case)
    brief = {k: case[k] for k in ("m", "t", "H", "ppp", "nmax") if k in case}
    frames = case["frames"]
    ss = make_snapshots([fr["pos"] for fr in frames], case["H"], B, case.get("ts"))
    # the unit in which the weights are written is immaterial (w / sum|w|): 0.5, or - by the case's hash - very small / large
    units = (0.5, 0.5, 0.5, 1e-10, 2.0 ** -40, 1e8)
    wunit = units[(len(json.dumps(frames[0]["pos"])) + 7 * len(frames) + case.get("nmax", 0)) % len(units)]
    nbp, wtp = write_files(tmp, "a", [fr["nb"] for fr in frames], [fr["wt"] for fr in frames], wscale=wunit)
    objs = {}
    for l in case["ls"]:
        boo, err = build(lib, ss, l, nbp, wtp, case["ppp"], case["nmax"])
        if err is not None:
            chk.violation(f"raises:{type(err).__name__}", dict(brief, l=l, error=str(err), full=case))
            return
        phi = np.asarray(boo.ParticlePhi)
        if phi.shape != (len(frames), len(frames[0]["pos"])):
            chk.violation("PsiShape", dict(brief, l=l, obs_shape=list(phi.shape), full=case))
            return
        if not check_psi(chk, dict(brief, full=case), frames, phi, l):
            return
        objs[l] = (boo, phi)
        if l == case["ls"][0]:       # the public method again (files re-opened) and its saved copy
            outp = os.path.join(tmp, "phi.npy")
            try:
                again = np.asarray(boo.lthorder(output_phi=outp))
                same = np.array_equal(again, phi) and np.array_equal(np.load(outp), phi)
            except Exception as e:
                same = False
            if not same:
                chk.violation("LthorderRepeatable", dict(brief, l=l, full=case))
                return
    if case["m"] == "rot":
        ssr = make_snapshots([fr["pos"] for fr in case["rotated"]], case["rotH"], B)
        for l in case["ls"]:
            boo, err = build(lib, ssr, l, nbp, wtp, case["ppp"], case["nmax"])
            if err is not None:
                chk.violation(f"raises:{type(err).__name__}", dict(brief, l=l, rotated=True, error=str(err), full=case))
                return
            phir = np.asarray(boo.ParticlePhi)
            if not check_psi(chk, dict(brief, rho=case["rho"], full=case), case["rotated"], phir, l, tag="(rotated)"):
                return
            rho_l = complex(realeval.ev(case["rhopow"][l - 1]))
            phi = objs[l][1]
            for i, ent in enumerate(frames[0]["psi"]):
                if len(ent[l - 1]["alts"]) > 1:
                    chk.tie()
                    continue
                if not realeval.close(complex(phir[0, i]), complex(phi[0, i]) * rho_l):
                    chk.violation("RotationCovariance", dict(brief, l=l, rho=case["rho"], particle=i + 1,
                                                             rotated=str(phir[0, i]), original=str(phi[0, i]), factor=str(rho_l), full=case))
                    return
    if case["m"] == "series":
        if not replay_series(chk, case, lib, ss, objs, brief):
            return
    chk.ok((case["m"], json.dumps([case["H"], case["ppp"], case["nmax"], case["ls"], frames[0]["pos"], frames[0]["nb"],
                                   frames[0]["wt"], case.get("rho"), case.get("period")])),
           sample={"boo_2d": dict(brief, ls=case["ls"], pos=frames[0]["pos"], nb=frames[0]["nb"], wt=frames[0]["wt"])})


def replay_series(chk, case, lib, ss, objs, brief):
    period = case["period"][0] / case["period"][1]
    dt = case["dt"][0] / case["dt"][1]
    T, N = len(case["frames"]), len(case["frames"][0]["pos"])
    # int(period / interval) of a float quotient: where the exact quotient is an integer n the window length is asserted
    # only if the floating-point quotient of the rendered arguments is exactly n (0.3 / 0.1 lands below 3): DESIGN 3.3
    from fractions import Fraction
    qx = Fraction(*case["period"]) / ((case["ts"][1] - case["ts"][0]) * Fraction(*case["dt"]))
    fragile = qx.denominator == 1 and period / ((case["ts"][1] - case["ts"][0]) * dt) != int(qx)
    if fragile:
        chk.tie()
    for l, (boo, phi) in objs.items():
        env = Env(lambda k: complex(phi[k[1], k[2] - 1]) if k[0] == "phi" else None)
        for cplx in ((True, False) if not fragile else ()):
            try:
                avg, mid = boo.time_average(time_period=period, dt=dt, average_complex=cplx)
            except Exception as e:
                chk.violation(f"raises:{type(e).__name__}", dict(brief, l=l, call="time_average", error=str(e), full=case))
                return False
            avg, mid = np.asarray(avg), np.asarray(mid)
            rows = avg.shape[0]
            if rows not in case["rows"] or avg.shape[1:] != (N,) or mid.shape != (rows,):
                chk.violation("WindowLength", dict(brief, l=l, w=case["w"], admissible_rows=case["rows"],
                                                   obs_shape=list(avg.shape), full=case))
                return False
            for n in range(rows):
                wn = case["win"][n]
                if int(mid[n]) not in wn["centre"]:
                    chk.violation("WindowCentre", dict(brief, l=l, w=case["w"], n=n, admissible=wn["centre"],
                                                       observed=mid.tolist(), full=case), finding_key="time_average:centre")
                    return False
                terms = wn["cplx"] if cplx else wn["modph"]
                for i in range(N):
                    exp = complex(realeval.ev(terms[i], env))
                    if not realeval.close(complex(avg[n, i]), exp):
                        chk.violation("TimeAverage" + ("Complex" if cplx else "ModulusPhase"),
                                      dict(brief, l=l, w=case["w"], n=n, particle=i + 1, observed=str(avg[n, i]),
                                           expected=str(exp), full=case))
                        return False
        # spatial correlation = mean over frames of the public conditional_gr with the code's own psi
        for rdelta in (0.5, 0.01):
            try:
                got = boo.spatial_corr(rdelta=rdelta)
                tabs = [lib["conditional_gr"](snapshot=ss.snapshots[f], condition=phi[f], conditiontype=None,
                                              ppp=np.array(case["ppp"]), rdelta=rdelta) for f in range(T)]
            except Exception as e:
                chk.violation(f"raises:{type(e).__name__}", dict(brief, l=l, call="spatial_corr", error=str(e), full=case))
                return False
            envs = Env(lambda k: tabs[k[1]].to_numpy(dtype=float) if k[0] == "cgr" else None)
            exp = realeval.ev(case["scorr"], envs)
            if list(got.columns) != list(tabs[0].columns) or got.shape != exp.shape or not np.allclose(
                    got.to_numpy(dtype=float), exp, atol=1e-9, rtol=1e-9, equal_nan=True):
                chk.violation("SpatialCorrComposition", dict(brief, l=l, rdelta=rdelta, columns=list(got.columns), full=case))
                return False
        for tdt in (dt, 0.002):
            try:
                got = boo.time_corr(dt=tdt)
                ref = lib["time_correlation"](snapshots=ss, condition=phi, dt=tdt)
            except Exception as e:
                chk.violation(f"raises:{type(e).__name__}", dict(brief, l=l, call="time_corr", error=str(e), full=case))
                return False
            exp = realeval.ev(case["tcorr"], Env(lambda k: ref.to_numpy(dtype=float)))
            if list(got.columns) != list(ref.columns) or got.shape != exp.shape or not np.allclose(
                    got.to_numpy(dtype=float), exp, atol=1e-9, rtol=1e-9, equal_nan=True):
                chk.violation("TimeCorrComposition", dict(brief, l=l, dt=tdt, full=case))
                return False
        chk.extra["compositions_compared"] = chk.extra.get("compositions_compared", 0) + 8
    return True


# --------------------------------------------------------------------------
# direction B
# --------------------------------------------------------------------------

def parse_file(path, as_int):
    """abstract syntax of a neighbour / weight file: frames of rows (tokens after id and cn)"""
    frames = []
    with open(path) as f:
        for line in f:
            tok = line.split()
            if not tok:
                continue
            if tok[0] == "id":
                frames.append({})
                continue
            vals = tok[2:2 + int(tok[1])]
            frames[-1][int(tok[0])] = [int(v) for v in vals] if as_int else [int(round(float(v) * 10 ** 6)) for v in vals]
    return [[fr[i + 1] for i in range(len(fr))] for fr in frames]


def gen_trace(rng, lib, nobj, tmp):
    """random trajectories; the files are written by the harness (random lists, signed weights) or
    by the library's own writers (Nnearests; freud Voronoi lists with edge-length weights)"""
    trace, pending, raised = [], {}, []
    for o in range(nobj):
        source = rng.choice(["random", "random", "random", "nnearests", "freud"])
        S = rng.choice([10, 100])
        N = rng.randint(5, 30) if source != "freud" else rng.randint(8, 30)
        F = rng.randint(1, 3)
        l = rng.randint(1, 12)
        Lx, Ly = rng.randint(4 * S, 12 * S), rng.randint(4 * S, 12 * S)
        big = o == nobj - 1
        if big:        # scale: more than 2048 particles (and not a multiple of it): block-wise processing of the particles
            source, S, N, F, l = "random", 10, rng.randint(2300, 2700), 1, rng.choice([4, 6])
            Lx, Ly = 801, 903
        if rng.random() < 0.7:        # odd lengths: no exact half-cell ties in an orthogonal cell
            Lx, Ly = Lx | 1, Ly | 1
        tilt = rng.randint(-Lx // 2, Lx // 2) if rng.random() < 0.5 and source != "freud" else 0
        H = [[Lx, 0], [tilt, Ly]]
        ppp = [rng.randint(0, 1), rng.randint(0, 1)] if rng.random() < 0.4 and source != "freud" else [1, 1]
        nmax = rng.choice([10, 10, 3])
        weighted = rng.random() < 0.6 or source == "freud"
        pos = []
        for f in range(F):
            pts = set()
            while len(pts) < N:       # distinct points of one rectangle never differ by a cell vector
                pts.add((rng.randint(0, Lx - 1), rng.randint(0, Ly - 1)))
            pts = sorted(pts)
            rng.shuffle(pts)
            pos.append([list(p) for p in pts])
        ss = make_snapshots(pos, H, np.eye(2), scale=float(S))
        # sheared trajectory: the tilt changes from frame to frame, the edge lengths do not
        Hf = [H] * F
        if F > 1 and source != "freud" and rng.random() < 0.5:
            Hf = [H] + [[[Lx, 0], [rng.randint(-Lx // 2, Lx // 2), Ly]] for _ in range(F - 1)]
            for f in range(1, F):
                ss.snapshots[f] = make_snapshots([pos[f]], Hf[f], np.eye(2), timesteps=[f], scale=float(S)).snapshots[0]
        brief = {"source": source, "S": S, "N": N, "F": F, "l": l, "H": H, "ppp": ppp, "nmax": nmax, "weighted": weighted}
        try:
            if source == "random":
                nb, wt = [], []
                for f in range(F):
                    frn, frw = [], []
                    for i in range(N):
                        cn = rng.randint(1, min(8, N - 1))
                        row = rng.sample([j for j in range(1, N + 1) if j != i + 1], cn)
                        frn.append(row)
                        frw.append([rng.choice([-1, 1]) * rng.randint(1, 9) if rng.random() < 0.3 else rng.randint(1, 9) for _ in row])
                    nb.append(frn)
                    wt.append(frw)
                nbp, wtp = write_files(tmp, f"b{o}", nb, wt if weighted else None, wscale=rng.choice([1.0, 0.25, 0.1, 1e-10, 1e-12, 1e8]))   # the weighted mean does not depend on the unit of the weights
            elif source == "nnearests":
                nbp = os.path.join(tmp, f"b{o}.nn.dat")
                lib["Nnearests"](ss, N=rng.randint(2, min(6, N - 2)), ppp=np.array(ppp), fnfile=nbp)
                nb = parse_file(nbp, True)
                wt = [[[rng.choice([-2, 1, 3, 5]) for _ in row] for row in fr] for fr in nb]
                wtp = write_files(tmp, f"b{o}w", nb, wt, wscale=0.5)[1] if weighted else ""
            else:
                base = os.path.join(tmp, f"b{o}.freud")
                lib["cal_neighbors"](ss, outputfile=base)
                nbp, wtp = base + ".neighbor.dat", base + ".edgelength.dat"
                nb, wt = parse_file(nbp, True), parse_file(wtp, False)
        except Exception as e:     # a neighbour routine failing is another property's business: fall back silently
            chk_note = f"{source}:{type(e).__name__}"
            raised.append(("skip", chk_note))
            continue
        boo, err = build(lib, ss, l, nbp, wtp, ppp, nmax)
        if err is not None:
            raised.append((f"raises:{type(err).__name__}", dict(brief, error=str(err))))
            continue
        phi = np.asarray(boo.ParticlePhi)
        trace.append({"op": "open", "l": l, "H": H, "ppp": ppp, "nmax": nmax, "nb": nb, "wt": wt if weighted else []})
        for f in range(F):
            rid = len(pending) + 1
            trace.append(dict({"op": "frame", "id": rid, "pos": pos[f]}, **({"H": Hf[f]} if Hf[f] is not H else {})))
            pending[rid] = (phi[f], dict(brief, frame=f, H=Hf[f], pos=pos[f], nb=nb[f], wt=wt[f] if weighted else []))
    return trace, pending, raised


# --------------------------------------------------------------------------

def tlc_with_retry(module, cfg, nshards):
    """one retry when a TLC process died without a verdict (killed under memory pressure on a shared machine)"""
    r = run_tlc_sharded(module, cfg, nshards)
    if r.error and not r.violated:
        r = run_tlc_sharded(module, cfg, nshards)
    return r


def load_lib():
    common.import_lib()
    try:
        from PyMatterSim.static.boo import boo_2d
        from PyMatterSim.static.gr import conditional_gr
        from PyMatterSim.dynamic.time_corr import time_correlation
        from PyMatterSim.neighbors.calculate_neighbors import Nnearests
        try:
            from PyMatterSim.neighbors.freud_neighbors import cal_neighbors
        except Exception:
            cal_neighbors = None
    except Exception as e:       # the module under test does not import: no result at all
        return None, e
    return {"boo_2d": boo_2d, "conditional_gr": conditional_gr, "time_correlation": time_correlation,
            "Nnearests": Nnearests, "cal_neighbors": cal_neighbors}, None


def run(tier, replay=None):
    chk = Check("C10", tier)
    chk.rule = ("A: TLC runs the frame-reading machine of MC_Boo2D over four scopes (free configurations with signed weights and Nmax, "
                "perfect lattices, rotated pairs, trajectories with windows), clauses = invariants decided in exact Z[i] / Z[e^{i pi/3}] "
                "arithmetic, and prints psi as terms (one per admissible image choice at ties); each case is rendered and replayed into "
                "boo_2d for every l of the case, then time_average / spatial_corr / time_corr against composition terms. "
                "B: seeded random scaled-integer trajectories; TraceBoo2D (file cursor = spec variable) prints the expected psi terms. "
                "distinct = replayed cases + trace snapshots.")
    chk.assumptions = ["float comparison at 1e-9 of terms evaluated in double precision",
                       "particles with an empty neighbour list or zero weight sum are outside the scope (psi undefined)",
                       "a bond on an exact half-cell tie admits either image",
                       "spatial_corr / time_corr are compared with the public conditional_gr / time_correlation applied to the code's own psi "
                       "(those routines are properties C13 / C14)",
                       "window length asserted only for dyadic dt and period; T-w or T-w+1 rows accepted"]
    lib, err = load_lib()
    if lib is None:
        chk.violation(f"raises:{type(err).__name__}", {"import": "PyMatterSim.static.boo", "error": str(err)})
        return chk.finish()
    tmp = common.scratch_dir("verif_c10_")
    rng = random.Random(common.SEED * 7727 + 10)
    try:
        if replay:
            stored = common.load_replay(replay)["case"]
            case = stored.get("full", stored)
            if "m" not in case:
                print(json.dumps(stored, indent=1)[:4000])
                print("trace-record replay: re-run ./check C10 quick with the same VERIF_SEED")
                return 0
            replay_case(chk, case, lib, tmp)
            for clause, c in chk.violations:
                print("clause:", clause)
                print(json.dumps({k: v for k, v in c.items() if k != "full"}, indent=1, default=str)[:3000])
            return 1 if chk.violations else 0

        import concurrent.futures as cf
        shards = {"free": 6, "lattice": 1, "rot": 3, "series": 3} if tier == "quick" else {"free": 12, "lattice": 2, "rot": 8, "series": 8}
        with cf.ThreadPoolExecutor(max_workers=4) as ex:
            futs = {m: ex.submit(tlc_with_retry, "MC_Boo2D",
                                 dict(constants={"Tier": tier, "Mode": m, "Gen": True}, invariants=INVS + ["Emit"]), n)
                    for m, n in shards.items()}
            models = {m: fu.result() for m, fu in futs.items()}
        for m, r in models.items():
            require_model_ok(r, f"MC_Boo2D {m}")
            chk.add_tlc(r, f"MC_Boo2D {m}")
            if not r.cases:
                raise MachineryError(f"no cases emitted in mode {m}")
        chk.exhaustive = True
        for m in ("lattice", "free", "rot", "series"):
            for case in models[m].cases:
                replay_case(chk, case, lib, tmp)

        # ---- direction B
        trace, pending, raised = gen_trace(rng, lib, 40 if tier == "quick" else 400, tmp)
        for clause, c in raised:
            if clause == "skip":
                chk.extra.setdefault("neighbour_writer_failures_skipped", []).append(c)
            else:
                chk.violation(clause, c)
        r, rej = common.validate_trace("TraceBoo2D", trace)
        chk.add_tlc(r, "TraceBoo2D")
        if rej is not None:
            raise MachineryError(f"TraceBoo2D rejected a generated record: {rej}")
        printed = {c["rec"]: c["exp"] for c in r.cases}
        for rid, (phi, brief) in pending.items():
            if rid not in printed:
                raise MachineryError(f"no expectation printed for trace record {rid}")
            bad = None
            for i, e in enumerate(printed[rid]):
                obs = complex(phi[i])
                if e["tie"] or not e["def"]:
                    chk.tie()
                    continue
                exp = complex(realeval.ev(e["psi"]))
                if not np.isfinite(obs.real) or abs(obs) > 1 + 1e-9:
                    bad = ("ModulusAtMostOne", i, obs, exp)
                    break
                if not realeval.close(obs, exp):
                    bad = ("PsiDefinition", i, obs, exp)
                    break
            if bad:
                chk.violation("trace:" + bad[0], dict(brief, particle=bad[1] + 1, observed=str(bad[2]), expected=str(bad[3])))
            else:
                chk.ok(("B", rid))
                chk.extra["psi_values_compared"] = chk.extra.get("psi_values_compared", 0) + len(printed[rid])
        chk.samples.append({"trace_record": {k: v for k, v in trace[0].items() if k not in ("nb", "wt")}})
        return chk.finish()
    finally:
        shutil.rmtree(tmp, ignore_errors=True)
