"""C09 — three-dimensional bond-orientational order (PyMatterSim.static.boo.boo_3d) against spec/Boo3D.tla.

TLC (MC_Boo3D) checks the clauses of the property on the model -- tabulated q4/q6 of sc, fcc, bcc, hcp,
icosahedron bracketed by exact rationals (addition theorem), periodic crystals reproduce them through the
minimum image, 0 <= q_l^2 <= 1, |s_ij| <= 1, normalised weights, equal weights = unweighted, index set of the
3-j contraction, bonds = Cell!MinImage -- and prints, per case, every observable as a Real term over named
definitions (q_lm from the canonical SphHarm table applied to the bond directions, Q_lm, q_l twice (Y table
and addition theorem), s_ij, thresholded counts, w_l with Racah 3-j terms, w^_l).
Direction A replays the cases into the real boo_3d (files in the neighbour-file syntax, Snapshots objects);
direction B runs seeded random trajectories with lists from the real writers (N-nearest, cut-off, Voronoi
face areas), records inputs and reported coordination numbers, and TraceBoo3D.tla validates the record and
prints the expected terms.  Spatial / time correlations are checked by composition with the public
conditional_gr / time_correlation applied to the code's own q_lm.
"""
import concurrent.futures as cf
import json
import math
import os
import random
import shutil
from decimal import Decimal

import numpy as np

from . import common
from .common import Check, run_tlc, require_model_ok, TlcResult
from .c08 import TermEval

CHECK_INVS = {
    "ref": ["InvRefValues", "InvRefBounds", "InvRefEqualLengths", "InvW3jIndexSet", "InvSession"],
    "xtal": ["InvXtal", "InvXtalSizeIndependent", "InvSession"],
    "cfg": ["InvNoTies", "InvWeights", "InvEqualWeightsTerms", "InvExactBounds", "InvW3jIndexSet", "InvFrameAttributes",
            "InvSession"],
}
# the emission runs check, on every emitted state, the clauses about the attributes that only vary there (line orders)
GEN_INVS = {"ref": ["Emit", "InvSession"], "xtal": ["Emit", "InvSession"], "cfg": ["Emit", "InvFrameAttributes", "InvSession"]}
TOL32 = 3e-7          # s_ij is stored by the code in float32


# --------------------------------------------------------------------------
# TLC jobs: all shards of all runs go through one pool
# --------------------------------------------------------------------------

def tlc_plan(tier):
    q = tier == "quick"
    seed = common.SEED
    base = {"Tier": tier, "Seed": seed}
    jobs = []

    def boo(label, mode, scope, gen, stride, nsh):
        jobs.append((label, "MC_Boo3D", dict(base, Mode=mode, Scope=scope, Gen=gen, Stride=stride),
                     GEN_INVS[mode] if gen else CHECK_INVS[mode], nsh))

    jobs.append(("w3j", "MC_SphHarm", {"Tier": tier, "Mode": "w3j"}, ["Emit"], 4))
    boo("ref check", "ref", "x", False, 1, 2)
    boo("ref gen", "ref", "x", True, 1, 4 if q else 8)
    boo("xtal check", "xtal", "x", False, 1, 2 if q else 6)
    boo("xtal gen", "xtal", "x", True, 1, 2 if q else 6)
    boo("cfg exact check", "cfg", "exact", False, 1, 8 if q else 16)
    boo("cfg exact gen", "cfg", "exact", True, 2001 if q else 451, 4 if q else 12)
    boo("cfg generic check", "cfg", "generic", False, 1, 6 if q else 12)
    boo("cfg generic gen", "cfg", "generic", True, 7999 if q else 431, 6 if q else 16)
    return jobs


def run_plan(jobs, on_result):
    """Run every shard of every job in one pool; call on_result(label, merged TlcResult) as jobs complete."""
    tasks = []
    for label, module, consts, invs, nsh in jobs:
        for s in range(nsh):
            tasks.append((label, module, dict(consts, SHARD=s, NSHARDS=nsh), invs))
    pending = {j[0]: j[4] for j in jobs}
    merged = {j[0]: TlcResult() for j in jobs}

    def one(t):
        label, module, consts, invs = t
        return label, run_tlc(module, dict(constants=consts, invariants=invs), workers=1, timeout=3000)

    with cf.ThreadPoolExecutor(max_workers=common.JOBS) as ex:
        futs = [ex.submit(one, t) for t in tasks]
        for fu in cf.as_completed(futs):
            label, r = fu.result()
            merged[label].merge(r)
            pending[label] -= 1
            if pending[label] == 0:
                require_model_ok(merged[label], f"{label}")
                on_result(label, merged[label])


# --------------------------------------------------------------------------
# rendering an abstract case for the library
# --------------------------------------------------------------------------

def write_lists(path, frames_lists, header, fmt, orders=None):
    """one block per frame; the lines of frame f in the order orders[f] (ids), ascending when not given"""
    with open(path, "w") as f:
        for k, rows in enumerate(frames_lists):
            f.write(header + "\n")
            order = orders[k] if orders and orders[k] else range(1, len(rows) + 1)
            for i in order:
                row = rows[i - 1]
                f.write("%d %d " % (i, len(row)) + " ".join(fmt(x) for x in row) + "\n")


def render(case, te, tmp, scale, wmul, lib):
    """-> (Snapshots, neighbour file, weight file or None, ppp, nmax)"""
    SingleSnapshot, Snapshots = lib["SingleSnapshot"], lib["Snapshots"]
    H0 = np.array(case["H"], dtype=float) / scale
    if case["kind"] == "ref":
        pos = np.array([[float(te.inexact(te.ev(c))) for c in p] for p in case["posterms"]])
        rc = np.linalg.norm(pos[1])
        frames = [{"posf": pos / rc * 1.25 / scale + 7.0, "nl": case["nl"], "w": []}]
    else:
        frames = [dict(fr, posf=np.array(fr["pos"], dtype=float) / scale) for fr in case["frames"]]
    snaps = []
    for f, fr in enumerate(frames):
        n = len(fr["posf"])
        H = np.array(fr["H"], dtype=float) / scale if fr.get("H") else H0      # the cell of THIS frame
        L = np.array([abs(H[k][k]) for k in range(3)])
        snaps.append(SingleSnapshot(timestep=int(case["ts"][f]), nparticle=n, particle_type=np.ones(n, dtype=int),
                                    positions=np.array(fr["posf"], dtype=float), boxlength=L,
                                    boxbounds=np.array([[0.0, x] for x in L]), realbounds=None, hmatrix=H.copy()))
    nfile = os.path.join(tmp, "neighbors.dat")
    write_lists(nfile, [fr["nl"] for fr in frames], "id     cn     neighborlist", lambda x: "%d" % x,
                [fr.get("ord") for fr in frames])
    wfile = None
    if frames[0]["w"]:
        wfile = os.path.join(tmp, "weights.dat")
        write_lists(wfile, [fr["w"] for fr in frames], "id   cn   facearealist", lambda x: "%.6f" % (x * wmul),
                    [fr.get("word") for fr in frames])
    return Snapshots(nsnapshots=len(snaps), snapshots=snaps), nfile, wfile, np.array(case["ppp"]), int(case["nmax"])


# --------------------------------------------------------------------------
# one case: expected terms vs the real boo_3d
# --------------------------------------------------------------------------

class Recorder:
    """Collects the verdicts of one replayed case (same interface as common.Check); merged by the parent."""

    def __init__(self):
        self.oks, self.ties, self.violations, self.extra = [], 0, [], {}

    def ok(self, key=None, nontrivial=True, sample=None):
        self.oks.append((key, nontrivial, sample))

    def tie(self):
        self.ties += 1

    def violation(self, clause, case, finding_key=None):
        self.violations.append((clause, case, finding_key))

    def merge_into(self, chk):
        for key, nontrivial, sample in self.oks:
            chk.ok(key, nontrivial=nontrivial, sample=sample)
        for _ in range(self.ties):
            chk.tie()
        for clause, case, fk in self.violations:
            chk.violation(clause, case, finding_key=fk)
        for k, v in self.extra.items():
            if isinstance(v, int):
                chk.extra[k] = chk.extra.get(k, 0) + v
            else:
                chk.extra.setdefault(k, []).extend(v)


class Ctx:
    def __init__(self, chk, lib, w3j, tier):
        self.chk, self.lib, self.w3j, self.tier = chk, lib, w3j, tier
        self.counter = 0


_WORKER = {}


def _worker_init(tier):
    rec = Recorder()
    lib = load_library(rec)
    _WORKER["lib"], _WORKER["tier"], _WORKER["import_failure"] = lib, tier, rec.violations


def _worker_replay(args):
    case, origin, w3j_l, ordinal = args
    rec = Recorder()
    if _WORKER["lib"] is None:
        rec.violations = list(_WORKER["import_failure"])
        return rec
    ctx = Ctx(rec, _WORKER["lib"], {case["l"]: w3j_l}, _WORKER["tier"])
    ctx.counter = ordinal - 1
    replay_case(ctx, case, origin)
    return rec


def _worker_big(case):
    if _WORKER["lib"] is None:
        return ("violation", "raises:ImportError", {"origin": "scale", "note": "the library could not be imported"})
    return big_crystal(_WORKER["lib"], case)


def _cval(te, v):
    v = te.inexact(v)
    return complex(v)


def _close(o, e, tol=1e-9):
    o, e = complex(o), complex(e)
    if math.isnan(o.real) or math.isnan(o.imag):
        return False
    return abs(o - e) <= tol + tol * abs(e)


def _safe(te, term, env):
    try:
        v = te.inexact(te.ev(term, env))
        return v
    except ZeroDivisionError:
        return float("nan")


def _count_varies(chk, case):
    """evidence against vacuity: in how many replayed multi-frame cases did each frame attribute differ between frames"""
    v = case.get("varies")
    if v and len(case.get("frames", [])) > 1:
        chk.extra["multi_frame_cases"] = chk.extra.get("multi_frame_cases", 0) + 1
        for k2, on in v.items():
            if on:
                chk.extra["varies_" + k2] = chk.extra.get("varies_" + k2, 0) + 1


def define_all(te, case, w3j):
    env = {}
    for name, body in case["macros"]:
        te.define_macro(name, body)
    for tr, term in w3j.get(case["l"], []):
        env[("w3j",) + tuple(tr)] = te.ev(term)
    for name, term in case["defs"]:
        key = tuple(name)
        try:
            env[key] = te.ev(term, env)
        except ZeroDivisionError:           # s_ij with a vanishing |q|: undefined
            env[key] = float("nan")
    return env


def replay_case(ctx, case, origin):
    chk, lib = ctx.chk, ctx.lib
    ctx.counter += 1
    l = case["l"]
    ident = {"origin": origin, "kind": case["kind"], "l": l, "H": case.get("H"), "ppp": case.get("ppp"),
             "nmax": case.get("nmax"), "idx": case.get("idx", case.get("name", case.get("rec")))}
    if case.get("bad"):
        chk.tie()           # exact half-cell tie or coincident particles: bond direction not defined
        return
    te = TermEval()
    env = define_all(te, case, ctx.w3j)
    withw = bool(case["withw"])
    h = ctx.counter + common.SEED
    scale = (1, 4, 2)[h % 3] if case["kind"] != "ref" else (1, 2)[h % 2]
    wmul = (1.0, 0.25, 1.5)[h % 3]
    tmp = common.scratch_dir("verif_c09_")
    try:
        snaps, nfile, wfile, ppp, nmax = render(case, te, tmp, scale, wmul, lib)
        ident["scale"] = scale
        ident["input"] = {"hmatrix": snaps.snapshots[0].hmatrix.tolist(), "hmatrices": [sn.hmatrix.tolist() for sn in snaps.snapshots],
                          "timesteps": [int(t) for t in case["ts"]],
                          "positions": [sn.positions.tolist() for sn in snaps.snapshots],
                          "neighbor_file": open(nfile).read(), "weight_file": open(wfile).read() if wfile else None}
        violated = _replay_rendered(ctx, case, ident, te, env, snaps, nfile, wfile, ppp, nmax, withw, tmp)
    finally:
        shutil.rmtree(tmp, ignore_errors=True)
    if not violated:
        _count_varies(chk, case)
        nontriv = any(len(fr_exp["sij"][i]) > 0 for fr_exp in case["exp"] for i in range(len(fr_exp["sij"])))
        chk.ok((origin, case["kind"], l, json.dumps(ident["idx"], sort_keys=True), json.dumps(case.get("ppp"))),
               nontrivial=nontriv,
               sample={"kind": case["kind"], "l": l, "idx": ident["idx"],
                       "q_l(1)": float(te.inexact(te.ev(case["exp"][0]["ql"][0], env)))})


def big_crystal_apply(chk, verdict):
    kind, clause, detail = verdict
    if kind == "violation":
        chk.violation(clause, detail)
    else:
        chk.ok(("scale", "xtal", detail["l"], detail["edge"]), nontrivial=True)
        chk.extra["big_crystal"] = detail


def big_crystal(lib, case, edge=36):
    """Scale: the fcc crystal of the emitted case in a cell of edge 36 (23 328 sites, 12 neighbours each: 279 936 bonds, beyond
    2^18), built with the shell vectors the specification emitted.  By MC_Boo3D!InvXtalSizeIndependent every site of a crystal of
    any (even) size has the full reference shell, so q_l = Q_l = the reference value for every particle."""
    import itertools
    l = case["l"]
    shell = [tuple(int(x) for x in v) for v in case["shell"]]
    ref = math.sqrt(float(TermEval().ev(case["ql2ref"])))
    sites = [p for p in itertools.product(range(edge), repeat=3) if sum(p) % 2 == 0]
    ident = {"origin": "scale", "kind": "xtal", "name": case["name"], "l": l, "edge": edge, "sites": len(sites), "bonds": len(sites) * len(shell)}
    if case["name"] != "fcc" or len(sites) * len(shell) <= 2 ** 18:
        raise common.MachineryError("big crystal: not the fcc case / not beyond 2^18 bonds")
    who = {p: i + 1 for i, p in enumerate(sites)}
    nl = [[who[tuple((p[c] + v[c]) % edge for c in range(3))] for v in shell] for p in sites]
    tmp = common.scratch_dir("verif_c09_big_")
    try:
        L = np.array([float(edge)] * 3)
        snap = lib["SingleSnapshot"](timestep=0, nparticle=len(sites), particle_type=np.ones(len(sites), dtype=int),
                                     positions=np.array(sites, dtype=float), boxlength=L, boxbounds=np.array([[0.0, x] for x in L]),
                                     realbounds=None, hmatrix=np.diag(L))
        snaps = lib["Snapshots"](nsnapshots=1, snapshots=[snap])
        nfile = os.path.join(tmp, "neighbors.dat")
        write_lists(nfile, [nl], "id     cn     neighborlist", lambda x: "%d" % x)
        try:
            b = lib["boo_3d"](snaps, l, nfile, None, ppp=np.array([1, 1, 1]), Nmax=30)
            out = {"q_l": np.asarray(b.ql_Ql(coarse_graining=False)), "Q_l": np.asarray(b.ql_Ql(coarse_graining=True))}
        except Exception as e:  # noqa
            return ("violation", f"raises:{type(e).__name__}", dict(ident, error=str(e)[:200]))
        for key, arr in out.items():
            arr = arr.reshape(-1)
            bad = np.flatnonzero(~(np.abs(arr - ref) <= 1e-9 + 1e-9 * abs(ref)))
            if arr.shape != (len(sites),) or len(bad):
                i = int(bad[0]) if len(bad) else 0
                return ("violation", "reference:perfect crystal q_l = Q_l = tabulated:scale",
                        dict(ident, quantity=key, particles_differing=int(len(bad)), particle=i + 1, expected=ref,
                             observed=float(arr[i]) if arr.size else None))
        return ("ok", "", ident)
    finally:
        shutil.rmtree(tmp, ignore_errors=True)


def _sampled_out(ctx, case, call):
    """quick tier: the same cost sampling as before the calls became a session (thresholds, coarse w_l, correlations)"""
    if ctx.tier != "quick":
        return False
    m, j = call["m"], call["cj"] - 1
    if m == "sij_ql_Ql":
        return j not in (0, 3) and (ctx.counter + j) % 3 != 0
    if m == "w_W_cap":
        return bool(call["cg"]) and ctx.counter % 2 == 1 and case["kind"] == "cfg"
    if m in ("spatial_corr", "time_corr"):
        return ctx.counter % 2 == 1 and case["kind"] == "cfg"
    return False


def _replay_rendered(ctx, case, ident, te, env, snaps, nfile, wfile, ppp, nmax, withw, tmp):
    """One boo_3d object; the calls of the session the specification selected for this case, in that order.  What a call
    must return is named by the specification (`obs`: fields of the per-frame expectation record) and depends on the
    call alone."""
    chk, lib = ctx.chk, ctx.lib
    boo_3d = lib["boo_3d"]
    l = case["l"]
    F = snaps.nsnapshots
    N = snaps.snapshots[0].nparticle
    exp = case["exp"]
    pos = [0]                                    # position in the session (for the report)
    done = []

    def viol(clause, **kw):
        chk.violation(clause, dict(ident, session_so_far=list(done), **kw))
        return True

    try:
        kw = {}
        if not (list(ppp) == [1, 1, 1] and ctx.counter % 2):       # every other fully periodic case relies on the default mask
            kw["ppp"] = ppp
        if not (nmax == 30 and ctx.counter % 3 == 0):              # ... and on the default Nmax
            kw["Nmax"] = nmax
        b = boo_3d(snaps, l, nfile, wfile, **kw)
        qlm, Qlm = np.asarray(b.smallqlm), np.asarray(b.largeQlm)
    except Exception as e:  # noqa
        return viol(f"raises:{type(e).__name__}", where="boo_3d()", error=str(e)[:200])
    if qlm.shape != (F, N, 2 * l + 1) or Qlm.shape != qlm.shape:
        return viol("qlm:shape", observed=list(qlm.shape))
    qlm0, Qlm0 = qlm.copy(), Qlm.copy()
    n2 = [[float(te.inexact(te.ev(exp[f]["n2"][i], env))) for i in range(N)] for f in range(F)]
    N2 = [[float(te.inexact(te.ev(exp[f]["N2"][i], env))) for i in range(N)] for f in range(F)]
    norms = {"n2": n2, "N2": N2}
    fields = {"qlm": qlm, "Qlm": Qlm}
    comp = case["compose"]

    # ---- q_lm, Q_lm: the constructor's state, and the value of every later call of qlm_Qlm()
    def check_qlm(q, Q, where):
        for f in range(F):
            for i in range(N):
                for k in range(2 * l + 1):
                    e = _cval(te, te.ev(exp[f]["qlm"][i][k], env))
                    if not _close(q[f, i, k], e):
                        return viol("qlm:weighted average of Y_lm over minimum-image bonds", where=where, frame=f, i=i + 1, m=k - l,
                                    expected=[e.real, e.imag], observed=[float(q[f, i, k].real), float(q[f, i, k].imag)])
                    e = _cval(te, te.ev(exp[f]["Qlm"][i][k], env))
                    if not _close(Q[f, i, k], e):
                        return viol("Qlm:coarse-graining (q_i + sum_j q_j)/(1+N_i)", where=where, frame=f, i=i + 1, m=k - l,
                                    expected=[e.real, e.imag], observed=[float(Q[f, i, k].real), float(Q[f, i, k].imag)])
        return False

    if check_qlm(qlm, Qlm, "constructor"):
        return True

    def call_qlm(call):
        try:
            q, Q = b.qlm_Qlm()
            q, Q = np.asarray(q), np.asarray(Q)
        except Exception as e:  # noqa
            return viol(f"raises:{type(e).__name__}", where="qlm_Qlm", error=str(e)[:200])
        if q.shape != (F, N, 2 * l + 1) or Q.shape != q.shape:
            return viol("qlm:shape", where="qlm_Qlm()", observed=list(q.shape))
        return check_qlm(q, Q, "qlm_Qlm()")

    # ---- q_l / Q_l (Y table and addition theorem), bounds, exact values
    def call_ql(call):
        coarse = bool(call["cg"])
        key = call["obs"][0]
        try:
            arr = np.asarray(b.ql_Ql(coarse))
        except Exception as e:  # noqa
            return viol(f"raises:{type(e).__name__}", where="ql_Ql", error=str(e)[:200])
        if arr.shape != (F, N):
            return viol("ql:shape", observed=list(arr.shape))
        for f in range(F):
            for i in range(N):
                e = float(te.inexact(te.ev(exp[f][key][i], env)))
                if not _close(arr[f, i], e):
                    return viol(f"{key}:sqrt(4pi/(2l+1) sum|q_lm|^2)", frame=f, i=i + 1, expected=e, observed=float(arr[f, i]))
                if not (-1e-12 <= arr[f, i] <= 1 + 1e-9):
                    return viol("bounds:0<=q_l<=1", frame=f, i=i + 1, observed=float(arr[f, i]))
                if not coarse:
                    e = complex(te.inexact(te.ev(exp[f]["qladd"][i], env)))
                    if not abs(arr[f, i] ** 2 - (e * e).real) <= 1e-9:     # compared as squares: the sum may cancel to ~0
                        return viol("ql:addition theorem sum_ab w_a w_b P_l(cos gamma_ab)", frame=f, i=i + 1,
                                    expected_squared=(e * e).real, observed=float(arr[f, i]))
            ex = case.get("exact", [None] * F)[f] if case.get("exact") else None
            if ex and ex.get("have"):
                xkey = key + "2"
                for i in range(N):
                    e = float(te.ev(ex[xkey][i]))
                    if not abs(arr[f, i] ** 2 - e) <= 1e-9:
                        return viol(f"{xkey}:exact rational (addition theorem, TLC)", frame=f, i=i + 1, expected=e, observed=float(arr[f, i] ** 2))
        if case["kind"] == "ref" and not coarse and case["tabulated"]["q"]:
            lo, hi = (float(te.ev(x)) for x in case["tabulated"]["q"])
            if not (lo - 1e-9 <= arr[0, 0] <= hi + 1e-9):
                return viol("reference:tabulated q_l", name=case["name"], bracket=[lo, hi], observed=float(arr[0, 0]))
        if case["kind"] == "xtal":
            e = math.sqrt(float(te.ev(case["ql2ref"])))
            for i in range(N):
                if not _close(arr[0, i], e):
                    return viol("reference:perfect crystal q_l = Q_l = tabulated", name=case["name"], i=i + 1, expected=e,
                                coarse=coarse, observed=float(arr[0, i]))
        return False

    # ---- s_ij and thresholded counts
    def call_sij(call):
        coarse = bool(call["cg"])
        key, ckey, nkey = call["obs"]
        nn = norms[nkey]
        j = call["cj"] - 1
        c = float(te.ev(exp[0]["cnt"][j]["c"]))
        csv = os.path.join(tmp, f"cnt_{key}_{j}_{pos[0]}.csv")
        txt = os.path.join(tmp, f"sij_{key}_{j}_{pos[0]}.txt") if (ctx.counter + j) % 2 else None
        try:
            res = b.sij_ql_Ql(coarse_graining=coarse, c=c, outputqlQl=csv, outputsij=txt)
            tab = np.loadtxt(csv, delimiter=",", skiprows=1, ndmin=2)
        except Exception as e:  # noqa
            return viol(f"raises:{type(e).__name__}", where="sij_ql_Ql", coarse=coarse, c=c, error=str(e)[:200])
        rows = np.concatenate([np.asarray(x) for x in res], axis=0) if isinstance(res, list) else np.asarray(res)
        if rows.shape[0] != F * N or tab.shape != (F * N, 3):
            return viol("sij:shape", observed=[list(rows.shape), list(tab.shape)])
        if txt:
            ftab = np.loadtxt(txt, skiprows=1, ndmin=2)
            if ftab.shape != rows.shape or not np.allclose(ftab, rows, atol=2e-6, rtol=0):
                return viol("file:sij text file differs from the returned array", coarse=coarse)
        for f in range(F):
            cnf = exp[f]["cn"]
            for i in range(N):
                r = f * N + i
                if int(rows[r, 0]) != i + 1 or int(rows[r, 1]) != cnf[i] or int(tab[r, 0]) != i + 1 or int(tab[r, 2]) != cnf[i]:
                    return viol("sij:id / coordination columns", frame=f, i=i + 1, expected_cn=cnf[i],
                                observed=[float(rows[r, 0]), float(rows[r, 1]), float(tab[r, 2])])
                nbs = exp[f]["nb"][i]
                defined = nn[f][i] > 1e-12 and all(nn[f][x - 1] > 1e-12 for x in nbs)
                if not defined:
                    chk.extra["undefined_sij_skipped"] = chk.extra.get("undefined_sij_skipped", 0) + 1
                    continue
                for k in range(cnf[i]):
                    e = float(te.inexact(te.ev(exp[f][key][i][k], env)).real)
                    o = float(rows[r, 2 + k])
                    if not abs(o - e) <= TOL32:
                        return viol(f"{key}:Re(q_i.conj q_j)/(|q_i||q_j|)", frame=f, i=i + 1, k=k + 1, j=nbs[k], expected=e, observed=o)
                    if not abs(o) <= 1 + 1e-6:
                        return viol("bounds:|s_ij|<=1", frame=f, i=i + 1, k=k + 1, observed=o)
                te.margin = None
                ec = int(te.ev(exp[f]["cnt"][j][ckey][i], env))
                if te.margin is not None and te.margin < 1e-6:
                    chk.tie()
                    continue
                if int(tab[r, 1]) != ec:
                    return viol(f"count:#{{j : {key} > c}}", frame=f, i=i + 1, c=c, expected=ec, observed=int(tab[r, 1]), cn=cnf[i])
                ex = case.get("exact")[f] if case.get("exact") else None
                if ex and ex.get("have"):
                    xc = ex["cnt"][j]
                    xe, xt = xc[ckey][i], xc[ckey + "tie"][i]
                    if xe >= 0 and not xt and int(tab[r, 1]) != xe:
                        return viol(f"count:exact decision by TLC ({key} > c)", frame=f, i=i + 1, c=c, expected=xe, observed=int(tab[r, 1]))
        return False

    # ---- w_l, w^_l
    def call_w(call):
        coarse = bool(call["cg"])
        kw_, kc, nkey = call["obs"]
        nn = norms[nkey]
        try:
            w, wc = b.w_W_cap(coarse_graining=coarse)
            w, wc = np.asarray(w, dtype=float), np.asarray(wc, dtype=float)
        except Exception as e:  # noqa
            return viol(f"raises:{type(e).__name__}", where="w_W_cap", error=str(e)[:200])
        if w.shape != (F, N):
            return viol("w:shape", observed=list(w.shape))
        for f in range(F):
            for i in range(N):
                e = float(te.inexact(te.ev(exp[f][kw_][i], env)).real)
                if not _close(w[f, i], e, 1e-10):
                    return viol(f"{kw_}:3-j contraction over m1+m2+m3=0", frame=f, i=i + 1, expected=e, observed=float(w[f, i]))
                if nn[f][i] > 1e-10:
                    e = float(te.inexact(te.ev(exp[f][kc][i], env)).real)
                    if not _close(wc[f, i], e, 1e-8):
                        return viol(f"{kc}:w_l/(sum|q_lm|^2)^(3/2)", frame=f, i=i + 1, expected=e, observed=float(wc[f, i]))
        if case["kind"] == "ref" and not coarse and case["tabulated"]["wcap"]:
            lo, hi = (float(te.ev(x)) for x in case["tabulated"]["wcap"])
            if not (lo - 1e-9 <= wc[0, 0] <= hi + 1e-9):
                return viol("reference:tabulated w^_l", name=case["name"], bracket=[lo, hi], observed=float(wc[0, 0]))
        return False

    # ---- correlations by composition with the public conditional_gr / time_correlation on the q_lm the spec confirmed
    rdelta = float(min(s.boxlength.min() for s in snaps.snapshots)) / 2 / 6.5

    def call_spatial(call):
        coarse = bool(call["cg"])
        arr = fields[call["obs"][0]]
        out = os.path.join(tmp, f"gl_{pos[0]}.csv")
        try:
            got = b.spatial_corr(coarse_graining=coarse, rdelta=rdelta, outputfile=out)
            ref = None
            for n, s in enumerate(snaps.snapshots):
                g = getattr(lib["gr_mod"], comp["spatial"]["fn"])(snapshot=s, condition=arr[n],
                                                                  conditiontype=comp["spatial"]["conditiontype"], ppp=ppp, rdelta=rdelta)
                ref = g if ref is None else ref + g
            ref = ref / F
        except Exception as e:  # noqa
            return viol(f"raises:{type(e).__name__}", where="spatial_corr", error=str(e)[:200])
        if list(got.columns) != list(ref.columns) or got.shape != ref.shape or \
                not np.allclose(got.values, ref.values, atol=1e-9, rtol=1e-9, equal_nan=True):
            return viol("spatial_corr:composition mean_f conditional_gr(q_lm[f], 'vector')", coarse=coarse)
        import pandas as pd
        back = pd.read_csv(out)
        if back.shape != got.shape or not np.allclose(back.values, got.values, atol=2e-8, rtol=0, equal_nan=True):
            return viol("file:spatial_corr csv differs from the returned frame", coarse=coarse)
        return False

    def call_time(call):
        coarse = bool(call["cg"])
        arr = fields[call["obs"][0]]
        try:
            dt = 0.002
            gt = b.time_corr(coarse_graining=coarse, dt=dt, outputfile=os.path.join(tmp, f"gt_{pos[0]}.csv"))
            tc = getattr(lib["tc_mod"], comp["time"]["fn"])(snapshots=snaps, condition=arr, dt=dt)
        except Exception as e:  # noqa
            return viol(f"raises:{type(e).__name__}", where="time_corr", error=str(e)[:200])
        col = np.asarray(tc[comp["time"]["column"]], dtype=float) * float(te.inexact(te.ev(comp["time"]["scale"])))
        col = col / col[0]
        if not np.allclose(np.asarray(gt["t"]), np.asarray(tc["t"]), atol=1e-12) or \
                not np.allclose(np.asarray(gt["time_corr"], dtype=float), col, atol=1e-9, rtol=1e-9, equal_nan=True):
            return viol("time_corr:composition time_correlation(q_lm) normalised at lag 0", coarse=coarse)
        return False

    dispatch = {"qlm_Qlm": call_qlm, "ql_Ql": call_ql, "sij_ql_Ql": call_sij, "w_W_cap": call_w,
                "spatial_corr": call_spatial, "time_corr": call_time}
    pairs = chk.extra.setdefault("session_pairs", [])
    prev = None
    for call in case["session"]:
        pos[0] += 1
        if call["m"] not in dispatch:
            raise common.MachineryError(f"session call {call['m']} unknown to the harness")
        if (call["m"] == "w_W_cap" and not withw) or _sampled_out(ctx, case, call):
            continue
        key = f"{call['m']}:{'Q' if call['cg'] else 'q'}"
        tag = key + (f":c{call['cj']}" if call["cj"] else "")
        if dispatch[call["m"]](call):
            return True
        done.append(tag)
        # the object still holds the q_lm / Q_lm its constructor computed (and the arrays handed out are the same objects)
        if not (np.array_equal(np.asarray(b.smallqlm), qlm0, equal_nan=True) and np.array_equal(np.asarray(b.largeQlm), Qlm0, equal_nan=True)):
            return viol("session:a method changed the q_lm / Q_lm held by the object", after=tag)
        if prev is not None and prev + ">" + key not in pairs:
            pairs.append(prev + ">" + key)
        prev = key
    chk.extra["session_calls"] = chk.extra.get("session_calls", 0) + len(done)

    # ---- equal weights reproduce the unweighted result (on the code's own outputs)
    if wfile and case["kind"] == "cfg" and case["idx"].get("wi") == 2:
        try:
            b0 = boo_3d(snaps, l, nfile, None, ppp=ppp, Nmax=nmax)
        except Exception as e:  # noqa
            return viol(f"raises:{type(e).__name__}", where="boo_3d() unweighted", error=str(e)[:200])
        if not np.allclose(b0.smallqlm, qlm, atol=1e-12, rtol=0) or not np.allclose(b0.largeQlm, Qlm, atol=1e-12, rtol=0):
            return viol("equal-weights:differs from the unweighted result")
    # ---- npy / text outputs of ql_Ql and w_W_cap equal the returned arrays
    if ctx.counter % 4 == 0:
        try:
            p = os.path.join(tmp, "ql.dat")
            r = b.ql_Ql(False, outputfile=p)
            if not np.array_equal(np.load(p + ".npy"), r) or not np.allclose(np.loadtxt(p, ndmin=2), r, atol=1e-6):
                return viol("file:ql_Ql output differs from the returned array")
            if withw:
                pw, pc = os.path.join(tmp, "w.txt"), os.path.join(tmp, "wcap.npy")
                w, wc = b.w_W_cap(False, outputw=pw, outputwcap=pc)
                if not np.array_equal(np.load(pw + ".npy"), w) or not np.array_equal(np.load(pc), wc):
                    return viol("file:w_W_cap output differs from the returned arrays")
        except Exception as e:  # noqa
            return viol(f"raises:{type(e).__name__}", where="output files", error=str(e)[:200])
    return False


# --------------------------------------------------------------------------
# direction B: random trajectories with lists from the real writers
# --------------------------------------------------------------------------

def _parse_lists(path, nframes, n, as_weight):
    """-> (per frame the rows filed under their ids, per frame the ids in the order of the lines)"""
    out, orders = [], []
    with open(path) as f:
        for _ in range(nframes):
            f.readline()
            rows, order = [None] * n, []
            for _ in range(n):
                it = f.readline().split()
                vals = it[2:2 + int(it[1])]
                rows[int(it[0]) - 1] = [int(Decimal(x) * 1000000) for x in vals] if as_weight else [int(x) for x in vals]
                order.append(int(it[0]))
            out.append(rows)
            orders.append(order)
    return out, orders


def _shuffle_lines(rng, path, nframes, n):
    """rewrite a neighbour / weight file with the lines of every frame in an order of their own"""
    with open(path) as f:
        lines = f.read().split("\n")
    out, k = [], 0
    for _ in range(nframes):
        out.append(lines[k])
        block = lines[k + 1:k + 1 + n]
        rng.shuffle(block)
        out.extend(block)
        k += n + 1
    with open(path, "w") as f:
        f.write("\n".join(out) + "\n")


def _random_session(rng, nthr=4):
    cat = [("qlm_Qlm", False, 0)]
    for m in ("ql_Ql", "w_W_cap", "spatial_corr", "time_corr"):
        cat += [(m, False, 0), (m, True, 0)]
    cat += [("sij_ql_Ql", cg, j) for cg in (False, True) for j in range(1, nthr + 1)]
    rng.shuffle(cat)
    cat += [rng.choice(cat[:-1]) for _ in range(2)]           # two calls repeated later in the session
    return [{"m": m, "cg": cg, "cj": j} for m, cg, j in cat]


def gen_trajectory(rng, lib, tmp, k):
    """-> (record for TraceBoo3D, context) or None when the lists are unusable (a particle without neighbour)"""
    SingleSnapshot, Snapshots = lib["SingleSnapshot"], lib["Snapshots"]
    S = 10
    kind = ("nnearest", "cutoff", "voronoi")[k % 3]
    if kind == "voronoi" and lib["cal_neighbors"] is None:
        kind = "cutoff"
    N = rng.randint(8, 16) if kind != "voronoi" else rng.randint(14, 22)
    F = rng.choice([1, 1, 2, 3]) if k % 2 else rng.choice([2, 3])
    d = [rng.randint(50, 99) for _ in range(3)]

    def cell(tilted):
        H = [[d[0], 0, 0], [0, d[1], 0], [0, 0, d[2]]]
        if tilted:
            H[1][0] = rng.randint(-d[0] // 2, d[0] // 2)
            H[2][0] = rng.randint(-d[0] // 2, d[0] // 2)
            H[2][1] = rng.randint(-d[1] // 2, d[1] // 2)
        return H

    # the cell of every frame: one cell, or a sheared run (new tilt factors in every frame, edge lengths constant; a frame
    # of a sheared run may be orthogonal).  freud's Voronoi lists are written for the orthogonal cell of the same
    # lengths; boo_3d takes the lists as given.
    tri = rng.random() < 0.6
    sheared = F > 1 and rng.random() < 0.6
    if sheared:
        Hs = [cell(rng.random() < 0.85) for _ in range(F)]
    else:
        Hs = [cell(tri and kind != "voronoi")] * F
    Hw = [cell(False)] * F if kind == "voronoi" else Hs
    ppp = [1, 1, 1] if kind == "voronoi" or rng.random() < 0.5 else [rng.randint(0, 1) for _ in range(3)]
    base = [[rng.randint(0, d[c] - 1) for c in range(3)] for _ in range(N)]
    frames_pos = []
    for f in range(F):
        frames_pos.append([[x + (rng.randint(-4, 4) if f else 0) for x in p] for p in base])
    ts = [0, 10, 20][:F] if rng.random() < 0.6 else [0, 10, 50][:F]
    L = np.array([d[0], d[1], d[2]], dtype=float) / S

    def snapshots(cells):
        return Snapshots(nsnapshots=F, snapshots=[
            SingleSnapshot(timestep=ts[f], nparticle=N, particle_type=np.ones(N, dtype=int),
                           positions=np.array(frames_pos[f], dtype=float) / S, boxlength=L.copy(),
                           boxbounds=np.array([[0.0, x] for x in L]), realbounds=None,
                           hmatrix=np.array(cells[f], dtype=float) / S) for f in range(F)])

    snaps = snapshots(Hs)
    snaps_w = snaps if Hw is Hs else snapshots(Hw)
    nfile = os.path.join(tmp, f"b{k}.neighbor.dat")
    wfile = None
    if kind == "nnearest":
        lib["Nnearests"](snaps_w, N=rng.randint(2, min(12, N - 2)), ppp=np.array(ppp), fnfile=nfile)
    elif kind == "cutoff":
        lib["cutoffneighbors"](snaps_w, r_cut=rng.choice([3.1, 3.7, 4.3]), ppp=np.array(ppp), fnfile=nfile)
    else:
        lib["cal_neighbors"](snaps_w, outputfile=os.path.join(tmp, f"b{k}"))
        wfile = os.path.join(tmp, f"b{k}.facearea.dat")
    if rng.random() < 0.4:              # the reader files every line under its id: any line order, per frame and per file
        _shuffle_lines(rng, nfile, F, N)
        if wfile:
            _shuffle_lines(rng, wfile, F, N)
    nl, ords = _parse_lists(nfile, F, N, False)
    w, words = _parse_lists(wfile, F, N, True) if wfile else (None, None)
    if any(len(r) == 0 for fr in nl for r in fr):
        return None
    if w and any(sum(r) <= 0 for fr in w for r in fr):
        return None
    l = rng.choice([4, 6, 12]) if k % 5 == 0 else rng.randint(2, 12)
    nmax = 30 if rng.random() < 0.8 else rng.randint(2, 6)
    rec = {"deg": l, "H": Hs[0], "ppp": ppp, "nmax": nmax,
           "frames": [{"pos": frames_pos[f], "nl": nl[f], "w": (w[f] if w else []), "H": Hs[f], "ord": ords[f],
                       "word": (words[f] if w else [])} for f in range(F)],
           "calls": _random_session(rng)}
    return rec, {"snaps": snaps, "nfile": nfile, "wfile": wfile, "ts": ts, "kind": kind}


def direction_b(ctx, ntraj):
    chk, lib = ctx.chk, ctx.lib
    rng = random.Random(common.SEED * 15485863 + 9)
    tmp = common.scratch_dir("verif_c09b_")
    try:
        recs, ctxs = [], []
        k = 0
        while len(recs) < ntraj and k < 5 * ntraj:
            try:
                g = gen_trajectory(rng, lib, tmp, k)
            except Exception as e:  # the writers are bound by C05/C20; a failure there is not judged here
                chk.extra.setdefault("writer_failures", []).append(f"{type(e).__name__}: {str(e)[:80]}")
                g = None
            k += 1
            if g is None:
                continue
            rec, c = g
            # the discrete observation: coordination numbers the code reports (third csv column)
            try:
                with np.errstate(all="ignore"):
                    b = lib["boo_3d"](c["snaps"], rec["deg"], c["nfile"], c["wfile"], ppp=np.array(rec["ppp"]), Nmax=rec["nmax"])
                csv = os.path.join(tmp, "cn.csv")
                b.sij_ql_Ql(outputqlQl=csv)
                tab = np.loadtxt(csv, delimiter=",", skiprows=1, ndmin=2)
                n = len(rec["frames"][0]["pos"])
                rec["cn"] = [[int(tab[f * n + i, 2]) for i in range(n)] for f in range(len(rec["frames"]))]
            except Exception as e:  # noqa
                chk.violation(f"raises:{type(e).__name__}", {"origin": "B", "record": {kk: rec[kk] for kk in ("deg", "H", "ppp", "nmax")},
                                                               "lists": c["kind"], "error": str(e)[:200]})
                continue
            recs.append(rec)
            ctxs.append(c)
        if not recs:
            raise common.MachineryError("direction B produced no usable trajectory")
        res, rejects = common.validate_trace_all("TraceBoo3D", recs, timeout=3000)
        chk.add_tlc(res, "TraceBoo3D")
        rejected = {i for i, _ in rejects}
        for i, clause in rejects:
            chk.violation("trace:" + clause, {"origin": "B", "record": recs[i], "lists": ctxs[i]["kind"]})
        # the printed cases carry `rec` = index within the validated chunk; re-number in order of appearance
        cases = [c for c in res.cases if c.get("kind") == "trace"]
        accepted = [i for i in range(len(recs)) if i not in rejected]
        if rejects:
            # the trace was rejected (violations recorded above); after a rejection the validator restarts on the
            # remainder and the printed cases can no longer be attributed record by record: the term
            # comparison of this tier's direction-B trajectories is not carried out in this run
            chk.extra["direction_B"] = {"trajectories": len(recs), "rejected_records": sorted(rejected)}
            return
        if len(cases) != len(accepted):
            raise common.MachineryError(f"TraceBoo3D printed {len(cases)} cases for {len(accepted)} accepted records")
        for case, i in zip(cases, accepted):
            rec, c = recs[i], ctxs[i]
            case.update(H=rec["H"], ppp=rec["ppp"], nmax=rec["nmax"], frames=rec["frames"], ts=c["ts"],
                        idx={"rec": i, "lists": c["kind"], "N": len(rec["frames"][0]["pos"]), "frames": len(rec["frames"])})
            replay_trace_case(ctx, case, c)
        chk.extra["direction_B"] = {"trajectories": len(recs), "lists": {k2: sum(1 for c in ctxs if c["kind"] == k2)
                                                                       for k2 in ("nnearest", "cutoff", "voronoi")}}
    finally:
        shutil.rmtree(tmp, ignore_errors=True)


def replay_trace_case(ctx, case, c):
    """like replay_case, but against the very files and Snapshots the writers produced"""
    chk = ctx.chk
    ctx.counter += 1
    ident = {"origin": "B", "kind": "trace", "l": case["l"], "H": case["H"], "ppp": case["ppp"], "nmax": case["nmax"],
             "idx": case["idx"], "frames": case["frames"]}
    if case.get("bad"):
        chk.tie()
        if case.get("outside"):
            chk.extra["outside_domain_skipped"] = chk.extra.get("outside_domain_skipped", 0) + 1
        return
    te = TermEval()
    env = define_all(te, case, ctx.w3j)
    ident["input"] = {"hmatrix": c["snaps"].snapshots[0].hmatrix.tolist(),
                      "hmatrices": [sn.hmatrix.tolist() for sn in c["snaps"].snapshots], "timesteps": [int(t) for t in c["ts"]],
                      "positions": [sn.positions.tolist() for sn in c["snaps"].snapshots],
                      "neighbor_file": open(c["nfile"]).read(), "weight_file": open(c["wfile"]).read() if c["wfile"] else None}
    del ident["frames"]
    tmp = common.scratch_dir("verif_c09_")
    try:
        violated = _replay_rendered(ctx, case, ident, te, env, c["snaps"], c["nfile"], c["wfile"], np.array(case["ppp"]),
                                    int(case["nmax"]), bool(case["withw"]), tmp)
    finally:
        shutil.rmtree(tmp, ignore_errors=True)
    if not violated:
        _count_varies(chk, case)
        chk.ok(("B", case["idx"]["rec"], case["l"]), sample=None)


# --------------------------------------------------------------------------

def load_library(chk):
    try:
        common.import_lib()
        from PyMatterSim.static.boo import boo_3d
        from PyMatterSim.static import gr as gr_mod
        from PyMatterSim.dynamic import time_corr as tc_mod
        from PyMatterSim.reader.reader_utils import SingleSnapshot, Snapshots
        from PyMatterSim.neighbors.calculate_neighbors import Nnearests, cutoffneighbors
        try:
            from PyMatterSim.neighbors.freud_neighbors import cal_neighbors
        except Exception:  # freud missing: Voronoi lists are then not exercised
            cal_neighbors = None
    except common.MachineryError:
        raise
    except Exception as e:
        chk.violation(f"import:{type(e).__name__}", {"module": "PyMatterSim.static.boo", "error": str(e)[:300]},
                      finding_key="import boo")
        return None
    return dict(boo_3d=boo_3d, gr_mod=gr_mod, tc_mod=tc_mod, SingleSnapshot=SingleSnapshot, Snapshots=Snapshots,
                Nnearests=Nnearests, cutoffneighbors=cutoffneighbors, cal_neighbors=cal_neighbors)


def run(tier, replay=None):
    chk = Check("C09", tier)
    chk.rule = ("TLC (MC_Boo3D): reference environments sc/fcc/bcc/hcp/ico (tabulated q4,q6 bracketed by exact rationals), periodic "
                "crystals through the minimum image, small integer configurations (cells incl. triclinic, all masks, 4 list "
                "topologies, weights none/equal/unequal, 1-3 frames whose positions, cell (sheared: tilts change at constant edge lengths), "
                "lists / padded width, weights and file line orders differ per frame, Nmax truncation); exact scope decides "
                "bounds and thresholded counts. Every case is a session on ONE boo_3d object: qlm_Qlm, ql_Ql, sij_ql_Ql (4 thresholds), "
                "w_W_cap (l <= 6 and l = 12), spatial_corr, time_corr with both coarse_graining flags in an order the spec selects "
                "(two calls repeated), each call judged by its arguments alone. A: emitted cases (terms for q_lm, Q_lm, q_l twice, s_ij, counts, w_l, w^_l) replayed "
                "into boo_3d at several length scales; B: seeded random trajectories with lists from Nnearests / cutoffneighbors / "
                "freud Voronoi, validated and expanded by TraceBoo3D. Correlations by composition with conditional_gr / "
                "time_correlation. distinct_nontrivial = cases with at least one bond pair compared.")
    chk.assumptions = ["float comparison 1e-9 (s_ij: 3e-7, the code stores it in float32) of values the spec states as terms",
                       "thresholded counts are skipped (tie) when some s_ij is within 1e-6 of c; s_ij and w^_l are not judged where |q| = 0",
                       "spatial_corr / time_corr are checked by composition with conditional_gr / time_correlation (C13 / C14)",
                       "frames with an exact half-cell tie or coincident particles are flagged by the spec and skipped"]
    lib = load_library(chk)
    if lib is None:
        return chk.finish()
    w3j = {}
    ctx = Ctx(chk, lib, w3j, tier)

    if replay:
        rp = common.load_replay(replay)
        c = rp["case"]
        print("clause:", rp["clause"])
        print(json.dumps({k: v for k, v in c.items() if k not in ("input", "frames", "record")}, indent=1))
        inp = c.get("input")
        if inp:
            tmp = common.scratch_dir("verif_c09r_")
            try:
                Hms = [np.array(h) for h in inp.get("hmatrices", [inp["hmatrix"]] * len(inp["positions"]))]
                L = np.abs(np.diag(Hms[0]))
                sn = [lib["SingleSnapshot"](timestep=t, nparticle=len(p), particle_type=np.ones(len(p), dtype=int), positions=np.array(p),
                                            boxlength=L, boxbounds=np.array([[0.0, x] for x in L]), realbounds=None, hmatrix=Hm)
                      for t, p, Hm in zip(inp["timesteps"], inp["positions"], Hms)]
                print("session up to the violation:", c.get("session_so_far"))
                nf, wf = os.path.join(tmp, "n.dat"), None
                open(nf, "w").write(inp["neighbor_file"])
                if inp["weight_file"]:
                    wf = os.path.join(tmp, "w.dat")
                    open(wf, "w").write(inp["weight_file"])
                b = lib["boo_3d"](lib["Snapshots"](nsnapshots=len(sn), snapshots=sn), c["l"], nf, wf, ppp=np.array(c["ppp"]), Nmax=c["nmax"])
                print("observed now: q_l =", np.asarray(b.ql_Ql(False)).tolist())
                print("observed now: Q_l =", np.asarray(b.ql_Ql(True)).tolist())
                for cc in (0.7, 0.5, 0.0, -0.5):
                    csv = os.path.join(tmp, "c.csv")
                    b.sij_ql_Ql(c=cc, outputqlQl=csv)
                    print(f"observed now: counts(c={cc}) =", np.loadtxt(csv, delimiter=",", skiprows=1, ndmin=2)[:, 1].astype(int).tolist())
            finally:
                shutil.rmtree(tmp, ignore_errors=True)
        return 0

    import multiprocessing as mp
    pool = cf.ProcessPoolExecutor(max_workers=max(2, min(common.JOBS, 16) // 2), mp_context=mp.get_context("spawn"),
                                  initializer=_worker_init, initargs=(tier,))
    pending_cases, futures, ordinal = [], [], [0]

    def submit(label, cases):
        for c in cases:
            ordinal[0] += 1
            futures.append(pool.submit(_worker_replay, (c, label, w3j.get(c["l"], []), ordinal[0])))

    big = []

    def on_result(label, r):
        chk.add_tlc(r, label)
        if label == "w3j":
            for c in r.cases:
                if c.get("kind") == "w3j":
                    w3j[c["l"]] = c["terms"]
            for lab, cases in pending_cases:
                submit(lab, cases)
            pending_cases.clear()
        elif label.endswith("gen"):
            cases = [c for c in r.cases if c.get("kind") in ("ref", "xtal", "cfg")]
            if not cases:
                raise common.MachineryError(f"{label}: no cases emitted")
            cases.sort(key=lambda c: json.dumps([c["l"], c.get("idx", c.get("name"))], sort_keys=True))
            for c in cases:
                if c.get("kind") == "xtal" and c.get("name") == "fcc" and c["l"] == 6 and not big:
                    big.append(pool.submit(_worker_big, c))      # scale: one job of the replay pool
            chk.extra.setdefault("cases_emitted", {})[label] = len(cases)
            if not w3j:
                pending_cases.append((label, cases))
            else:
                submit(label, cases)

    try:
        run_plan(tlc_plan(tier), on_result)
        chk.exhaustive = True
        if lib["cal_neighbors"] is None:
            chk.assumptions.append("freud not importable: Voronoi lists not exercised in direction B")
        direction_b(ctx, 15 if tier == "quick" else 60)       # runs in this process while the pool replays direction A
        if not big:
            raise common.MachineryError("no fcc crystal case with l = 6 was emitted")
        big_crystal_apply(chk, big[0].result(timeout=3000))    # scale (see big_crystal)
        for fu in futures:
            fu.result().merge_into(chk)
        pairs = set(chk.extra.pop("session_pairs", []))
        chk.extra["session_adjacent_pairs_distinct"] = len(pairs)       # of 11 x 11 (method, flag) ordered pairs
        chk.extra["session_pairs_flag_switch"] = len([p for p in pairs if p.split(">")[0][-1] != p[-1]])
    finally:
        pool.shutdown(wait=True, cancel_futures=True)
    return chk.finish()
