#!/usr/bin/env python3
"""Regenerates the seeded-change table of DESIGN.md (between the SEEDED-TABLE markers) from
seeded/*/meta.json and the self-test results evidence/selftest/S<id>.json."""
import json, os, re
V = os.path.dirname(os.path.dirname(os.path.abspath(__file__)))
rows = ["| seeded | property | change | needs | caught by (quick) | clause |", "|---|---|---|---|---|---|"]
sd = os.path.join(V, "seeded")
n = caught = 0
for d in sorted(os.listdir(sd)) if os.path.isdir(sd) else []:
    mp = os.path.join(sd, d, "meta.json")
    if not os.path.exists(mp):
        continue
    m = json.load(open(mp))
    n += 1
    rp = os.path.join(V, "evidence", "selftest", "S" + d + ".json")
    by, clause = "not run", ""
    if os.path.exists(rp):
        r = json.load(open(rp))
        hit = [k for k, v in r["checks"].items() if v["exit"] == 1]
        by = ", ".join(hit) if hit else "MISSED (" + ", ".join(f"{k}: exit {v['exit']}" for k, v in r["checks"].items()) + ")"
        caught += bool(hit)
        cl = [c.replace("clause:", "").strip() for k in hit for c in r["checks"][k]["clauses"][:1]]
        clause = "; ".join(cl)
    esc = lambda t: (t or "").replace("|", "/").replace("\n", " ")
    rows.append(f"| {d} | {m['property']} | {esc(m.get('summary'))[:230]} | {esc(m.get('needs'))[:200]} | {by} | {esc(clause)[:80]} |")
rows.append("")
rows.append(f"{n} seeded changes confirmed, {caught} caught by the quick check of the property they break.")
p = os.path.join(V, "DESIGN.md")
s = open(p).read()
s = re.sub(r"<!-- SEEDED-TABLE-BEGIN -->.*<!-- SEEDED-TABLE-END -->",
           "<!-- SEEDED-TABLE-BEGIN -->\n" + "\n".join(rows).replace("\\", "\\\\") + "\n<!-- SEEDED-TABLE-END -->", s, flags=re.S)
open(p, "w").write(s)
print(n, "seeded,", caught, "caught")
