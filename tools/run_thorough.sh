#!/bin/sh
# tools/run_thorough.sh Cxx ... : run the thorough tier of the given checks one after the other with evidence redirected
# (VERIF_OUT), one summary line per check.  Meant for `vp run` (background health check of the thorough commands).
cd "$(dirname "$0")/.." || exit 2
O=${VERIF_OUT:-/tmp/thorough_out}
mkdir -p "$O"
for p in "$@"; do
  s=$(date +%s)
  out=$(VERIF_OUT=$O ./check $p thorough 2>&1); e=$?
  echo "$p thorough exit=$e wall=$(( $(date +%s) - s ))s $(echo "$out" | grep -v WARNING | tail -1 | cut -c1-200)"
  [ $e -ne 0 ] && echo "$out" | grep "VIOLATION\|MACHINERY\|clause" | head -5
done
