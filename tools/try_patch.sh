#!/bin/sh
# tools/try_patch.sh <patch.diff> <Cxx> [tier]: run a check against a scratch copy of /repo with the patch applied
P=$(realpath "$1"); C=$2; T=${3:-quick}
D=$(mktemp -d /tmp/verif_try_XXXXXX)
mkdir -p $D/src $D/out
cp -r /repo/PyMatterSim $D/src/ ; cp -r /repo/tests $D/src/ 2>/dev/null
( cd $D/src && patch -p1 -s < "$P" ) || { echo "patch failed"; rm -rf $D; exit 2; }
PYMATTERSIM_SRC=$D/src VERIF_OUT=$D/out PYTHONDONTWRITEBYTECODE=1 /verif/check $C $T > $D/log 2>&1
rc=$?
echo "== $P $C exit=$rc"; grep -m3 "clause:" $D/log; tail -2 $D/log
rm -rf $D
exit $rc
