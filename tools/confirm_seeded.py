#!/usr/bin/env python3
"""Confirm a seeded change delivered by an independent sub-agent and file it under /verif/seeded/<id>/.

  tools/confirm_seeded.py <dir with patch.diff demo.py notes.json> <id> [--no-suite]

In a scratch worktree of /repo's HEAD (outside /repo and /verif, removed afterwards):
  1. the demonstration exits 0 on the pristine tree,
  2. the patch applies (git apply) and the package still imports,
  3. the demonstration exits non-zero with the patch,
  4. the repository's whole test suite (BASELINE.json command) still passes every test of the stable baseline.
Only then is seeded/<id>/{patch.diff, demo.py, meta.json} written.
"""
import json
import os
import shutil
import subprocess
import sys

VERIF = os.path.dirname(os.path.dirname(os.path.abspath(__file__)))
PY = "/venv/bin/python"


def sh(cmd, **kw):
    return subprocess.run(cmd, capture_output=True, text=True, **kw)


def main():
    src, sid = sys.argv[1], sys.argv[2]
    suite = "--no-suite" not in sys.argv
    notes = json.load(open(os.path.join(src, "notes.json")))
    wt = f"/tmp/confirm/{sid}"
    os.makedirs("/tmp/confirm", exist_ok=True)
    sh(["git", "-C", "/repo", "worktree", "remove", "--force", wt])
    r = sh(["git", "-C", "/repo", "worktree", "add", "-q", "--detach", wt, "HEAD"])
    if r.returncode:
        print("worktree failed", r.stderr)
        return 2
    env = dict(os.environ, SRC=wt, PYTHONPATH=wt, OMP_NUM_THREADS="1", OPENBLAS_NUM_THREADS="1", PYTHONDONTWRITEBYTECODE="1")
    ran = {}
    try:
        demo = os.path.join(src, "demo.py")
        p0 = sh([PY, demo], env=env, cwd="/tmp/confirm", timeout=1800)
        ran["demo_pristine_exit"] = p0.returncode
        if p0.returncode != 0:
            print(f"{sid}: REJECT demo fails on the pristine tree\n{p0.stdout[-800:]}{p0.stderr[-800:]}")
            return 1
        a = sh(["git", "-C", wt, "apply", os.path.abspath(os.path.join(src, "patch.diff"))])
        if a.returncode:
            # /repo has moved on since the change was written (later fix: commits): re-apply with fuzz; the patch that is
            # filed is then regenerated against the current HEAD
            a2 = sh(["patch", "-p1", "-s", "--fuzz=3", "-d", wt, "-i", os.path.abspath(os.path.join(src, "patch.diff"))])
            if a2.returncode:
                print(f"{sid}: REJECT patch does not apply: {a.stderr} {a2.stdout}")
                return 1
            for root, _, files in os.walk(wt):
                for fn in files:
                    if fn.endswith((".orig", ".rej")):
                        os.remove(os.path.join(root, fn))
            ran["rebased_on_head"] = True
        regenerated = sh(["git", "-C", wt, "diff"]).stdout
        imp = sh([PY, "-c", "import PyMatterSim, pkgutil, importlib\n"
                  "import PyMatterSim.static.gr, PyMatterSim.static.sq, PyMatterSim.static.boo, PyMatterSim.dynamic.dynamics\n"
                  "print(PyMatterSim.static.gr.__file__)"], env=env, cwd=wt)
        if imp.returncode or not imp.stdout.strip().startswith(wt):
            print(f"{sid}: REJECT import failed / wrong tree: {imp.stdout} {imp.stderr[-500:]}")
            return 1
        p1 = sh([PY, demo], env=env, cwd="/tmp/confirm", timeout=1800)
        ran["demo_patched_exit"] = p1.returncode
        ran["demo_patched_tail"] = (p1.stdout + p1.stderr)[-600:]
        if p1.returncode == 0:
            print(f"{sid}: REJECT demo passes with the patch")
            return 1
        if suite:
            base = json.load(open("/root/.vp/BASELINE.json"))
            sys.path.insert(0, os.path.join(VERIF, "tools"))
            import run_suite
            # the whole suite (every test file), run as parallel partitions of test files, each in its own copy of the tree
            passed, _failed = run_suite.run_suite(wt, serial="--serial" in sys.argv)
            head = json.load(open(os.path.join(VERIF, "tools", "head_pass.json")))["passed"]
            missing = sorted((set(base["stable_pass"]) | set(head)) - passed)
            ran["suite"] = {"passed": len(passed), "baseline": len(base["stable_pass"]), "passing_on_repaired_head": len(head),
                            "baseline_or_head_tests_not_passing": missing}
            if missing:
                print(f"{sid}: REJECT suite: baseline tests no longer pass: {missing}")
                return 1
        dst = os.path.join(VERIF, "seeded", sid)
        os.makedirs(dst, exist_ok=True)
        with open(os.path.join(dst, "patch.diff"), "w") as f:
            f.write(regenerated)
        shutil.copy(demo, os.path.join(dst, "demo.py"))
        meta = {"property": notes.get("property", sid.split("_")[0]), "summary": notes.get("summary"), "needs": notes.get("needs"),
                "author": "independent sub-agent given only the property text and a scratch worktree",
                "author_tests_run": notes.get("tests_run"),
                "confirmed": dict(ran, repo_head=sh(["git", "-C", "/repo", "rev-parse", "HEAD"]).stdout.strip(),
                                  how="tools/confirm_seeded.py: scratch worktree of /repo HEAD; demo exits 0 pristine, "
                                      "non-zero patched; full pytest suite (BASELINE.json command) on the patched tree "
                                      "passes all 75 baseline tests and all 94 tests that pass on the repaired HEAD" if suite else "demo only"),
                "checks": [notes.get("property", sid.split("_")[0])]}
        json.dump(meta, open(os.path.join(dst, "meta.json"), "w"), indent=1)
        print(f"{sid}: CONFIRMED {ran.get('suite')}")
        return 0
    finally:
        sh(["git", "-C", "/repo", "worktree", "remove", "--force", wt])
        shutil.rmtree(wt, ignore_errors=True)


if __name__ == "__main__":
    sys.exit(main())
