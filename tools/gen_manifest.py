#!/usr/bin/env python3
"""Regenerates MANIFEST.json.

manifest/<Cxx>.json  : {"technique", "text", "note", "ref"} written next to each check
manifest/claimed.txt : ids whose quick check passes on the current tree (one per line)
manifest/not_applicable.json : optional {"Cxx": "reason"} for properties deliberately not claimed
"""
import json, os
V = os.path.dirname(os.path.dirname(os.path.abspath(__file__)))
M = os.path.join(V, "manifest")


def main():
    props = [json.loads(l) for l in open(os.path.join(V, "properties.jsonl"))]
    claimed = [l.strip() for l in open(os.path.join(M, "claimed.txt")) if l.strip() and not l.startswith("#")]
    na_reasons = {}
    p = os.path.join(M, "not_applicable.json")
    if os.path.exists(p):
        na_reasons = json.load(open(p))
    hooks_p = os.path.join(M, "hooks.json")
    hook_commits = json.load(open(hooks_p)) if os.path.exists(hooks_p) else []
    checks, na = [], []
    for pr in props:
        pid = pr["id"]
        if pid in claimed:
            c = json.load(open(os.path.join(M, pid + ".json")))
            checks.append({
                "property_id": pid,
                "quick_cmd": f"./check {pid} quick",
                "thorough_cmd": f"./check {pid} thorough",
                "evidence_file": f"/verif/evidence/{pid}.json",
                "replay_cmd_template": f"./check {pid} --replay {{path}}",
                "engine": "tlc+harness",
                "level_claimed": {"category": c.get("category", "model_checking"), "text": c["text"],
                                  "design_ref": "DESIGN.md section " + c["ref"]},
                "level_note": c["note"],
                "technique": c["technique"],
            })
        else:
            na.append({"property_id": pid, "reason": na_reasons.get(
                pid, "check not finished in this session (planned with the TLA+ specification, DESIGN.md section 5); "
                     "not claimed until its quick command passes on the current tree")})
    man = {
        "version": 1,
        "setup_cmd": "./setup.sh",
        "hooks": {
            "guard": "PYMATTERSIM_VERIF",
            "enable": "no source hooks: the library is sequential and every abstract state is observable through the public API; checks import the working tree from PYMATTERSIM_SRC (default /repo) and set PYMATTERSIM_VERIF=1",
            "baseline_off_cmd": "cd /repo && /venv/bin/python -m pytest -ra -q -p no:cacheprovider --timeout=900 --continue-on-collection-errors",
            "source_commits": hook_commits,
            "add_only": True,
        },
        "engines": [
            {"name": "tlc+harness", "path": "/verif/check", "serves_properties": sorted(claimed),
             "kind_free_text": "TLA+ specification under /verif/spec model-checked with TLC 1.8 (sharded), TLC-emitted cases replayed into the real library and traces recorded from the library validated by Trace*.tla specs; Python harness under /verif/harness"},
        ],
        "checks": checks,
        "not_applicable": na,
        "notes": "See DESIGN.md. ./selftest runs curated mutants/refactors (mutants/*.json) and the seeded changes (seeded/*/) against the checks. Growth beyond the listed properties (not claimed property checks): `./check X01 quick|thorough` (spec/Geometry.tla, spec/Misc.tla: utils/geometry.py, utils/funcs.py, utils/fft.py, packing_capability_2d; design_notes/X01.md) and `./check X02 quick|thorough` (spec/VoroPP.tla, VoroHist.tla, WaveExtra.tla: the voro++ pipeline cal_voro / voronowalls with voro++ as an environment component, indicehis, wavevector2d/3d, continuousvector; design_notes/X02.md). Unbounded integer lemmas (spec/MinImageLemma.tla, BinLemma.tla, GridIndexLemma.tla) are discharged by Apalache inside the C02, C03, C01 and C16 checks.",
    }
    json.dump(man, open(os.path.join(V, "MANIFEST.json"), "w"), indent=1)
    print(len(checks), "checks,", len(na), "not claimed")


if __name__ == "__main__":
    main()
