#!/usr/bin/env python3
"""Regenerates MANIFEST.json from the table below (run after adding a check)."""
import json, os
V = os.path.dirname(os.path.dirname(os.path.abspath(__file__)))

CHECKS = {
 "C02": dict(
   technique="TLA+ spec Cell.tla (exact rational minimum image with tie sets); TLC checks the six clauses as invariants over all (cell, mask, displacement) in scope; TLC-emitted cases replayed into remove_pbc; recorded calls validated by TraceCell.tla",
   text="Exhaustive model checking of the C02 clauses on the specification within the stated scope (2-D/3-D, orthogonal and triclinic cells with tilts of either sign, all masks, integer displacement grids), plus conformance in both directions: every emitted (cell, mask) case replayed into the real remove_pbc at three length scales, and seeded random decimal cells recorded from the real code and accepted or rejected record by record by the trace specification.",
   note="Trusts TLC, numpy's float arithmetic at 1e-9 for values the spec gives exactly, and the harness abstraction (r - w) H^-1 -> integers. Exact half-cell ties accept either image.",
   ref="5 C02"),
}

NOT_YET = {}

def main():
    props = [json.loads(l) for l in open(os.path.join(V, "properties.jsonl"))]
    checks = []
    na = []
    for p in props:
        pid = p["id"]
        if pid in CHECKS:
            c = CHECKS[pid]
            checks.append({
                "property_id": pid,
                "quick_cmd": f"./check {pid} quick",
                "thorough_cmd": f"./check {pid} thorough",
                "evidence_file": f"/verif/evidence/{pid}.json",
                "replay_cmd_template": f"./check {pid} --replay {{path}}",
                "engine": "tlc+harness",
                "level_claimed": {"category": "model_checking", "text": c["text"], "design_ref": "DESIGN.md section " + c["ref"]},
                "level_note": c["note"],
                "technique": c["technique"],
            })
        else:
            na.append({"property_id": pid, "reason": NOT_YET.get(pid, "check not built yet in this session (planned with the TLA+ specification, see DESIGN.md section 5); not claimed until its quick command passes")})
    man = {
        "version": 1,
        "setup_cmd": "./setup.sh",
        "hooks": {
            "guard": "PYMATTERSIM_VERIF",
            "enable": "no source hooks: the library is sequential and every abstract state is observable through the public API; checks import the working tree from PYMATTERSIM_SRC (default /repo) and set PYMATTERSIM_VERIF=1",
            "baseline_off_cmd": "cd /repo && /venv/bin/python -m pytest -ra -q -p no:cacheprovider --timeout=900 --continue-on-collection-errors",
            "source_commits": [],
            "add_only": True,
        },
        "engines": [
            {"name": "tlc+harness", "path": "/verif/check", "serves_properties": sorted(CHECKS),
             "kind_free_text": "TLA+ specification under /verif/spec model-checked with TLC 1.8 (sharded), TLC-emitted cases replayed into the real library and traces recorded from the library validated by Trace*.tla specs; Python harness under /verif/harness"},
        ],
        "checks": checks,
        "not_applicable": na,
        "notes": "See DESIGN.md. ./selftest runs curated mutants/refactors and the seeded changes against the checks.",
    }
    json.dump(man, open(os.path.join(V, "MANIFEST.json"), "w"), indent=1)
    print(len(checks), "checks,", len(na), "not claimed")

if __name__ == "__main__":
    main()
