#!/usr/bin/env python3
"""Run the repository's whole test suite on a source tree, in parallel partitions.

  tools/run_suite.py <tree> [--serial]   ->  prints JSON {"passed": [...], "failed": [...]}

The suite is the BASELINE.json command (pytest over the whole tree).  Test files share scratch
file names in the working directory, so pytest-xdist on one tree makes tests interfere; instead the
tree is copied once per partition (outside /repo and /verif, removed afterwards) and each partition
of test *files* runs serially in its own copy.  Every test file is run; the union of the junit
results is the result of the suite.  --serial runs the literal baseline command in the tree itself.
"""
import concurrent.futures as cf
import json
import os
import shutil
import subprocess
import sys
import tempfile
import xml.etree.ElementTree as ET

PY = "/venv/bin/python"
HEAVY = [["tests/static/boo_test.py"],
         ["tests/static/gr_test.py", "tests/static/sq_test.py", "tests/static/geometric_test.py"],
         ["tests/static/pairentropy_test.py", "tests/dynamics", "tests/utils", "tests/static/vector_test.py"],
         ["tests/static/nematic_test.py", "tests/neighbors"]]


def junit(xml):
    passed, failed = set(), set()
    for tc in ET.parse(xml).getroot().iter("testcase"):
        name = f"{tc.get('classname')}::{tc.get('name')}"
        (failed if any(ch.tag in ("failure", "error", "skipped") for ch in tc) else passed).add(name)
    return passed, failed


def run_part(tree, targets, tag):
    tmp = tempfile.mkdtemp(prefix=f"verif_suite_{tag}_")
    try:
        cp = os.path.join(tmp, "t")
        shutil.copytree(tree, cp, ignore=shutil.ignore_patterns(".git", "__pycache__"))
        xml = os.path.join(tmp, "r.xml")
        env = dict(os.environ, PYTHONPATH=cp, OMP_NUM_THREADS="1", OPENBLAS_NUM_THREADS="1", PYTHONDONTWRITEBYTECODE="1")
        subprocess.run([PY, "-m", "pytest", "-ra", "-q", "-p", "no:cacheprovider", "--timeout=900",
                        "--continue-on-collection-errors", f"--junitxml={xml}"] + targets,
                       env=env, cwd=cp, capture_output=True, text=True, timeout=7200)
        return junit(xml)
    finally:
        shutil.rmtree(tmp, ignore_errors=True)


def all_test_files(tree):
    out = []
    for root, _, files in os.walk(os.path.join(tree, "tests")):
        for fn in files:
            if fn.endswith("_test.py") or (fn.startswith("test_") and fn.endswith(".py")):
                out.append(os.path.relpath(os.path.join(root, fn), tree))
    return sorted(out)


def run_suite(tree, serial=False):
    tree = os.path.abspath(tree)
    if serial:
        return run_part(tree, [], "serial")
    files = all_test_files(tree)
    parts, covered = [], set()
    for grp in HEAVY:
        mine = [f for f in files if any(f == g or f.startswith(g.rstrip("/") + "/") for g in grp) and f not in covered]
        covered |= set(mine)
        parts.append(mine)
    rest = [f for f in files if f not in covered]
    parts[-1] += rest            # every test file runs in exactly one partition
    passed, failed = set(), set()
    with cf.ThreadPoolExecutor(len(parts)) as ex:
        for p, f in ex.map(lambda a: run_part(tree, a[1], str(a[0])), list(enumerate(parts))):
            passed |= p
            failed |= f
    return passed, failed


if __name__ == "__main__":
    p, f = run_suite(sys.argv[1], "--serial" in sys.argv)
    print(json.dumps({"passed": sorted(p), "failed": sorted(f)}, indent=1))
