#!/bin/sh
# Runs the repository's pinned baseline (guard off) and reports whether the 75 stable tests pass.
# usage: tools/baseline.sh [outfile]
out=${1:-/tmp/verif_baseline.txt}
cd /repo || exit 2
env -u PYMATTERSIM_VERIF /venv/bin/python -m pytest -ra -q -p no:cacheprovider --timeout=900 \
   --continue-on-collection-errors --junitxml=/tmp/verif_baseline.junit.xml >"$out" 2>&1
/venv/bin/python - <<'EOF'
import json, xml.etree.ElementTree as ET
base = json.load(open('/root/.vp/BASELINE.json'))
want = set(base['stable_pass'])
got = {}
for tc in ET.parse('/tmp/verif_baseline.junit.xml').getroot().iter('testcase'):
    name = f"{tc.get('classname')}::{tc.get('name')}"
    ok = not any(ch.tag in ('failure', 'error', 'skipped') for ch in tc)
    got[name] = ok
missing = sorted(n for n in want if not got.get(n))
print(f"baseline: {sum(1 for n in want if got.get(n))}/{len(want)} stable tests pass")
for m in missing:
    print("  NOT PASSING:", m)
extra = sorted(n for n, ok in got.items() if ok and n not in want)
print("  additionally passing:", len(extra))
EOF
