#!/usr/bin/env python3
"""Systematic mutation sweep over the code the properties are anchored in (self-assessment of the checks).

  tools/mutation_sweep.py [--per N] [--par K] [--jobs J] [--seed S] [--out DIR] [Cxx ...]

For every property, the line ranges named in its anchors (properties.jsonl: mechanism[].where) are parsed with
`ast`; single-token mutations are generated inside them (comparison operators, + <-> -, * <-> /, integer and float
constants, `and` <-> `or`, True <-> False, unary minus dropped, .real <-> .imag, conj dropped, rint <-> floor,
`axis=0` <-> `axis=1`, sum <-> mean, abs dropped).  A seeded sample of N mutants per property is applied, one at a
time, to a scratch copy of /repo/PyMatterSim (outside /repo and /verif, removed afterwards) and the property's QUICK
check is run against it.  Result per mutant: killed (exit 1), survived (exit 0), machinery (exit 2).

Survivors are NOT automatically holes: many single-token mutants are equivalent (dead code, logging, a tie
decision, an assertion message) or change behaviour only outside the property's domain.  The list is triaged by
hand; real holes become curated mutants (mutants/*.json) after the check has been strengthened.
"""
import ast
import concurrent.futures as cf
import json
import os
import random
import re
import shutil
import subprocess
import sys
import tempfile
import time

VERIF = os.path.dirname(os.path.dirname(os.path.abspath(__file__)))
REPO = os.environ.get("SWEEP_REPO", "/repo")


def ranges_of(prop):
    """{relative file: [(lo, hi), ...]} from the anchors of a property"""
    a = prop.get("anchors") or prop.get("anchor") or {}
    files = {os.path.basename(f): f for f in a.get("files", [])}
    out = {}
    for m in a.get("mechanism", []):
        cur = None
        for part in re.split(r"[;,]", m["where"]):
            mm = re.search(r"([A-Za-z_]+\.py)", part)
            if mm:
                cur = files.get(mm.group(1))
                if cur is None:
                    hits = [os.path.join(dp, mm.group(1)) for dp, _, fs in os.walk(os.path.join(REPO, "PyMatterSim")) if mm.group(1) in fs]
                    cur = os.path.relpath(hits[0], REPO) if hits else None
            for lo, hi in re.findall(r"L(\d+)(?:-(\d+))?", part):
                if cur:
                    out.setdefault(cur, []).append((int(lo), int(hi or lo)))
            if mm and not re.search(r"L\d+", part):
                # a function named without lines: take the whole function
                fn = re.search(r"\.py:([A-Za-z_\.]+)", part)
                if fn and cur:
                    out.setdefault(cur, []).append(("fn", fn.group(1).split(".")[-1]))
    return out


def function_ranges(tree, name):
    return [(n.lineno, n.end_lineno) for n in ast.walk(tree) if isinstance(n, (ast.FunctionDef, ast.ClassDef)) and n.name == name]


CMP = {ast.Lt: "<=", ast.LtE: "<", ast.Gt: ">=", ast.GtE: ">", ast.Eq: "!=", ast.NotEq: "=="}
BIN = {ast.Add: "-", ast.Sub: "+", ast.Mult: "/", ast.Div: "*"}
NAMES = {"rint": "floor", "floor": "rint", "sum": "mean", "mean": "sum", "real": "imag", "imag": "real", "min": "max", "max": "min",
         "argmin": "argmax", "cos": "sin", "sin": "cos", "arccos": "arcsin"}


def mutants_of(path, spans):
    src = open(path).read()
    lines = src.split("\n")
    tree = ast.parse(src)
    rs = []
    for sp in spans:
        if sp[0] == "fn":
            rs += function_ranges(tree, sp[1])
        else:
            # widen a line range to the innermost enclosing function (the pinned line numbers drifted with the fix: commits)
            rs.append(sp)
            for n in ast.walk(tree):
                if isinstance(n, ast.FunctionDef) and n.lineno <= sp[0] <= n.end_lineno:
                    rs.append((n.lineno, n.end_lineno))
    inside = lambda n: any(lo <= n.lineno <= hi for lo, hi in rs)
    off = [0]
    for ln in lines:
        off.append(off[-1] + len(ln) + 1)
    pos = lambda l, c: off[l - 1] + len(lines[l - 1].encode()[:c].decode(errors="ignore"))
    out = []

    def rep(a, b, new, what):
        out.append({"a": a, "b": b, "new": new, "what": what})

    docstrings = set()
    for n in ast.walk(tree):
        if isinstance(n, (ast.FunctionDef, ast.ClassDef, ast.Module)) and n.body and isinstance(n.body[0], ast.Expr) \
                and isinstance(getattr(n.body[0], "value", None), ast.Constant) and isinstance(n.body[0].value.value, str):
            docstrings.add(id(n.body[0].value))
    logcalls = set()
    for n in ast.walk(tree):
        if isinstance(n, ast.Call) and isinstance(n.func, ast.Attribute) and isinstance(n.func.value, ast.Name) and n.func.value.id == "logger":
            for m in ast.walk(n):
                logcalls.add(id(m))
    for n in ast.walk(tree):
        if not hasattr(n, "lineno") or not inside(n) or id(n) in logcalls:
            continue
        if isinstance(n, ast.Compare) and len(n.ops) == 1 and type(n.ops[0]) in CMP:
            a, b = pos(n.left.end_lineno, n.left.end_col_offset), pos(n.comparators[0].lineno, n.comparators[0].col_offset)
            rep(a, b, " " + CMP[type(n.ops[0])] + " ", f"L{n.lineno} compare -> {CMP[type(n.ops[0])]}")
        elif isinstance(n, ast.BinOp) and type(n.op) in BIN:
            if isinstance(n.left, ast.Constant) and isinstance(n.left.value, str):
                continue
            a, b = pos(n.left.end_lineno, n.left.end_col_offset), pos(n.right.lineno, n.right.col_offset)
            seg = src[a:b]
            if seg.count("(") or seg.count(")"):
                continue
            rep(a, b, " " + BIN[type(n.op)] + " ", f"L{n.lineno} binop -> {BIN[type(n.op)]}")
        elif isinstance(n, ast.Constant) and id(n) not in docstrings and isinstance(n.value, (int, float)) and not isinstance(n.value, bool):
            a, b = pos(n.lineno, n.col_offset), pos(n.end_lineno, n.end_col_offset)
            v = n.value
            new = repr(v + 1) if isinstance(v, int) else repr(v * 2 if v else 1.0)
            rep(a, b, new, f"L{n.lineno} const {v!r} -> {new}")
            if isinstance(v, int) and v > 0:
                rep(a, b, repr(v - 1), f"L{n.lineno} const {v!r} -> {v - 1}")
        elif isinstance(n, ast.Constant) and isinstance(n.value, bool):
            a, b = pos(n.lineno, n.col_offset), pos(n.end_lineno, n.end_col_offset)
            rep(a, b, repr(not n.value), f"L{n.lineno} bool -> {not n.value}")
        elif isinstance(n, ast.BoolOp):
            a, b = pos(n.values[0].end_lineno, n.values[0].end_col_offset), pos(n.values[1].lineno, n.values[1].col_offset)
            new = " or " if isinstance(n.op, ast.And) else " and "
            if "(" not in src[a:b] and ")" not in src[a:b]:
                rep(a, b, new, f"L{n.lineno} boolop ->{new}")
        elif isinstance(n, ast.UnaryOp) and isinstance(n.op, ast.USub) and not isinstance(n.operand, ast.Constant):
            a = pos(n.lineno, n.col_offset)
            rep(a, a + 1, "", f"L{n.lineno} unary minus dropped")
        elif isinstance(n, ast.Attribute) and n.attr in NAMES:
            b = pos(n.end_lineno, n.end_col_offset)
            a = b - len(n.attr)
            rep(a, b, NAMES[n.attr], f"L{n.lineno} .{n.attr} -> .{NAMES[n.attr]}")
        elif isinstance(n, ast.Call) and isinstance(n.func, ast.Attribute) and n.func.attr in ("conj", "abs", "conjugate") and len(n.args) == 1:
            a, b = pos(n.lineno, n.col_offset), pos(n.end_lineno, n.end_col_offset)
            arg = n.args[0]
            rep(a, b, "(" + src[pos(arg.lineno, arg.col_offset):pos(arg.end_lineno, arg.end_col_offset)] + ")", f"L{n.lineno} {n.func.attr}() dropped")
        elif isinstance(n, ast.keyword) and n.arg == "axis" and isinstance(n.value, ast.Constant) and n.value.value in (0, 1):
            pass            # covered by the constant mutation
    # de-duplicate by (a, b, new); check that each mutant still parses
    seen, good = set(), []
    for m in out:
        k = (m["a"], m["b"], m["new"])
        if k in seen:
            continue
        seen.add(k)
        new_src = src[:m["a"]] + m["new"] + src[m["b"]:]
        try:
            ast.parse(new_src)
        except SyntaxError:
            continue
        m["src"] = new_src
        m["line"] = src.count("\n", 0, m["a"]) + 1
        m["old_line"] = lines[m["line"] - 1].strip()
        m["new_line"] = new_src.split("\n")[m["line"] - 1].strip()
        good.append(m)
    return good


def run_one(job):
    pid, rel, m, jobs, tag = job
    tmp = tempfile.mkdtemp(prefix="verif_sweep_")
    try:
        src = os.path.join(tmp, "src")
        os.makedirs(src)
        shutil.copytree(os.path.join(REPO, "PyMatterSim"), os.path.join(src, "PyMatterSim"), ignore=shutil.ignore_patterns("__pycache__"))
        shutil.copytree(os.path.join(REPO, "tests"), os.path.join(src, "tests"), ignore=shutil.ignore_patterns("__pycache__"))
        with open(os.path.join(src, rel), "w") as f:
            f.write(m["src"])
        out = os.path.join(tmp, "out")
        os.makedirs(out)
        env = dict(os.environ, PYMATTERSIM_SRC=src, VERIF_OUT=out, PYTHONDONTWRITEBYTECODE="1", VERIF_JOBS=str(jobs))
        t0 = time.time()
        try:
            p = subprocess.run([os.path.join(VERIF, "check"), pid, "quick"], env=env, capture_output=True, text=True, timeout=3600)
            rc, so = p.returncode, p.stdout
        except subprocess.TimeoutExpired:
            rc, so = 2, "TIMEOUT"
        clause = next((l.strip() for l in so.splitlines() if l.startswith("  clause:")), "")
        return {"property": pid, "file": rel, "line": m["line"], "what": m["what"], "old": m["old_line"], "new": m["new_line"],
                "exit": rc, "clause": clause, "wall_s": round(time.time() - t0, 1), "tail": so[-300:] if rc == 2 else "", "tag": tag}
    finally:
        shutil.rmtree(tmp, ignore_errors=True)


def main(argv):
    per, par, jobs, seed, outdir = 8, 3, 5, 0, os.path.join(VERIF, "evidence", "sweep")
    ids = []
    i = 0
    while i < len(argv):
        if argv[i] == "--per":
            per = int(argv[i + 1]); i += 2
        elif argv[i] == "--par":
            par = int(argv[i + 1]); i += 2
        elif argv[i] == "--jobs":
            jobs = int(argv[i + 1]); i += 2
        elif argv[i] == "--seed":
            seed = int(argv[i + 1]); i += 2
        elif argv[i] == "--out":
            outdir = argv[i + 1]; i += 2
        else:
            ids.append(argv[i]); i += 1
    props = [json.loads(l) for l in open(os.path.join(VERIF, "properties.jsonl"))]
    todo = []
    for p in props:
        if ids and p["id"] not in ids:
            continue
        rng = random.Random(seed * 1000 + int(p["id"][1:]))
        allm = []
        for rel, spans in sorted(ranges_of(p).items()):
            path = os.path.join(REPO, rel)
            if os.path.exists(path):
                allm += [(rel, m) for m in mutants_of(path, spans)]
        rng.shuffle(allm)
        print(f"{p['id']}: {len(allm)} candidate mutants in the anchored code, {min(per, len(allm))} sampled", flush=True)
        todo += [(p["id"], rel, m, jobs, f"seed{seed}") for rel, m in allm[:per]]
    os.makedirs(outdir, exist_ok=True)
    res = []
    with cf.ThreadPoolExecutor(max_workers=par) as ex:
        for r in ex.map(run_one, todo):
            res.append(r)
            print(json.dumps(r), flush=True)
            with open(os.path.join(outdir, f"sweep_seed{seed}.jsonl"), "a") as f:
                f.write(json.dumps(r) + "\n")
    k = sum(r["exit"] == 1 for r in res)
    s = sum(r["exit"] == 0 for r in res)
    print(f"{len(res)} mutants: {k} killed, {s} survived, {len(res) - k - s} machinery")


if __name__ == "__main__":
    main(sys.argv[1:])
