#!/bin/sh
# tools/run_all.sh [tier] : run every claimed check of MANIFEST.json in /verif (writes evidence/), one line per check
cd "$(dirname "$0")/.." || exit 2
T=${1:-quick}
rc=0
for p in $(python3 -c "import json;print(' '.join(c['property_id'] for c in json.load(open('MANIFEST.json'))['checks']))"); do
  out=$(./check $p $T 2>&1); e=$?
  echo "$p exit=$e $(echo "$out" | grep -v WARNING | tail -1)"
  [ $e -ne 0 ] && { rc=1; echo "$out" | grep "VIOLATION\|MACHINERY" | head -3; }
done
exit $rc
