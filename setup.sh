#!/bin/sh
# Offline setup: verify tools, parse every specification module with SANY.
cd "$(dirname "$0")" || exit 1
set -e
java -version 2>&1 | head -1
/venv/bin/python -c "import numpy, scipy, pandas, sympy, mpmath; print('python deps ok')"
cd spec
fail=0
for f in *.tla; do
  if ! java -cp /opt/veriftools/tla/tla2tools.jar:/opt/veriftools/tla/CommunityModules-deps.jar tla2sany.SANY "$f" >/tmp/verif_sany.$$ 2>&1; then
    echo "SANY failed on $f"; cat /tmp/verif_sany.$$; fail=1
  elif grep -q "Fatal errors\|\*\*\* Errors" /tmp/verif_sany.$$; then
    echo "SANY errors in $f"; cat /tmp/verif_sany.$$; fail=1
  fi
done
rm -f /tmp/verif_sany.$$
[ $fail = 0 ] && echo "all specification modules parse"
exit $fail
