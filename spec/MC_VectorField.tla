-------------------------- MODULE MC_VectorField --------------------------
(***************************************************************************)
(* Models of property C15.  One state = one input `c` of one of five       *)
(* sub-models (constant Model):                                            *)
(*   "prq"     participation ratio, local alignment, phase quotient        *)
(*   "divcurl" divergence / curl (periodic, triclinic, open; linear u=A r) *)
(*   "vib"     vibrability                                                 *)
(*   "decomp"  Fourier longitudinal / transverse split, all q in {-2..2}^d *)
(*   "corr"    multi-frame vector_fft_corr (composition with C14)          *)
(* The clauses of the property are the Inv* invariants (checked on every   *)
(* state); with Gen = TRUE every state also prints its case (input and     *)
(* exact expectation) for replay into PyMatterSim.static.vector.           *)
(***************************************************************************)
EXTENDS VectorField, TLC, Json

CONSTANTS Tier,      \* "quick" | "thorough"
          Model,
          Gen,
          SHARD, NSHARDS

VARIABLES c
vars == <<c>>

Thorough == Tier = "thorough"

\* ---- deterministic pseudo-random integers (no RandomElement: cases must be reproducible)
Hh(a, b, k) == (a * 7919 + b * 104729 + k * 1299709 + a * b * 31 + b * k * 17 + a * k * 13 + 12345) % 10007
Rnd(seed, i, k, lo, hi) == lo + (Hh(seed, i, k) % (hi - lo + 1))
Pick(seed, salt, s) == s[1 + (Hh(seed, salt, 7) % Len(s))]

RndField(seed, n, d, amp) == [i \in 1..n |-> [k \in 1..d |-> Rnd(seed, i, k, 0 - amp, amp)]]

\* ---- neighbour-list families (abstract inputs: id -> sequence of distinct other ids)
Others(n, i)     == SelectSeq([j \in 1..n |-> j], LAMBDA j : j # i)
RevSeq(s)        == [k \in 1..Len(s) |-> s[Len(s) + 1 - k]]
NLAll(n)         == [i \in 1..n |-> Others(n, i)]
NLNext(n)        == [i \in 1..n |-> << (i % n) + 1 >>]
NLRing(n)        == [i \in 1..n |-> IF n = 2 THEN << 3 - i >> ELSE << (i % n) + 1, ((i + n - 2) % n) + 1 >>]
NLRevVar(n)      == [i \in 1..n |-> IF i = 1 THEN << n >> ELSE RevSeq(Others(n, i))]
\* pseudo-random: j listed iff the hash says so (never empty), in hash order (reversed for odd i)
NLRnd(seed, n)   ==
  [i \in 1..n |->
     LET o   == Others(n, i)
         sel == SelectSeq(o, LAMBDA j : (Hh(seed, i, j) % 3) # 0)
         s   == IF sel = << >> THEN << o[1 + (Hh(seed, i, 0) % Len(o))] >> ELSE sel
     IN  IF Hh(seed, i, 99) % 2 = 0 THEN s ELSE RevSeq(s)]
NLFam(n) == {NLAll(n), NLNext(n), NLRing(n), NLRevVar(n)}
NLPick(seed, n) == LET r == Hh(seed, 3, 5) % 6 IN
                   IF r = 0 THEN NLAll(n) ELSE IF r = 1 THEN NLRing(n)
                   ELSE IF r = 2 THEN NLRevVar(n) ELSE NLRnd(seed, n)

KeyOfField(e) == SumSeq([i \in 1..Len(e) |-> SumSeq([k \in 1..Len(e[i]) |-> (e[i][k] + 5) * (3 * i + k)])])

\* ---- cells (odd diagonal entries: integer positions never sit on a half-cell tie)
Tri2(a, t, b) == << <<a, 0>>, <<t, b>> >>
Tri3(a, b, cc, xy, xz, yz) == << <<a, 0, 0>>, <<xy, b, 0>>, <<xz, yz, cc>> >>
Cells2 == << Tri2(5, 0, 7), Tri2(7, 2, 5), Tri2(9, 0 - 3, 7), Tri2(7, 0, 7) >>
Cells3 == << Tri3(5, 7, 9, 0, 0, 0), Tri3(7, 5, 7, 2, 0 - 1, 3), Tri3(9, 7, 5, 0 - 4, 2, 0 - 2), Tri3(5, 5, 5, 0, 0, 0) >>
MaskBits(x, d)  == [k \in 1..d |-> (x \div IPow(2, k - 1)) % 2]

(***************************************************************************)
(* scopes                                                                  *)
(***************************************************************************)
NSeeds == IF Model = "prq"     THEN (IF Thorough THEN 6000 ELSE 900)
          ELSE IF Model = "divcurl" THEN (IF Thorough THEN 5000 ELSE 500)
          ELSE IF Model = "vib"     THEN (IF Thorough THEN 3000 ELSE 400)
          ELSE IF Model = "decomp"  THEN (IF Thorough THEN 1500 ELSE 126)
          ELSE (IF Thorough THEN 1500 ELSE 120)

\* --- prq
\* row order of the neighbour file: a permutation of the ids (identity for half of the cases)
IdOrder(n)        == [k \in 1..n |-> k]
RndOrder(seed, n) == IF Hh(seed, 8, 8) % 2 = 0 THEN IdOrder(n) ELSE PermByKey(LAMBDA i : Hh(seed, i, 55) % 512, n)
ExhOrder(e)       == LET k == KeyOfField(e) % 3 IN
                     IF k = 0 THEN IdOrder(Len(e)) ELSE IF k = 1 THEN RevSeq(IdOrder(Len(e)))
                     ELSE [i \in 1..Len(e) |-> (i % Len(e)) + 1]
PrqExh ==
  { [id |-> 0, d |-> 2, S |-> 1, e |-> e, nl |-> NLAll(2), order |-> ExhOrder(e)] :
       e \in [1..2 -> [1..2 -> (0 - 2)..2]] }
  \cup
  { [id |-> 0, d |-> 2, S |-> 1, e |-> e, nl |-> nl, order |-> ExhOrder(e)] :
       e \in [1..3 -> [1..2 -> (0 - 1)..1]], nl \in NLFam(3) }
  \cup (IF Thorough THEN
  { [id |-> 0, d |-> 3, S |-> 1, e |-> e, nl |-> nl, order |-> ExhOrder(e)] :
       e \in [1..3 -> [1..3 -> (0 - 1)..1]], nl \in {NLRing(3), NLRevVar(3)} } ELSE {})
PrqRnd ==
  { LET d == 2 + (seed % 2)
        n == 3 + (Hh(seed, 1, 1) % 3)
    IN  [id |-> seed, d |-> d, S |-> Pick(seed, 2, <<1, 2, 10>>),
         e |-> RndField(seed, n, d, 3), nl |-> NLPick(seed, n), order |-> RndOrder(seed, n)] : seed \in 1..NSeeds }
PrqScope == {x \in PrqExh \cup PrqRnd : PRDefined(x.e)}

\* --- divcurl
ShellPos(d, a, c0) ==      \* centre c0 and the 2d points c0 +- a e_k
  [i \in 1..(2 * d + 1) |->
     IF i = 1 THEN c0
     ELSE LET k == (i - 2) \div 2 + 1  sg == IF (i - 2) % 2 = 0 THEN 1 ELSE 0 - 1
          IN  [x \in 1..d |-> c0[x] + (IF x = k THEN sg * a ELSE 0)]]
ShellNL(d) == [i \in 1..(2 * d + 1) |-> IF i = 1 THEN [k \in 1..(2 * d) |-> k + 1] ELSE << 1 >>]
RndMat(seed, d, amp) == [a \in 1..d |-> [b \in 1..d |-> Rnd(seed, 20 + a, b, 0 - amp, amp)]]
DcRnd ==
  { LET d   == 2 + (seed % 2)
        n   == 3 + (Hh(seed, 1, 1) % 3)
        H   == IF d = 2 THEN Pick(seed, 3, Cells2) ELSE Pick(seed, 3, Cells3)
        ppp == MaskBits(Hh(seed, 4, 4), d)
        pos == [i \in 1..n |-> [k \in 1..d |-> Rnd(seed, 40 + i, k, 0 - 6, 14)]]
    IN  [id |-> seed, d |-> d, H |-> H, ppp |-> ppp, S |-> Pick(seed, 5, <<1, 2, 4>>), SU |-> Pick(seed, 6, <<1, 2>>),
         pos |-> pos, u |-> RndField(seed, n, d, 3), nl |-> NLPick(seed, n), A |-> << >>, order |-> RndOrder(seed, n)] : seed \in 1..NSeeds }
\* linear fields u = A r, open boundaries
DcLinShell2 ==
  { LET pos == ShellPos(2, a, <<2, 0 - 1>>) IN
    [id |-> 0, d |-> 2, H |-> Tri2(7, 0, 7), ppp |-> <<0, 0>>, S |-> 1, SU |-> 1, pos |-> pos,
     u |-> LinearField(A, pos), nl |-> ShellNL(2), A |-> A,
     order |-> (IF (A[1][1] + A[2][2] + a) % 2 = 0 THEN IdOrder(5) ELSE RevSeq(IdOrder(5)))] :
      A \in [1..2 -> [1..2 -> (0 - 1)..1]], a \in {1, 2} }
DcLinShell3 ==
  { LET A == RndMat(seed, 3, 2)  pos == ShellPos(3, 1 + (seed % 2), <<1, 0 - 2, 3>>) IN
    [id |-> seed, d |-> 3, H |-> Tri3(9, 9, 9, 0, 0, 0), ppp |-> <<0, 0, 0>>, S |-> 1, SU |-> 1, pos |-> pos,
     u |-> LinearField(A, pos), nl |-> ShellNL(3), A |-> A, order |-> RndOrder(seed, 7)] : seed \in 1..(IF Thorough THEN 1500 ELSE 150) }
DcLinRnd ==
  { LET d == 2 + (seed % 2)
        n == 3 + (Hh(seed, 1, 1) % 3)
        A == RndMat(seed, d, 2)
        pos == [i \in 1..n |-> [k \in 1..d |-> Rnd(seed, 40 + i, k, 0 - 4, 4)]]
    IN  [id |-> seed, d |-> d, H |-> (IF d = 2 THEN Tri2(9, 2, 7) ELSE Tri3(9, 7, 5, 0 - 4, 2, 0 - 2)),
         ppp |-> Zero(d), S |-> Pick(seed, 5, <<1, 2>>), SU |-> 1, pos |-> pos,
         u |-> LinearField(A, pos), nl |-> NLPick(seed, n), A |-> A, order |-> RndOrder(seed, n)] : seed \in 1..(IF Thorough THEN 1500 ELSE 150) }
DcScope == DcRnd \cup DcLinShell2 \cup DcLinShell3 \cup DcLinRnd

\* --- vib (frequency entries of either sign: all positive, all negative, mixed)
OmSign(seed, l) == LET k == Hh(seed, 5, 5) % 4 IN
                   IF k = 0 THEN 1 ELSE IF k = 1 THEN 0 - 1 ELSE 1 - 2 * (Hh(seed, 61, l) % 2)
VibScope ==
  { LET d  == 2 + (seed % 2)
        n  == 1 + (Hh(seed, 1, 1) % 4)
        nm == Pick(seed, 2, << 1, Max2(1, d * n - d), d * n >>)
    IN  [id |-> seed, d |-> d, n |-> n, S |-> Pick(seed, 3, <<1, 2, 5>>), SO |-> Pick(seed, 4, <<1, 2>>),
         om |-> [l \in 1..nm |-> OmSign(seed, l) * Rnd(seed, 60, l, 1, 4)],
         ev |-> [r \in 1..(d * n) |-> [l \in 1..nm |-> Rnd(seed, 70 + r, l, 0 - 3, 3)]]] : seed \in 1..NSeeds }

\* --- decomp (boxes with unequal edge lengths, quarter-box lattice positions m L / 4 with m in -4..7:
\* particles inside the box, in the neighbouring images and on the faces)
Boxes2 == << <<4, 8>>, <<3, 5>>, <<6, 4>>, <<5, 5>>, <<8, 2>> >>
Boxes3 == << <<4, 6, 8>>, <<4, 4, 8>>, <<8, 4, 6>>, <<6, 6, 6>>, <<2, 4, 8>> >>
DecompScope ==
  { LET d == IF seed % 6 = 0 THEN 3 ELSE 2      \* 124 wave vectors per 3-D case, 24 per 2-D case
        n == 1 + (Hh(seed, 1, 1) % (IF d = 2 THEN 5 ELSE 4))
    IN  [id |-> seed, d |-> d, L |-> (IF d = 2 THEN Pick(seed, 2, Boxes2) ELSE Pick(seed, 2, Boxes3)),
         S |-> Pick(seed, 3, <<1, 2>>),
         m |-> [i \in 1..n |-> [k \in 1..d |-> Rnd(seed, 80 + i, k, 0 - 4, 7)]],     \* unwrapped: also outside the box
         e |-> RndField(seed, n, d, IF d = 2 THEN 3 ELSE 2)] : seed \in 1..NSeeds }

\* --- corr
CorrQs2 == << <<1, 0>>, <<0, 1>>, <<0, 2>>, <<1, 1>>, <<2, 0 - 1>>, <<0 - 2, 2>> >>
CorrQs3 == << <<1, 0, 0>>, <<0, 0, 2>>, <<0, 1, 1>>, <<1, 0 - 1, 2>>, <<2, 0, 0 - 1>> >>
TimeAxes == << <<0>>, <<5, 6>>, <<0, 10, 20>>, <<0, 1, 3>>, <<100, 110, 120, 130>>, <<0, 10, 30, 70>>, <<0, 2, 4, 5>>, <<7, 9, 11>> >>
CorrScope ==
  { LET d  == IF seed % 3 = 0 THEN 3 ELSE 2
        n  == 1 + (Hh(seed, 1, 1) % 3)
        ts == Pick(seed, 4, TimeAxes)
    IN  [id |-> seed, d |-> d, L |-> (IF d = 2 THEN Pick(seed, 2, <<<<4, 8>>, <<8, 4>>, <<4, 4>>, <<2, 8>>>>)
                                             ELSE Pick(seed, 2, <<<<4, 4, 8>>, <<8, 4, 4>>, <<2, 4, 8>>>>)),
         S |-> Pick(seed, 3, <<1, 2>>), ts |-> ts, dtn |-> Pick(seed, 5, <<1, 1, 3>>), dtd |-> Pick(seed, 5, <<500, 1, 4>>),
         qs |-> (IF d = 2 THEN CorrQs2 ELSE CorrQs3),
         fr |-> [f \in 1..Len(ts) |->
                   [m |-> [i \in 1..n |-> [k \in 1..d |-> Rnd(seed, 100 * f + i, k, 0 - 4, 7)]],
                    e |-> RndField(seed + 17 * f, n, d, 2)]]] : seed \in 1..NSeeds }

Scope == IF Model = "prq" THEN PrqScope
         ELSE IF Model = "divcurl" THEN DcScope
         ELSE IF Model = "vib" THEN VibScope
         ELSE IF Model = "decomp" THEN DecompScope
         ELSE CorrScope

\* shard key: a cheap integer function of the input
Key(x) == x.id + (IF Model = "prq" THEN KeyOfField(x.e) + Len(x.nl[1])
                  ELSE IF Model = "divcurl" THEN KeyOfField(x.u) + x.pos[2][1]
                  ELSE 0)

Init == /\ c \in Scope
        /\ Key(c) % NSHARDS = SHARD
Next == UNCHANGED vars
Spec == Init /\ [][Next]_vars

(***************************************************************************)
(* the clauses of C15 as invariants                                        *)
(***************************************************************************)
IsM(m) == Model = m
N0 == IF IsM("prq") THEN Len(c.e) ELSE IF IsM("divcurl") THEN Len(c.pos) ELSE IF IsM("vib") THEN c.n
      ELSE IF IsM("decomp") THEN Len(c.e) ELSE Len(c.fr[1].e)

InvPRInRange        == IsM("prq") => PRInRange(c.e)
InvPRScaleInvariant == IsM("prq") => PRScaleInvariant(c.e, {0 - 2, 0 - 1, 2, 3})
InvPRExtremes       == IsM("prq") => PRExtremes(c.e)
InvPQInRange        == IsM("prq") => PQInRange(c.e, c.nl)
InvPQExtremes       == IsM("prq") => PQExtremes(c.e, c.nl)
InvAlignUniform     == IsM("prq") => AlignUniform(c.e, c.nl, c.S)

InvNoTie            == IsM("divcurl") => ~PairTie(c.H, c.ppp, c.pos, c.nl)
InvFastImage        == IsM("divcurl") => \A j \in 2..Len(c.pos) : VfFastIsMinImage(c.H, VSub(c.pos[j], c.pos[1]), c.ppp)
InvLinearField      == (IsM("divcurl") /\ c.A # << >>) => LinearFieldHasAnalyticDivCurl(c.A, c.H, c.pos, c.nl)
InvDivCurlShift     == IsM("divcurl") =>
                         DivCurlShiftInvariant(c.H, c.ppp, c.pos, c.u, c.nl,
                                               [k \in 1..c.d |-> 2 * k - 3], [k \in 1..c.d |-> 4 - k])

InvVibSumRule       == IsM("vib") => VibSumRule(c.ev, c.om, c.d, c.n, c.S, c.SO)
InvVibFreqScaling   == IsM("vib") => VibFreqScaling(c.ev, c.om, c.d, c.n, c.S, c.SO)
InvVibSignInvariant == IsM("vib") => VibSignInvariant(c.ev, c.om, c.d, c.n, c.S, c.SO)
InvVibIsLiteral     == IsM("vib") => VibIsLiteral(c.ev, c.om, c.d, c.n, c.S, c.SO)
\* the row order of the neighbour file is not part of the input
InvRowOrder         == (IsM("prq") \/ IsM("divcurl")) => RowOrderIrrelevant(c.nl, c.order)

DQs == AllQ(c.d, 2)
InvLParallelQ   == IsM("decomp") => \A x \in 1..Len(DQs) : LongitudinalParallelToQ(DQs[x], c.L, GField(DQs[x], c.m, c.e))
InvTOrthogonalQ == IsM("decomp") => \A x \in 1..Len(DQs) : TransverseOrthogonalToQ(DQs[x], c.L, GField(DQs[x], c.m, c.e))
InvPartsAddUp   == IsM("decomp") => \A x \in 1..Len(DQs) : PartsAddUp(DQs[x], c.L, GField(DQs[x], c.m, c.e))
InvSqSplits     == IsM("decomp") => \A x \in 1..Len(DQs) : SqSplits(DQs[x], c.L, GField(DQs[x], c.m, c.e), Len(c.e), c.S)
InvMinusQ       == IsM("decomp") => \A x \in 1..Len(DQs) : MinusQConjugate(DQs[x], c.L, c.m, c.e)

\* corr: the three transformed series per wave vector, numerators over W2
XF(q) == [f \in 1..Len(c.ts) |-> LET G == GField(q, c.fr[f].m, c.fr[f].e) IN [k \in 1..c.d |-> GScale(W2(q, c.L), G[k])]]
XL(q) == [f \in 1..Len(c.ts) |-> LNum(q, c.L, GField(q, c.fr[f].m, c.fr[f].e))]
XT(q) == [f \in 1..Len(c.ts) |-> TNum(q, c.L, GField(q, c.fr[f].m, c.fr[f].e))]
\* the unnormalised correlation of the full transform is the sum of the L and T ones
\* (L(t) is parallel and T(t') orthogonal to the same real q), and the lag-0 value is 1
InvCorrSplits == IsM("corr") =>
  \A x \in 1..Len(c.qs) : \A k \in 0..(Len(c.ts) - 1) :
     CorrRaw(XF(c.qs[x]), c.ts, k) = RAdd(CorrRaw(XL(c.qs[x]), c.ts, k), CorrRaw(XT(c.qs[x]), c.ts, k))
InvCorrLagZero == IsM("corr") =>
  \A x \in 1..Len(c.qs) : CorrDefined(XL(c.qs[x]), c.ts) => Corr(XL(c.qs[x]), c.ts, 0) = <<1, 1>>

(***************************************************************************)
(* emission (direction A)                                                  *)
(***************************************************************************)
QRs(s) == [x \in 1..Len(s) |-> QR(s[x])]
GTerm(g, den) == Cplx(Q(g[1], den), Q(g[2], den))      \* Gaussian rational as a term
RootN(n, S) == Mul2(Sqrt(I(n)), I(S))                   \* sqrt(N) * S

CasePrq ==
  [ m |-> "prq", id |-> c.id, d |-> c.d, S |-> c.S, e |-> c.e, nl |-> c.nl, rows |-> NlRows(c.nl, c.order),
    pr    |-> QR(PR(c.e)),
    align |-> [i \in 1..Len(c.e) |-> QR(Align(c.e, c.nl, i, c.S))],
    pq    |-> IF PQDefined(c.e, c.nl) THEN QR(PQ(c.e, c.nl)) ELSE "undef" ]

DcRow(i) ==
  LET R   == Bonds(c.H, c.ppp, c.pos, c.nl, i)
      den == Len(c.nl[i]) * c.S * c.SU
      cv  == IF c.d = 3 THEN CurlNumB(R, c.u, c.nl, i) ELSE << >>
  IN  [ div |-> QR(RNorm(DivNumB(R, c.u, c.nl, i), den)),
        curl |-> IF c.d = 3 THEN [a \in 1..3 |-> QR(RNorm(cv[a], den))] ELSE << >> ]
CaseDc ==
  LET rows == [i \in 1..Len(c.pos) |-> DcRow(i)] IN
  [ m |-> "divcurl", id |-> c.id, d |-> c.d, H |-> c.H, ppp |-> c.ppp, S |-> c.S, SU |-> c.SU,
    pos |-> c.pos, u |-> c.u, nl |-> c.nl, rows |-> NlRows(c.nl, c.order), A |-> c.A,
    div  |-> [i \in 1..Len(c.pos) |-> rows[i].div],
    curl |-> IF c.d = 3 THEN [i \in 1..Len(c.pos) |-> rows[i].curl] ELSE << >> ]
CaseVib ==
  [ m |-> "vib", id |-> c.id, d |-> c.d, n |-> c.n, S |-> c.S, SO |-> c.SO, om |-> c.om, ev |-> c.ev,
    vib |-> [i \in 1..c.n |-> QR(Vib(c.ev, c.om, c.d, i, c.S, c.SO))] ]

\* one row per wave vector
DecompRow(q, L, m, e, S) ==
  LET G  == GField(q, m, e)
      w2 == W2(q, L)
      n  == Len(e)
  IN  [ n    |-> q,
        qk   |-> [k \in 1..Len(q) |-> Mul(<<I(2), Pi, Q(q[k], L[k])>>)],
        q    |-> Mul(<<I(2), Pi, Sqrt(Q(w2, VfLcm(L) * VfLcm(L)))>>),
        w2   |-> w2,
        fft  |-> [k \in 1..Len(q) |-> Div(GTerm(G[k], 1), RootN(n, S))],
        lfft |-> [k \in 1..Len(q) |-> Div(GTerm(LNum(q, L, G)[k], w2), RootN(n, S))],
        tfft |-> [k \in 1..Len(q) |-> Div(GTerm(TNum(q, L, G)[k], w2), RootN(n, S))],
        sq   |-> QR(SqTot(q, L, G, n, S)),
        sql  |-> QR(SqL(q, L, G, n, S)),
        sqt  |-> QR(SqT(q, L, G, n, S)) ]
GroupMeans(qs, L, m, e, S) ==
  LET gs == QGroups(qs, L)  n == Len(e) IN
  [g \in 1..Len(gs) |->
     [ q   |-> Mul(<<I(2), Pi, Sqrt(Q(gs[g].w2, VfLcm(L) * VfLcm(L)))>>),
       cnt |-> Cardinality(gs[g].idx),
       sq  |-> QR(RMeanOver(LAMBDA x : SqTot(qs[x], L, GField(qs[x], m, e), n, S), gs[g].idx)),
       sqt |-> QR(RMeanOver(LAMBDA x : SqT(qs[x], L, GField(qs[x], m, e), n, S), gs[g].idx)),
       sql |-> QR(RMeanOver(LAMBDA x : SqL(qs[x], L, GField(qs[x], m, e), n, S), gs[g].idx)) ]]
CaseDecomp ==
  [ m |-> "decomp", id |-> c.id, d |-> c.d, L |-> c.L, S |-> c.S, pm |-> c.m, e |-> c.e,
    rows |-> [x \in 1..Len(DQs) |-> DecompRow(DQs[x], c.L, c.m, c.e, c.S)],
    ave  |-> GroupMeans(DQs, c.L, c.m, c.e, c.S) ]

CorrCol(X) == IF CorrDefined(X, c.ts) THEN [k \in 1..Len(c.ts) |-> QR(Corr(X, c.ts, k - 1))] ELSE "undef"
\* spectra: per |q| group the mean over frames of the per-frame group means
Spectra ==
  LET gs == QGroups(c.qs, c.L)  n == N0  T == Len(c.ts)
      FM(F(_, _), idx) == RMul(VfRSum([f \in 1..T |-> RMeanOver(LAMBDA x : F(x, f), idx)]), <<1, T>>)
      GF(x, f) == GField(c.qs[x], c.fr[f].m, c.fr[f].e)
  IN  [g \in 1..Len(gs) |->
        [ q   |-> Mul(<<I(2), Pi, Sqrt(Q(gs[g].w2, VfLcm(c.L) * VfLcm(c.L)))>>),
          sq  |-> QR(FM(LAMBDA x, f : SqTot(c.qs[x], c.L, GF(x, f), n, c.S), gs[g].idx)),
          sqt |-> QR(FM(LAMBDA x, f : SqT(c.qs[x], c.L, GF(x, f), n, c.S), gs[g].idx)),
          sql |-> QR(FM(LAMBDA x, f : SqL(c.qs[x], c.L, GF(x, f), n, c.S), gs[g].idx)) ]]
CaseCorr ==
  [ m |-> "corr", id |-> c.id, d |-> c.d, L |-> c.L, S |-> c.S, ts |-> c.ts, dtn |-> c.dtn, dtd |-> c.dtd,
    qs |-> c.qs, fr |-> c.fr,
    linear |-> IsLinear(c.ts),
    t    |-> [k \in 1..Len(c.ts) |-> Q((c.ts[k] - c.ts[1]) * c.dtn, c.dtd)],
    qcol |-> [x \in 1..Len(c.qs) |-> Mul(<<I(2), Pi, Sqrt(Q(W2(c.qs[x], c.L), VfLcm(c.L) * VfLcm(c.L)))>>)],
    FFT   |-> [x \in 1..Len(c.qs) |-> CorrCol(XF(c.qs[x]))],
    T_FFT |-> [x \in 1..Len(c.qs) |-> CorrCol(XT(c.qs[x]))],
    L_FFT |-> [x \in 1..Len(c.qs) |-> CorrCol(XL(c.qs[x]))],
    spectra |-> Spectra ]

Case == IF IsM("prq") THEN CasePrq ELSE IF IsM("divcurl") THEN CaseDc ELSE IF IsM("vib") THEN CaseVib
        ELSE IF IsM("decomp") THEN CaseDecomp ELSE CaseCorr
Emit == Gen => PrintT(ToJson(Case))
=============================================================================
