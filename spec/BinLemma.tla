------------------------------ MODULE BinLemma ------------------------------
(* Unbounded lemmas behind PairHist!BinSetOf (property C03) and the wrapped *)
(* coordinate rule of LammpsDump (property C01), checked with Apalache.     *)
(*  Bins: for ALL squared distances d2 >= 0, bin widths wn >= 1 and bin     *)
(*  counts nb >= 1, the half-open bins [k wn, (k+1) wn) (compared in        *)
(*  squares) partition [0, nb wn): a distance below the histogram's upper   *)
(*  limit lies in one bin (k0 is the witness picked by Init) and in no      *)
(*  other; a distance at or beyond the limit lies in none.                  *)
(*  Wrap: for ALL bounds lo < hi and coordinates with an excursion of less  *)
(*  than one box length, moving the coordinate by one box length on the     *)
(*  side where it lies outside puts it into [lo, hi], and coordinates       *)
(*  inside are untouched.                                                   *)
EXTENDS Integers
VARIABLES
  \* @type: Int;
  d2,
  \* @type: Int;
  wn,
  \* @type: Int;
  nb,
  \* @type: Int;
  k0,
  \* @type: Int;
  k1,
  \* @type: Int;
  lo,
  \* @type: Int;
  hi,
  \* @type: Int;
  x

InBin(k, dd) == 0 <= k /\ k < nb /\ (k * wn) * (k * wn) <= dd /\ dd < ((k + 1) * wn) * ((k + 1) * wn)
Wrap(c) == IF c < lo THEN c + (hi - lo) ELSE IF c > hi THEN c - (hi - lo) ELSE c

Init == /\ d2 \in Int /\ wn \in Int /\ nb \in Int /\ k0 \in Int /\ k1 \in Int
        /\ d2 >= 0 /\ wn >= 1 /\ nb >= 1 /\ k0 >= 0 /\ k1 >= 0
        \* k0: the integer with (k0 wn)^2 <= d2 < ((k0+1) wn)^2 (exists: floor of sqrt(d2)/wn)
        /\ (k0 * wn) * (k0 * wn) <= d2 /\ d2 < ((k0 + 1) * wn) * ((k0 + 1) * wn)
        /\ lo \in Int /\ hi \in Int /\ x \in Int /\ lo < hi
        /\ lo - (hi - lo) < x /\ x < hi + (hi - lo)
Next == UNCHANGED <<d2, wn, nb, k0, k1, lo, hi, x>>

InsideHasBin    == d2 < (nb * wn) * (nb * wn) => InBin(k0, d2)
AtMostOneBin    == (InBin(k0, d2) /\ InBin(k1, d2)) => k0 = k1
BeyondHasNoBin  == d2 >= (nb * wn) * (nb * wn) => ~InBin(k1, d2)
\* deliberately false: closed bins would overlap at the edges (refuted by a distance on an edge)
ClosedBinsDisjoint ==
  LET InClosed(k) == 0 <= k /\ k < nb /\ (k * wn) * (k * wn) <= d2 /\ d2 <= ((k + 1) * wn) * ((k + 1) * wn)
  IN  (InClosed(k0) /\ InClosed(k1)) => k0 = k1
WrapInside      == lo <= Wrap(x) /\ Wrap(x) <= hi
WrapByOneBox    == Wrap(x) = x \/ Wrap(x) = x + (hi - lo) \/ Wrap(x) = x - (hi - lo)
WrapFixesInside == (lo <= x /\ x <= hi) => Wrap(x) = x
\* deliberately false: without the one-box excursion bound the rule would not reach the box
WrapTwoBoxes    == LET y == x + (hi - lo) IN lo <= Wrap(y) /\ Wrap(y) <= hi
=============================================================================
