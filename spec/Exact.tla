------------------------------- MODULE Exact -------------------------------
(***************************************************************************)
(* Layer 0 of the pymattersim specification: exact arithmetic.             *)
(*                                                                         *)
(* TLC has 32-bit integers and no reals.  Every quantity on which the      *)
(* library takes a *discrete decision* (which image, which bin, which      *)
(* neighbour, which column) is represented exactly: scaled integers,       *)
(* rationals <<n, d>> with d > 0, integer vectors (sequences) and integer  *)
(* matrices (sequences of rows).  Real-valued results are not evaluated    *)
(* here; they are *stated* as terms (module Real).                         *)
(***************************************************************************)
EXTENDS Integers, Sequences, FiniteSets

Abs(x)      == IF x < 0 THEN 0 - x ELSE x
Sgn(x)      == IF x < 0 THEN 0 - 1 ELSE IF x > 0 THEN 1 ELSE 0
Min2(a, b)  == IF a < b THEN a ELSE b
Max2(a, b)  == IF a < b THEN b ELSE a

\* floor(n / d) for d > 0 and any n (TLC's \div is floor division for d > 0)
FloorDiv(n, d) == n \div d
CeilDiv(n, d)  == 0 - ((0 - n) \div d)
Mod(n, d)      == n % d

\* The set of integers nearest to n/d (d > 0): one element off ties, two at
\* an exact half.  This is the "tie set" of DESIGN 3.3.
NearestSet(n, d) ==
  LET f   == FloorDiv(n, d)
      rem == n - f * d
  IN  IF 2 * rem < d THEN {f}
      ELSE IF 2 * rem > d THEN {f + 1}
      ELSE {f, f + 1}

\* the closed half-cell characterisation of NearestSet (proved for all integers in MinImageLemma.tla with Apalache)
NearestIsClosedHalfCell(n, d) ==
  LET f == FloorDiv(n, d) IN
  NearestSet(n, d) = {k \in (f - 2)..(f + 3) : 0 - d <= 2 * (n - k * d) /\ 2 * (n - k * d) <= d}
IsHalfTie(n, d) == LET f == FloorDiv(n, d) IN 2 * (n - f * d) = d

RECURSIVE Gcd(_, _)
Gcd(a, b) == IF b = 0 THEN Abs(a) ELSE Gcd(b, a % Abs(b))

\* rationals <<n, d>>, d > 0, in lowest terms
RNorm(n, d) ==
  LET s == IF d < 0 THEN 0 - 1 ELSE 1
      g == Gcd(Abs(n), Abs(d))
  IN  IF g = 0 THEN <<0, 1>> ELSE <<(s * n) \div g, (s * d) \div g>>
RAdd(p, q)  == RNorm(p[1] * q[2] + q[1] * p[2], p[2] * q[2])
RSub(p, q)  == RNorm(p[1] * q[2] - q[1] * p[2], p[2] * q[2])
RMul(p, q)  == RNorm(p[1] * q[1], p[2] * q[2])
RDiv(p, q)  == RNorm(p[1] * q[2], p[2] * q[1])
RLt(p, q)   == p[1] * q[2] < q[1] * p[2]
RLeq(p, q)  == p[1] * q[2] <= q[1] * p[2]
REq(p, q)   == p[1] * q[2] = q[1] * p[2]
RInt(n)     == <<n, 1>>

\* sequences of integers as vectors
RECURSIVE SumSeq(_)
SumSeq(s) == IF s = << >> THEN 0 ELSE Head(s) + SumSeq(Tail(s))
RECURSIVE ProdSeq(_)
ProdSeq(s) == IF s = << >> THEN 1 ELSE Head(s) * ProdSeq(Tail(s))

Dim(v)       == Len(v)
VAdd(u, v)   == [k \in 1..Len(u) |-> u[k] + v[k]]
VSub(u, v)   == [k \in 1..Len(u) |-> u[k] - v[k]]
VScale(c, v) == [k \in 1..Len(v) |-> c * v[k]]
VNeg(v)      == [k \in 1..Len(v) |-> 0 - v[k]]
Dot(u, v)    == SumSeq([k \in 1..Len(u) |-> u[k] * v[k]])
Norm2(v)     == Dot(v, v)
Zero(d)      == [k \in 1..d |-> 0]

\* row vector times matrix (rows of M are the cell vectors): (v M)_k = sum_j v_j M[j][k]
VecMat(v, M) == [k \in 1..Len(M[1]) |-> SumSeq([j \in 1..Len(v) |-> v[j] * M[j][k]])]
MatMul(A, B) == [i \in 1..Len(A) |-> VecMat(A[i], B)]
Transpose(M) == [k \in 1..Len(M[1]) |-> [j \in 1..Len(M) |-> M[j][k]]]
Diag(v)      == [i \in 1..Len(v) |-> [j \in 1..Len(v) |-> IF i = j THEN v[i] ELSE 0]]

Det2(M) == M[1][1] * M[2][2] - M[1][2] * M[2][1]
Det3(M) == M[1][1] * (M[2][2] * M[3][3] - M[2][3] * M[3][2])
         - M[1][2] * (M[2][1] * M[3][3] - M[2][3] * M[3][1])
         + M[1][3] * (M[2][1] * M[3][2] - M[2][2] * M[3][1])
Det(M)  == IF Len(M) = 1 THEN M[1][1] ELSE IF Len(M) = 2 THEN Det2(M) ELSE Det3(M)

\* adjugate: M^-1 = Adj(M) / Det(M)
Adj2(M) == << <<M[2][2], 0 - M[1][2]>>, <<0 - M[2][1], M[1][1]>> >>
Cof3(M, i, j) ==      \* cofactor of entry (i,j)
  LET r == CHOOSE p \in {<<1, 2>>, <<1, 3>>, <<2, 3>>} : i \notin {p[1], p[2]}
      c == CHOOSE p \in {<<1, 2>>, <<1, 3>>, <<2, 3>>} : j \notin {p[1], p[2]}
      m == M[r[1]][c[1]] * M[r[2]][c[2]] - M[r[1]][c[2]] * M[r[2]][c[1]]
  IN  IF (i + j) % 2 = 0 THEN m ELSE 0 - m
Adj3(M) == [i \in 1..3 |-> [j \in 1..3 |-> Cof3(M, j, i)]]
Adj(M)  == IF Len(M) = 1 THEN << <<1>> >> ELSE IF Len(M) = 2 THEN Adj2(M) ELSE Adj3(M)

\* integer square root and exact comparisons with square roots
RECURSIVE ISqrtFrom(_, _)
ISqrtFrom(n, k) == IF (k + 1) * (k + 1) > n THEN k ELSE ISqrtFrom(n, k + 1)
ISqrt(n)        == ISqrtFrom(n, 0)
IsSquare(n)     == LET r == ISqrt(n) IN r * r = n

\* all sequences of length d over S
SeqsOf(S, d) == [1..d -> S]

\* ordered list of a finite set of integers
RECURSIVE SortedSeq(_)
SortedSeq(S) == IF S = {} THEN << >>
                ELSE LET m == CHOOSE x \in S : \A y \in S : x <= y
                     IN  <<m>> \o SortedSeq(S \ {m})

Range(s) == {s[i] : i \in DOMAIN s}

\* integer square root by bisection (values up to 2^31 - 1)
RECURSIVE ISqrtBis(_, _, _)
ISqrtBis(n, lo, hi) == IF lo >= hi THEN lo
                       ELSE LET mid == (lo + hi + 1) \div 2
                            IN  IF mid * mid <= n THEN ISqrtBis(n, mid, hi) ELSE ISqrtBis(n, lo, mid - 1)
ISqrt2(n) == ISqrtBis(n, 0, Min2(n, 46340))

\* b^e for small non-negative e
RECURSIVE IPow(_, _)
IPow(b, e) == IF e = 0 THEN 1 ELSE b * IPow(b, e - 1)

\* minimum / maximum of a non-empty finite set of integers
SetMin(S) == CHOOSE x \in S : \A y \in S : x <= y
SetMax(S) == CHOOSE x \in S : \A y \in S : y <= x
=============================================================================
