---------------------------- MODULE TraceSession ----------------------------
(***************************************************************************)
(* Trace validation for C18.  The trace is the record of all sessions of   *)
(* ONE world executed against the real code (each session in a fresh       *)
(* process):                                                               *)
(*  record 1   [op |-> "world", dim, T, lin, ori, heavy  (world descriptor)*)
(*              names |-> name of every shared object (every array of both *)
(*                        Snapshots objects, every array argument and view *)
(*                        base, input files, state arrays of the analysis  *)
(*                        objects),                                        *)
(*              owner |-> per object "" (nobody may change it) or the      *)
(*                        family whose constructor / setter may,           *)
(*              ot    |-> per object its target]                           *)
(*  then per session                                                       *)
(*   [op |-> "begin", ver |-> digest class of every object (small integers *)
(*                            assigned by first occurrence in the run)]    *)
(*   [op |-> "call", e, s, v,                                              *)
(*    d0  |-> changes between the previous call and this one  <<i, class>>,*)
(*    d1  |-> changes during the call <<i, class>> (before -> after),      *)
(*    res |-> digest class of the result, err |-> 1 iff the routine raised,*)
(*    fok |-> 1 file holds the returned value | 0 it does not | 2 no file, *)
(*    cur |-> frames consumed on the two user handles after the call]      *)
(*   [op |-> "scribble"]  the user overwrote the value returned by the     *)
(*                        previous call in place (arrays not shared with   *)
(*                        any tracked object)                              *)
(* (before / after vectors are delta-encoded; ver carries the full vector.)*)
(* The specification carries ana, cursor (nominal state, exactly as        *)
(* Session.tla defines it) and memo - memo persists across sessions, so a  *)
(* call must agree with the same call in every other session of the run.   *)
(* Every record is consumed; a call is ACCEPTED iff no clause of Why fails, *)
(* otherwise it is recorded in `rej` with the name of the failing clause    *)
(* and the rest of its session is skipped (its state is unknown).          *)
(***************************************************************************)
EXTENDS Session, Json, IOUtils

Tr == ndJsonDeserialize(IOEnv.TRACE_FILE)
Hd == Tr[1]
Wd == [dim |-> Hd.dim, T |-> Hd.T, lin |-> <<Hd.lin[1] = 1, Hd.lin[2] = 1>>,
       ori |-> <<Hd.ori[1] = 1, Hd.ori[2] = 1>>, heavy |-> Hd.heavy = 1]
Names == Hd.names
NObj  == Len(Names)

VARIABLES l,      \* next record
          rej,    \* rejected records so far: << record number, failing clause >>
          skip,   \* TRUE while the rest of a rejected session is skipped (its state is unknown)
          ver     \* current digest class of every shared object
tvars == <<l, rej, skip, ver, vars>>

(* may step c change shared object i ? *)
Allowed(c, i) == Hd.owner[i] # "" /\ MayChangeAna(c, Hd.owner[i], Hd.ot[i])

FirstBad(c, d) ==      \* first change of the delta that the step does not own (0 if none)
  LET B == {j \in 1..Len(d) : ~Allowed(c, d[j][1])}
  IN  IF B = {} THEN 0 ELSE d[CHOOSE j \in B : \A k \in B : j <= k][1]

Why(rec) ==
  IF ~IsCall(Mk(rec.e, rec.s, rec.v), Wd) THEN "NotAnEntryPoint"
  ELSE
  LET c  == Mk(rec.e, rec.s, rec.v)
      k  == Key(c, ana, cursor)
      b  == FirstBad(c, rec.d1)
      ca == CurAfter(c, cursor)
  IN  IF ~Ready(c, ana, cursor, Wd) THEN "ScheduleNotPlanned"
      ELSE IF Len(rec.d0) > 0 THEN "ChangedBetweenCalls:" \o Names[rec.d0[1][1]]
      ELSE IF b # 0 THEN (IF Hd.owner[b] = "" THEN "InputModified:" ELSE "StateModified:") \o Names[b]
      ELSE IF rec.err = 1 THEN "Raises"
      ELSE IF k \in DOMAIN memo /\ memo[k] # rec.res THEN "RepeatDiffers"
      ELSE IF Writes(c, ana) # (rec.fok # 2) THEN "FileExpectationMismatch"
      ELSE IF rec.fok = 0 THEN "FileDiffers"
      ELSE IF rec.cur # << ca[1].nom, ca[2].nom >> THEN "CursorMoved"
      ELSE ""

RECURSIVE Apply(_, _, _)
Apply(v, d, j) == IF j > Len(d) THEN v ELSE Apply([v EXCEPT ![d[j][1]] = d[j][2]], d, j + 1)

TInit == /\ Init /\ l = 1 /\ rej = << >> /\ skip = FALSE /\ ver = << >>

Rest == <<objs, disk, cache, hist, pending, word>>

Header == /\ Tr[l].op = "world" /\ l = 1 /\ l' = 2
          /\ UNCHANGED <<rej, skip, ver, ana, cursor, memo>> /\ UNCHANGED Rest

Begin == /\ Tr[l].op = "begin"
         /\ IF Len(Tr[l].ver) = NObj
            THEN ver' = Tr[l].ver /\ skip' = FALSE /\ rej' = rej
            ELSE ver' = ver /\ skip' = TRUE /\ rej' = Append(rej, <<l, "MalformedBegin">>)
         /\ ana' = << >> /\ cursor' = CurInit /\ l' = l + 1
         /\ UNCHANGED memo /\ UNCHANGED Rest

Call  == /\ Tr[l].op = "call" /\ ~skip
         /\ LET rec == Tr[l]
                w   == Why(rec) IN
            IF w = ""
            THEN LET c == Mk(rec.e, rec.s, rec.v)
                     k == Key(c, ana, cursor) IN
                 /\ ver' = Apply(ver, rec.d1, 1)
                 /\ ana' = AnaAfter(c, ana) /\ cursor' = CurAfter(c, cursor)
                 /\ memo' = IF k \in DOMAIN memo THEN memo ELSE Put(memo, k, rec.res)
                 /\ UNCHANGED <<rej, skip>>
            ELSE /\ rej' = Append(rej, <<l, w>>) /\ skip' = TRUE
                 /\ UNCHANGED <<ver, ana, cursor, memo>>
         /\ l' = l + 1 /\ UNCHANGED Rest

Skip  == /\ Tr[l].op = "call" /\ skip /\ l' = l + 1
         /\ UNCHANGED <<rej, skip, ver, ana, cursor, memo>> /\ UNCHANGED Rest

(* the user overwrote, in place, the value the previous call returned (Session!Scribble): a returned value
   belongs to the caller, so nothing the specification tracks changes - the NEXT call records must still show
   no change between calls (d0) and agree with memo                                                    *)
Scrib == /\ Tr[l].op = "scribble" /\ l' = l + 1
         /\ UNCHANGED <<rej, skip, ver, ana, cursor, memo>> /\ UNCHANGED Rest

TNext == l <= Len(Tr) /\ (Header \/ Begin \/ Call \/ Skip \/ Scrib)
Spec == TInit /\ [][TNext]_tvars

(* every record is consumed; the verdict is printed at the end of the trace *)
Report == l = Len(Tr) + 1 => PrintT(ToJson([n |-> Len(Tr), rej |-> rej, keys |-> Cardinality(DOMAIN memo)]))
Accepted == rej = << >>
=============================================================================
