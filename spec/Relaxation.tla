----------------------------- MODULE Relaxation -----------------------------
(***************************************************************************)
(* Property C06 - PyMatterSim.dynamic.dynamics: Dynamics.relaxation,       *)
(* LogDynamics.relaxation, Dynamics.sq4.                                   *)
(*                                                                         *)
(* A case c is a record (all numbers integers; lengths in units 1/S):      *)
(*   d, T, N, S      dimension, frames, particles, length scale            *)
(*   H               cell matrix (rows = cell vectors), boxlength = diag   *)
(*   ppp             periodicity mask                                      *)
(*   ts              timesteps (sequence of T)                             *)
(*   types           particle types in 1..Len(dia),  dia = sequence of     *)
(*                   diameters, each a rational <<n, d>> (species absent   *)
(*                   from the trajectory may be listed);  a = <<n, d>>     *)
(*                   mobility factor                                       *)
(*   cal             "slow" | "fast";   mode  "xu" | "x" | "both"          *)
(*   xu, x           unwrapped / wrapped positions  [frame][particle][axis]*)
(*   hasCond, cond   per-frame selection masks (0/1)  [frame][particle]    *)
(*   hasNb, nb, nmax per-frame neighbour lists (1-based ids) and the       *)
(*                   max_neighbors argument                                *)
(*   q               wavenumber numerator qconst = (n/d) * pi^pi           *)
(* Frames are 1..T here (code index + 1); origins / ends / lags 0-based.   *)
(*                                                                         *)
(* Definition.  For a frame pair (o, e):  base displacement = pos[e] -     *)
(* pos[o] of the coordinates the routine works with (xu when supplied,     *)
(* else x), minimum-imaged IFF only wrapped coordinates were supplied;     *)
(* cage-relative: minus the mean displacement of the neighbours listed for *)
(* the ORIGIN frame o; restricted to the selection of the ORIGIN frame.    *)
(* Row k = mean over ALL pairs k apart of  ISF = mean_{i,axis} cos(q_i dr),*)
(* Q = fraction with |dr|^2 < (a dia_i)^2 (slow; > for fast), MSD, and     *)
(* chi4 = N(<Q^2> - <Q>^2), alpha2 = c_d <dr^4>/<dr^2>^2 - 1, c_3 = 3/5,   *)
(* c_2 = 1/2; time (ts[k] - ts[0]) dt.  Log variant: origin 0 only.        *)
(* S4: lag nt = round(t / t_1); for every origin o the mobile/immobile     *)
(* subset (and the selection of frame o) -> its structure factor on the    *)
(* default wave-vector set; mean over the T - nt origins.                  *)
(*                                                                         *)
(* Algorithm: state machine with one action per iteration of the loops of  *)
(* the code (variants "lin", "log", "s4").                                 *)
(***************************************************************************)
EXTENDS Cell, Real

Sq(x) == x * x
AllIds(c) == [i \in 1..c.N |-> i]
DiaOf(c, i) == c.dia[c.types[i]]               \* <<n, d>>
BoxLen(c, k) == c.H[k][k]

\* which coordinates the displacement is taken from, and whether the minimum image applies
DPos(c)   == IF c.mode = "x" THEN c.x ELSE c.xu
UsePBC(c) == c.mode = "x"
\* which coordinates the four-point structure factor is taken from
SPos(c)   == IF c.mode = "xu" THEN c.xu ELSE c.x

RawDisp(c, o, e, i) == VSub(DPos(c)[e + 1][i], DPos(c)[o + 1][i])
\* minimum image in an orthogonal cell, axis by axis (= Cell!MinImage1, see DiagImageIsMinImage)
DiagImage(H, v, ppp) ==
  [k \in 1..Len(v) |-> IF ppp[k] = 1 THEN v[k] - H[k][k] * (CHOOSE m \in NearestSet(v[k], H[k][k]) : TRUE)
                                     ELSE v[k]]
DiagTie(H, v, ppp) == \E k \in 1..Len(v) : ppp[k] = 1 /\ IsHalfTie(v[k], H[k][k])
BaseDisp(c, o, e, i) ==
  IF UsePBC(c)
  THEN (IF IsDiagonal(c.H) THEN DiagImage(c.H, RawDisp(c, o, e, i), c.ppp)
                           ELSE MinImage1(c.H, RawDisp(c, o, e, i), c.ppp))
  ELSE RawDisp(c, o, e, i)
MTie(c, o, e) ==
  UsePBC(c) /\ \E i \in 1..c.N :
     IF IsDiagonal(c.H) THEN DiagTie(c.H, RawDisp(c, o, e, i), c.ppp) ELSE HasTie(c.H, RawDisp(c, o, e, i), c.ppp)
DiagImageIsMinImage(c) ==
  IsDiagonal(c.H) =>
    \A o, e \in 0..(c.T - 1) : \A i \in 1..c.N :
       LET v == VSub(c.x[e + 1][i], c.x[o + 1][i]) IN
       /\ DiagImage(c.H, v, c.ppp) \in MinImage(c.H, v, c.ppp)
       /\ DiagTie(c.H, v, c.ppp) <=> HasTie(c.H, v, c.ppp)

\* wrapped image of v: fractional coordinates along the axes in `mask` brought into [0, 1)
WrapInto(H, v, mask) ==
  LET fn == FracNum(H, v)
      n  == [k \in 1..Len(v) |-> IF mask[k] = 1 THEN FloorDiv(fn[k], FracDen(H)) ELSE 0]
  IN  VSub(v, VecMat(n, H))

\* neighbour list of particle i in frame o as the routine sees it (truncated to max_neighbors)
NbOf(c, o, i) == LET lst == c.nb[o + 1][i] IN SubSeq(lst, 1, Min2(Len(lst), c.nmax))

\* ids selected in frame o, ascending
SelSeq(c, o) ==
  LET F[i \in 0..c.N] == IF i = 0 THEN << >>
                         ELSE IF c.cond[o + 1][i] = 1 THEN Append(F[i - 1], i) ELSE F[i - 1]
  IN  F[c.N]

(***************************************************************************)
(* Everything discrete about one frame pair.  Displacement of particle i   *)
(* = num[i] / (den[i] * S); s2[i] = |num[i]|^2; ind[i] = 1 iff i counts as *)
(* slow (fast) by the exact comparison  s2 (ad dd)^2  <  (an dn den S)^2.  *)
(***************************************************************************)
\* TLC evaluates [i \in S |-> e] lazily and re-evaluates e at every application; Force turns such a function
\* over 1..n into a tuple of evaluated elements (same value, evaluated once)
Force(f, n) == SubSeq(f, 1, n)
PairData(c, o, e, useCond) ==
  LET B   == Force([i \in 1..c.N |-> Force(BaseDisp(c, o, e, i), c.d)], c.N)
      den == Force([i \in 1..c.N |-> IF c.hasNb = 1 THEN Len(NbOf(c, o, i)) ELSE 1], c.N)
      num == Force([i \in 1..c.N |->
                IF c.hasNb = 1
                THEN LET lst == NbOf(c, o, i) IN
                     Force([k \in 1..c.d |-> Len(lst) * B[i][k] - SumSeq([j \in 1..Len(lst) |-> B[lst[j]][k]])], c.d)
                ELSE B[i]], c.N)
      s2  == Force([i \in 1..c.N |-> Norm2(num[i])], c.N)
      lhs == Force([i \in 1..c.N |-> s2[i] * Sq(c.a[2] * DiaOf(c, i)[2])], c.N)
      rhs == Force([i \in 1..c.N |-> Sq(c.a[1] * DiaOf(c, i)[1] * den[i] * c.S)], c.N)
      ind == Force([i \in 1..c.N |-> IF c.cal = "slow" THEN (IF lhs[i] < rhs[i] THEN 1 ELSE 0)
                                                 ELSE (IF lhs[i] > rhs[i] THEN 1 ELSE 0)], c.N)
      near == Force([i \in 1..c.N |-> Abs(lhs[i] - rhs[i]) <= rhs[i] \div 1000000], c.N)
      sel == IF useCond /\ c.hasCond = 1 THEN SelSeq(c, o) ELSE AllIds(c)
  IN  [ o |-> o, e |-> e, sel |-> Force(sel, Len(sel)), num |-> num, den |-> den, s2 |-> s2, ind |-> ind,
        qtie |-> \E j \in 1..Len(sel) : near[sel[j]],
        qtieAll |-> \E i \in 1..c.N : near[i],
        mtie |-> MTie(c, o, e) ]

NSel(pd)  == Len(pd.sel)
NSlow(pd) == SumSeq([j \in 1..Len(pd.sel) |-> pd.ind[pd.sel[j]]])

\* ---- exact per-pair quantities (rationals; used by the model-level invariants) ----
RECURSIVE RSumSeq(_)
RSumSeq(s) == IF s = << >> THEN <<0, 1>> ELSE RAdd(Head(s), RSumSeq(Tail(s)))
RMeanSeq(s) == RDiv(RSumSeq(s), <<Len(s), 1>>)
D2X(c, pd, i)  == RNorm(pd.s2[i], Sq(pd.den[i] * c.S))
QPairX(pd)     == RNorm(NSlow(pd), NSel(pd))
R2PairX(c, pd) == RMeanSeq([j \in 1..NSel(pd) |-> D2X(c, pd, pd.sel[j])])
R4PairX(c, pd) == RMeanSeq([j \in 1..NSel(pd) |-> RMul(D2X(c, pd, pd.sel[j]), D2X(c, pd, pd.sel[j]))])

\* angle of particle i, component x of num:  q_i * x / (den S)  =  AngleQ * pi^pi
AngleQ(c, pd, i, x) == <<c.q.n * DiaOf(c, i)[2] * x, c.q.d * DiaOf(c, i)[1] * pd.den[i] * c.S>>
\* the ISF of a pair is an exact rational when every angle is a multiple of pi/2
QuarterOK(c, pd) == /\ c.q.pi = 1
                    /\ \A j \in 1..NSel(pd) : \A k \in 1..c.d :
                         LET r == AngleQ(c, pd, pd.sel[j], pd.num[pd.sel[j]][k]) IN (2 * r[1]) % r[2] = 0
CosQuarter(m) == LET r == m % 4 IN IF r = 0 THEN 1 ELSE IF r = 2 THEN 0 - 1 ELSE 0
IsfPairX(c, pd) ==
  RNorm(SumSeq([j \in 1..NSel(pd) |-> SumSeq([k \in 1..c.d |->
          LET r == AngleQ(c, pd, pd.sel[j], pd.num[pd.sel[j]][k]) IN CosQuarter((2 * r[1]) \div r[2])])]),
        NSel(pd) * c.d)

\* ---- per-pair quantities as terms (small integer leaves; no overflow) ----
MeanT(ts) == Div(Add(ts), I(Len(ts)))
CosT(c, pd, i, x) ==
  LET r == AngleQ(c, pd, i, x) IN
  IF c.q.pi = 1 THEN Cos(Mul2(Q(r[1], r[2]), Pi)) ELSE Cos(Q(r[1], r[2]))
IsfPairT(c, pd) ==
  MeanT([m \in 1..(NSel(pd) * c.d) |->
           LET i == pd.sel[((m - 1) \div c.d) + 1]
               k == ((m - 1) % c.d) + 1
           IN  CosT(c, pd, i, pd.num[i][k])])
QPairT(pd)     == Q(NSlow(pd), NSel(pd))
D2T(c, pd, i)  == Q(pd.s2[i], Sq(pd.den[i] * c.S))
R2PairT(c, pd) == MeanT([j \in 1..NSel(pd) |-> D2T(c, pd, pd.sel[j])])
R4PairT(c, pd) == MeanT([j \in 1..NSel(pd) |-> PowI(D2T(c, pd, pd.sel[j]), 2)])

Alpha2Fac(d) == IF d = 3 THEN Q(3, 5) ELSE Q(1, 2)

(***************************************************************************)
(* The definition: pairs of a lag, rows.                                   *)
(***************************************************************************)
\* variant "lin": all pairs k apart; "log": origin 0 only; "s4": all pairs nt apart (k = nt only)
DefPairsSeq(c, variant, k) ==
  IF variant = "log" THEN << <<0, k>> >>
  ELSE [j \in 1..(c.T - k) |-> <<j - 1, j - 1 + k>>]
DefPairs(c, variant, k) == Range(DefPairsSeq(c, variant, k))
PDs(c, variant, k) ==
  LET ps == DefPairsSeq(c, variant, k) IN Force([j \in 1..Len(ps) |-> PairData(c, ps[j][1], ps[j][2], TRUE)], Len(ps))

UniformSel(pds) == \A j \in 1..Len(pds) : NSel(pds[j]) = NSel(pds[1])
Still(pds)      == \A j \in 1..Len(pds) : \A m \in 1..NSel(pds[j]) : pds[j].s2[pds[j].sel[m]] = 0

\* exact part of a row
RowX(c, pds) ==
  [ Q  |-> RMeanSeq([j \in 1..Len(pds) |-> QPairX(pds[j])]),
    Q2 |-> RMeanSeq([j \in 1..Len(pds) |-> RMul(QPairX(pds[j]), QPairX(pds[j]))]),
    r2 |-> RMeanSeq([j \in 1..Len(pds) |-> R2PairX(c, pds[j])]),
    r4 |-> RMeanSeq([j \in 1..Len(pds) |-> R4PairX(c, pds[j])]) ]
VarQX(rx) == RSub(rx.Q2, RMul(rx.Q, rx.Q))

\* a row as terms; "undef" where the property does not define the value
RowT(c, variant, k, tsq, dt) ==
  LET pds == PDs(c, variant, k)
      qt  == MeanT([j \in 1..Len(pds) |-> QPairT(pds[j])])
      q2  == MeanT([j \in 1..Len(pds) |-> PowI(QPairT(pds[j]), 2)])
      msd == MeanT([j \in 1..Len(pds) |-> R2PairT(c, pds[j])])
      r4  == MeanT([j \in 1..Len(pds) |-> R4PairT(c, pds[j])])
  IN  [ k     |-> k,
        n     |-> Len(pds),
        t     |-> Mul2(I(tsq[k + 1] - tsq[1]), Q(dt[1], dt[2])),
        isf   |-> MeanT([j \in 1..Len(pds) |-> IsfPairT(c, pds[j])]),
        Qt    |-> qt,
        X4    |-> IF variant = "log" THEN I(0)
                  ELSE IF UniformSel(pds) THEN Mul2(I(NSel(pds[1])), Sub(q2, PowI(qt, 2))) ELSE <<"undef">>,
        msd   |-> msd,
        alpha2 |-> IF Still(pds) THEN <<"undef">>
                   ELSE Sub(Mul2(Alpha2Fac(c.d), Div(r4, PowI(msd, 2))), I(1)),
        qtie  |-> \E j \in 1..Len(pds) : pds[j].qtie,
        mtie  |-> \E j \in 1..Len(pds) : pds[j].mtie ]

(***************************************************************************)
(* Four-point structure factor.                                            *)
(***************************************************************************)
RECURSIVE SeqOfSet(_)
SeqOfSet(S) == IF S = {} THEN << >> ELSE LET x == CHOOSE y \in S : TRUE IN <<x>> \o SeqOfSet(S \ {x})
RECURSIVE LcmSeq(_)
Lcm2(a, b) == (a * b) \div Gcd(a, b)
LcmSeq(s) == IF Len(s) = 1 THEN s[1] ELSE Lcm2(Head(s), LcmSeq(Tail(s)))
BoxLcm(c) == LcmSeq([k \in 1..c.d |-> BoxLen(c, k)])
AxisW(c, k) == BoxLcm(c) \div BoxLen(c, k)

\* default wave-vector set of the routine: integer vectors in [-h, h)^d, non-zero, integer norm
WaveSet(d, numofq) ==
  LET h == numofq \div 2 IN
  {v \in [1..d -> (0 - h)..(h - 1)] : Norm2(v) # 0 /\ IsSquare(Norm2(v))}
\* |q|^2 class of integer vector v in a rectangular box: sum (v_k / L_k)^2 * Lcm^2
QClass(c, v) == SumSeq([k \in 1..c.d |-> Sq(v[k] * AxisW(c, k))])
QTerm(c, g)  == Div(Mul3(I(2), Pi, Sqrt(I(g))), Q(BoxLcm(c), c.S))
Phase(c, v, r) == (0 - SumSeq([k \in 1..c.d |-> v[k] * r[k] * AxisW(c, k)])) % BoxLcm(c)

\* ids of the subset at origin o for lag nt
S4Mask(c, o, nt) ==
  LET pd == PairData(c, o, o + nt, FALSE)
      F[i \in 0..c.N] == IF i = 0 THEN << >>
                         ELSE IF pd.ind[i] = 1 /\ (c.hasCond = 1 => c.cond[o + 1][i] = 1)
                              THEN Append(F[i - 1], i) ELSE F[i - 1]
  IN  F[c.N]
S4OriginT(c, o, mask, vecs) ==
  Div(Add([m \in 1..Len(vecs) |->
             Abs2(Add([j \in 1..Len(mask) |-> Zeta(Phase(c, vecs[m], SPos(c)[o + 1][mask[j]]), BoxLcm(c))]))]),
      I(Len(vecs) * Len(mask)))
S4Exp(c, nt, numofq) ==
  LET W      == WaveSet(c.d, numofq)
      keys   == SortedSeq({QClass(c, v) : v \in W})
      norig  == c.T - nt
      masks  == [o \in 0..(norig - 1) |-> S4Mask(c, o, nt)]
      empty  == \E o \in 0..(norig - 1) : masks[o] = << >>
  IN  [ nt |-> nt, numofq |-> numofq, norig |-> norig, empty |-> empty,
        masks |-> [o \in 1..norig |-> masks[o - 1]],
        qtie |-> \E o \in 0..(norig - 1) : PairData(c, o, o + nt, FALSE).qtieAll,
        mtie |-> \E o \in 0..(norig - 1) : MTie(c, o, o + nt),
        groups |-> IF empty THEN << >>
                   ELSE [g \in 1..Len(keys) |->
                          LET vecs == SeqOfSet({v \in W : QClass(c, v) = keys[g]}) IN
                          [ g |-> keys[g], nvec |-> Len(vecs), q |-> QTerm(c, keys[g]),
                            S |-> MeanT([o \in 1..norig |-> S4OriginT(c, o - 1, masks[o - 1], vecs)]) ]] ]

(***************************************************************************)
(* The algorithm: one action per loop iteration.                           *)
(*  lin: for n in 1..T-1: for nn in 1..n:   origin n - nn, end n           *)
(*  log: for n in 1..T-1:                   origin 0,      end n           *)
(*  s4 : for n in 0..T-nt-1:                origin n,      end n + nt      *)
(* st = [n, nn, counts, pairs, seen, accQ, accQ2, accR2, accR4, done];     *)
(* sequences are indexed lag + 1.                                          *)
(***************************************************************************)
StInit(c, variant, nt) ==
  [ n |-> IF variant = "s4" THEN 0 ELSE 1, nn |-> IF variant = "s4" THEN nt ELSE 1,
    counts |-> [k \in 1..c.T |-> 0], pairs |-> [k \in 1..c.T |-> << >>],
    accQ |-> [k \in 1..c.T |-> <<0, 1>>], accQ2 |-> [k \in 1..c.T |-> <<0, 1>>],
    accR2 |-> [k \in 1..c.T |-> <<0, 1>>], accR4 |-> [k \in 1..c.T |-> <<0, 1>>],
    done |-> FALSE ]
StOrigin(variant, st) == IF variant = "s4" THEN st.n ELSE IF variant = "log" THEN 0 ELSE st.n - st.nn
StEnd(variant, st)    == IF variant = "s4" THEN st.n + st.nn ELSE st.n
StAcc(c, variant, st, exact) ==
  LET o  == StOrigin(variant, st)
      e  == StEnd(variant, st)
      k  == e - o
      pd == PairData(c, o, e, variant # "s4")
      last == IF variant = "s4" THEN st.n = c.T - st.nn - 1
              ELSE st.n = c.T - 1 /\ (variant = "log" \/ st.nn = st.n)
      q  == QPairX(pd)
  IN  [ counts |-> [st.counts EXCEPT ![k + 1] = @ + 1],
        pairs  |-> [st.pairs  EXCEPT ![k + 1] = Append(@, <<o, e>>)],
        accQ   |-> IF exact THEN [st.accQ  EXCEPT ![k + 1] = RAdd(@, q)] ELSE st.accQ,
        accQ2  |-> IF exact THEN [st.accQ2 EXCEPT ![k + 1] = RAdd(@, RMul(q, q))] ELSE st.accQ2,
        accR2  |-> IF exact THEN [st.accR2 EXCEPT ![k + 1] = RAdd(@, R2PairX(c, pd))] ELSE st.accR2,
        accR4  |-> IF exact THEN [st.accR4 EXCEPT ![k + 1] = RAdd(@, R4PairX(c, pd))] ELSE st.accR4,
        done   |-> last,
        n      |-> IF last THEN st.n
                   ELSE IF variant = "lin" THEN (IF st.nn < st.n THEN st.n ELSE st.n + 1) ELSE st.n + 1,
        nn     |-> IF last \/ variant = "s4" THEN st.nn
                   ELSE IF variant = "log" THEN st.nn + 1
                   ELSE (IF st.nn < st.n THEN st.nn + 1 ELSE 1) ]

Lags(c, variant, nt) == IF variant = "s4" THEN {nt} ELSE 1..(c.T - 1)
AlgRowX(st, k) ==
  LET cnt == <<st.counts[k + 1], 1>> IN
  [ Q |-> RDiv(st.accQ[k + 1], cnt), Q2 |-> RDiv(st.accQ2[k + 1], cnt),
    r2 |-> RDiv(st.accR2[k + 1], cnt), r4 |-> RDiv(st.accR4[k + 1], cnt) ]

\* ---- clauses ----
CountsPerLag(c, variant, nt, st) ==
  st.done => \A k \in 0..(c.T - 1) :
     st.counts[k + 1] = IF k \in Lags(c, variant, nt) THEN Len(DefPairsSeq(c, variant, k)) ELSE 0
PairsAreDefinition(c, variant, nt, st) ==
  st.done => \A k \in Lags(c, variant, nt) : Range(st.pairs[k + 1]) = DefPairs(c, variant, k)
NoPairTwice(st2) ==
  \A k \in DOMAIN st2.counts : /\ st2.counts[k] = Len(st2.pairs[k])
                               /\ Cardinality(Range(st2.pairs[k])) = Len(st2.pairs[k])
AlgorithmEqualsDefinition(c, variant, st) ==
  (st.done /\ variant # "s4") =>
     \A k \in 1..(c.T - 1) : AlgRowX(st, k) = RowX(c, PDs(c, variant, k))
Chi4NonNegative(c, variant, st) ==
  (st.done /\ variant = "lin") => \A k \in 1..(c.T - 1) : RLeq(<<0, 1>>, VarQX(AlgRowX(st, k)))
\* log rows are the origin-0 restriction of the definition; the largest lag has no other origin
LogIsOriginZeroRestriction(c, variant, st) ==
  (st.done /\ variant = "log") =>
     /\ \A k \in 1..(c.T - 1) : /\ st.pairs[k + 1] = << <<0, k>> >>
                                /\ <<0, k>> \in DefPairs(c, "lin", k)
                                /\ VarQX(AlgRowX(st, k)) = <<0, 1>>
     /\ AlgRowX(st, c.T - 1) = RowX(c, PDs(c, "lin", c.T - 1))
\* wrapped = unwrapped when no displacement reaches half a box length
SmallDisp(c) ==          \* in fractional coordinates (orthogonal cell: |dx_k| < L_k / 2)
  \A f, g \in 1..c.T : \A i \in 1..c.N : \A k \in 1..c.d :
     c.ppp[k] = 1 => 2 * Abs(FracNum(c.H, VSub(c.xu[g][i], c.xu[f][i]))[k]) < FracDen(c.H)
WrapConsistent(c) ==      \* x is xu modulo the cell vectors of the periodic axes
  \A f \in 1..c.T : \A i \in 1..c.N : \A k \in 1..c.d :
     LET dn == FracNum(c.H, VSub(c.x[f][i], c.xu[f][i]))[k] IN
     IF c.ppp[k] = 1 THEN dn % FracDen(c.H) = 0 ELSE dn = 0
Strip(pd) == [pd EXCEPT !.mtie = FALSE]
WrapRelApplies(c) == WrapConsistent(c) /\ SmallDisp(c) /\ \E k \in 1..c.d : c.ppp[k] = 1
WrappedEqualsUnwrapped(c) ==
  WrapRelApplies(c) =>
     \A o, e \in 0..(c.T - 1) : o < e =>
        /\ Strip(PairData([c EXCEPT !.mode = "x"], o, e, TRUE)) = Strip(PairData([c EXCEPT !.mode = "xu"], o, e, TRUE))
        /\ ~MTie([c EXCEPT !.mode = "x"], o, e)
\* supplying both coordinate sets: displacements from xu, never minimum-imaged
BothIsXu(c) ==
  \A o, e \in 0..(c.T - 1) : o < e =>
     PairData([c EXCEPT !.mode = "both"], o, e, TRUE) = PairData([c EXCEPT !.mode = "xu"], o, e, TRUE)
\* off ties every selected particle is slow or fast, never both
SlowFastPartition(c) ==
  \A o, e \in 0..(c.T - 1) : o < e =>
     LET ps == PairData([c EXCEPT !.cal = "slow"], o, e, TRUE)
         pf == PairData([c EXCEPT !.cal = "fast"], o, e, TRUE)
     IN  \A i \in 1..c.N : /\ ps.ind[i] + pf.ind[i] <= 1
                           /\ ~ps.qtieAll => ps.ind[i] + pf.ind[i] = 1
IsfBounded(c) ==
  \A o, e \in 0..(c.T - 1) : o < e =>
     LET pd == PairData(c, o, e, TRUE) IN
     QuarterOK(c, pd) => LET v == IsfPairX(c, pd) IN
                         /\ RLeq(<<0 - 1, 1>>, v) /\ RLeq(v, <<1, 1>>)
                         /\ (\A j \in 1..NSel(pd) : pd.s2[pd.sel[j]] = 0) => v = <<1, 1>>
(***************************************************************************)
(* Rows at selected lags, stated directly from the definition (no loop     *)
(* state): for long trajectories the per-pair state machine is replaced by *)
(* this operator; Len(DefPairsSeq) = T - k is the number of origins.       *)
(***************************************************************************)
RowsAt(c, variant, lags, tsq, dt) == [j \in 1..Len(lags) |-> RowT(c, variant, lags[j], tsq, dt)]
OriginsOfLag(c, variant, k) == Len(DefPairsSeq(c, variant, k))
DirectCounts(c, variant, lags) ==
  \A j \in 1..Len(lags) :
     /\ lags[j] \in 1..(c.T - 1)
     /\ OriginsOfLag(c, variant, lags[j]) = IF variant = "log" THEN 1 ELSE c.T - lags[j]
     /\ Cardinality(DefPairs(c, variant, lags[j])) = OriginsOfLag(c, variant, lags[j])

(***************************************************************************)
(* Call histories.  Several calls are made on ONE analysis object (or on   *)
(* two objects, slow and fast, constructed from the same trajectory).  A   *)
(* call is  [kind |-> "relax" | "s4", obj |-> 1 | 2, q, useCond |-> 0|1|2, *)
(* nt, numofq, toff].  Object 1 has cal_type c.cal, object 2 the other     *)
(* one; useCond 0 = no selection, 1 = c.cond, 2 = the masks shifted by one *)
(* frame.  The RESULT OF A CALL IS A FUNCTION OF ITS ARGUMENTS AND THE     *)
(* TRAJECTORY ALONE (DefCall); the algorithm keeps the wavenumber of the   *)
(* last relaxation() call on the object (AlgCall) and must nevertheless    *)
(* agree with DefCall after every history.                                 *)
(***************************************************************************)
OtherCal(cal) == IF cal = "slow" THEN "fast" ELSE "slow"
ShiftedCond(c) == [f \in 1..c.T |-> c.cond[(f % c.T) + 1]]
CallCase(c, call) ==
  [c EXCEPT !.q = call.q,
            !.cal = IF call.obj = 1 THEN c.cal ELSE OtherCal(c.cal),
            !.hasCond = IF call.useCond = 0 THEN 0 ELSE 1,
            !.cond = IF call.useCond = 2 THEN ShiftedCond(c) ELSE c.cond]
CallResult(cc, variant, call, tsq, dt) ==
  IF call.kind = "relax"
  THEN [ kind |-> "relax", rows |-> [k \in 1..(cc.T - 1) |-> RowT(cc, variant, k, tsq, dt)], s4 |-> << >> ]
  ELSE [ kind |-> "s4", rows |-> << >>, s4 |-> S4Exp(cc, call.nt, call.numofq) ]
DefCall(c, variant, call, tsq, dt) == CallResult(CallCase(c, call), variant, call, tsq, dt)

ObjInit == [hasq |-> 0, q |-> [pi |-> 0, n |-> 0, d |-> 1], calls |-> 0]
AlgCall(c, variant, objs, call, tsq, dt) ==
  LET o1 == IF call.kind = "relax"
            THEN [objs EXCEPT ![call.obj] = [hasq |-> 1, q |-> call.q, calls |-> @.calls + 1]]
            ELSE [objs EXCEPT ![call.obj].calls = @ + 1]
      \* relaxation() works with the wavenumber stored on the object; sq4() reads construction-time data only
      cc == CallCase(c, IF call.kind = "relax" THEN [call EXCEPT !.q = o1[call.obj].q] ELSE call)
  IN  [ objs |-> o1, result |-> CallResult(cc, variant, call, tsq, dt) ]
SameArgs(a, b) == a = b
=============================================================================
