--------------------------- MODULE MC_VoronoiOut ---------------------------
(***************************************************************************)
(* Small model for property C20.  The tessellation is not modelled; the    *)
(* model shows that the clauses of VoronoiOut.tla are consistent and not   *)
(* vacuous, and drives the hand-off to read_neighbors:                     *)
(*                                                                         *)
(*  Part = "model"    Init picks a hand-built abstract output (square and  *)
(*    rectangular 2 x 2 lattices with duplicate neighbours, a 3 x 1 strip  *)
(*    with self neighbours, a 2 x 2 x 2 cubic lattice, multi-frame outputs *)
(*    with different N, boundary cases of the tolerances) and either no    *)
(*    corruption or ONE corruption (every single neighbour id changed to   *)
(*    every other id, dropped entry, wrong cn, swapped rows, missing /     *)
(*    extra header, duplicated row, weight off by two quanta in one        *)
(*    direction, negative weight, volume off by N + 1 quanta, id out of    *)
(*    range).  Good outputs are then read frame by frame on two handles    *)
(*    (neighbour file, weight file) with every Nmax of NmaxSet - the       *)
(*    cursor state machine.                                                *)
(*  Part = "verdict"  re-decides files that went through the harness'      *)
(*    text rendering and parser (ndjson), and compares with the verdict    *)
(*    the model gave.                                                      *)
(***************************************************************************)
EXTENDS VoronoiOut, Json, IOUtils

CONSTANTS Part, Gen, SHARD, NSHARDS

VARIABLES g,      \* index of the good output
          mut,    \* the corruption applied (c = "none" for none)
          fsv,    \* the resulting files
          cnb, cw,   \* cursors (lines consumed) of the neighbour / weight handle
          last,   \* the most recent read: [which, f, nmax, m, tell], or << >>
          why     \* WhyFiles(fsv), decided once in the initial state
vars == <<g, mut, fsv, cnb, cw, last, why>>

M1 == 1000000
\* ------------------------------------------------------------ hand-built frames
Fr(n, L, ids, wts, vols) == [N |-> n, L |-> L, ids |-> ids, wts |-> wts, vols |-> vols]
Const(n, v) == [i \in 1..n |-> v]

\* 2 x 2 square lattice in a 2 x 2 box: every neighbour is met through two faces
Square == Fr(4, <<2000, 2000>>,
             << <<2, 2, 3, 3>>, <<1, 1, 4, 4>>, <<1, 1, 4, 4>>, <<2, 2, 3, 3>> >>,
             Const(4, Const(4, M1)), Const(4, M1))
\* 3 particles on a line in a 3 x 1 box: each is its own neighbour across the short edge
Strip  == Fr(3, <<3000, 1000>>,
             << <<1, 1, 2, 3>>, <<1, 2, 2, 3>>, <<1, 2, 3, 3>> >>,
             Const(3, Const(4, M1)), Const(3, M1))
\* 2 x 2 lattice in a 2 x 4 box: cells 1 x 2, two different edge lengths
Rect   == Fr(4, <<2000, 4000>>,
             << <<2, 2, 3, 3>>, <<1, 1, 4, 4>>, <<1, 1, 4, 4>>, <<2, 2, 3, 3>> >>,
             << <<2 * M1, 2 * M1, M1, M1>>, <<2 * M1, 2 * M1, M1, M1>>,
                <<M1, M1, 2 * M1, 2 * M1>>, <<M1, M1, 2 * M1, 2 * M1>> >>,
             Const(4, 2 * M1))
\* 2 x 2 x 2 cubic lattice in a 2 x 2 x 2 box (lengths in units of 0.01)
CubeId(x, y, z) == 1 + x + 2 * y + 4 * z
Cube   == Fr(8, <<200, 200, 200>>,
             [i \in 1..8 |->
                LET x == (i - 1) % 2  y == ((i - 1) \div 2) % 2  z == (i - 1) \div 4
                    a == CubeId(1 - x, y, z) b == CubeId(x, 1 - y, z) c == CubeId(x, y, 1 - z)
                IN  SortBag(<<a, a, b, b, c, c>>)],
             Const(8, Const(6, M1)), Const(8, M1))
\* tolerance boundaries: one direction one quantum larger, volumes off by exactly N quanta
RectEdge == [Rect EXCEPT !.wts[1][1] = 2 * M1 + 1, !.vols[2] = 2 * M1 + 4]

\* the square lattice with two tiny extra faces between the diagonal cells 1 and 4
SquareTiny == [Square EXCEPT !.ids[1] = <<2, 2, 3, 3, 4>>, !.wts[1] = <<M1, M1, M1, M1, 40>>,
                             !.ids[4] = <<1, 2, 2, 3, 3>>, !.wts[4] = <<41, M1, M1, M1, M1>>]

Goods == << <<SquareTiny>>, <<Square>>, <<Strip>>, <<Rect>>, <<Cube>>, <<RectEdge>>,
            <<Square, Rect>>, <<Strip, Square, Rect>>, <<Cube, Cube>> >>

\* ------------------------------------------------------------ cal_neighbors' layout
RECURSIVE ListLines(_, _)      \* which = "ids" | "wts"
ListLines(out, which) ==
  IF out = << >> THEN << >>
  ELSE LET fr == Head(out) IN
       <<Hdr(IF which = "ids" THEN 1 ELSE 0)>>
       \o [i \in 1..fr.N |-> Row(<<i, Len(fr.ids[i])>> \o (IF which = "ids" THEN fr.ids[i] ELSE fr.wts[i]))]
       \o ListLines(Tail(out), which)
RECURSIVE OvRows(_)
OvRows(out) == IF out = << >> THEN << >>
               ELSE LET fr == Head(out) IN
                    [i \in 1..fr.N |-> Row(<<i, Len(fr.ids[i]), fr.vols[i]>>)] \o OvRows(Tail(out))
Render(out) == [ N  |-> [f \in 1..Len(out) |-> out[f].N], L |-> [f \in 1..Len(out) |-> out[f].L],
                 nb |-> ListLines(out, "ids"), w |-> ListLines(out, "wts"), ov |-> <<Hdr(0)>> \o OvRows(out) ]

\* ------------------------------------------------------------ corruptions (on the lines)
SetTok(ls, a, k, v)  == [ls EXCEPT ![a] = [@ EXCEPT !.t = [@ EXCEPT ![k] = v]]]
DropLast(ls, a)      == [ls EXCEPT ![a] = [@ EXCEPT !.t = SubSeq(@, 1, Len(@) - 1)]]
Remove(ls, a)        == SubSeq(ls, 1, a - 1) \o SubSeq(ls, a + 1, Len(ls))
Dup(ls, a)           == SubSeq(ls, 1, a) \o SubSeq(ls, a, Len(ls))
DropTok(ls, a, k)    == [ls EXCEPT ![a] = [@ EXCEPT !.t = SubSeq(@, 1, k - 1) \o SubSeq(@, k + 1, Len(@))]]
Swap(ls, a, b)       == [ls EXCEPT ![a] = ls[b], ![b] = ls[a]]
Insert(ls, a, x)     == SubSeq(ls, 1, a - 1) \o <<x>> \o SubSeq(ls, a, Len(ls))

Muts(fs) ==
  {[c |-> "none", f |-> 0, i |-> 0, k |-> 0, v |-> 0]}
  \cup {[c |-> "nbid", f |-> f, i |-> i, k |-> k, v |-> v] :
          f \in Frames(fs), i \in 1..8, k \in 1..6, v \in 1..8}
  \cup {[c |-> cc, f |-> f, i |-> i, k |-> 1, v |-> 0] :
          cc \in {"droplast", "ovcn", "swaprows", "duprow", "volume", "outofrange"}, f \in Frames(fs), i \in 1..8}
  \cup {[c |-> cc, f |-> f, i |-> i, k |-> k, v |-> 0] :
          cc \in {"weight", "negweight", "dropentry"}, f \in Frames(fs), i \in 1..8, k \in 1..6}
  \cup {[c |-> cc, f |-> f, i |-> 0, k |-> 0, v |-> 0] : cc \in {"nohdr", "ovhdr", "whdrword"}, f \in Frames(fs)}

Applicable(fs, m) ==
  \/ m.c = "none"
  \/ /\ m.c \in {"nohdr", "ovhdr", "whdrword"}
     /\ (m.c = "ovhdr" => m.f > 1)
  \/ /\ m.c \notin {"none", "nohdr", "ovhdr", "whdrword"}
     /\ m.i <= fs.N[m.f]
     /\ m.c \in {"nbid", "weight", "negweight", "dropentry"} => m.k <= Len(Ids(fs, m.f, m.i))
     /\ m.c = "dropentry" => Ids(fs, m.f, m.i)[m.k] # m.i     \* a dropped self face leaves no trace
     /\ m.c = "nbid" => (m.v <= fs.N[m.f] /\ m.v # Ids(fs, m.f, m.i)[m.k])
     /\ m.c = "weight" => Ids(fs, m.f, m.i)[m.k] # m.i          \* self faces are not compared
     /\ m.c = "swaprows" => m.i < fs.N[m.f]

Apply(fs, m) ==
  LET a == OffB(fs, m.f) + 1 + m.i       \* line of row i of frame f in the list files
      o == OffO(fs, m.f) + m.i           \* ... in the overall file
  IN  IF m.c = "none" THEN fs
      ELSE IF m.c = "nbid" THEN [fs EXCEPT !.nb = SetTok(@, a, m.k + 2, m.v)]
      ELSE IF m.c = "droplast" THEN [fs EXCEPT !.nb = DropLast(@, a)]
      ELSE IF m.c = "ovcn" THEN [fs EXCEPT !.ov = SetTok(@, o, 2, fs.ov[o].t[2] + 1)]
      ELSE IF m.c = "swaprows" THEN [fs EXCEPT !.nb = Swap(@, a, a + 1)]
      ELSE IF m.c = "duprow" THEN [fs EXCEPT !.w = Dup(@, a)]
      ELSE IF m.c = "volume" THEN [fs EXCEPT !.ov = SetTok(@, o, 3, fs.ov[o].t[3] + fs.N[m.f] + 5)]
      ELSE IF m.c = "outofrange" THEN [fs EXCEPT !.nb = SetTok(@, a, 3, fs.N[m.f] + 1)]
      ELSE IF m.c = "weight" THEN [fs EXCEPT !.w = SetTok(@, a, m.k + 2, fs.w[a].t[m.k + 2] + 3)]
      ELSE IF m.c = "negweight" THEN [fs EXCEPT !.w = SetTok(@, a, m.k + 2, 0 - 1)]
      ELSE IF m.c = "dropentry" THEN       \* one face missing in one cell, counts adjusted everywhere
           [fs EXCEPT !.nb = SetTok(DropTok(@, a, m.k + 2), a, 2, fs.nb[a].t[2] - 1),
                      !.w  = SetTok(DropTok(@, a, m.k + 2), a, 2, fs.w[a].t[2] - 1),
                      !.ov = SetTok(@, o, 2, fs.ov[o].t[2] - 1)]
      ELSE IF m.c = "nohdr" THEN [fs EXCEPT !.nb = Remove(@, OffB(fs, m.f) + 1)]
      ELSE IF m.c = "whdrword" THEN [fs EXCEPT !.w = [@ EXCEPT ![OffB(fs, m.f) + 1] = Hdr(1)]]
      ELSE [fs EXCEPT !.ov = Insert(@, OffO(fs, m.f) + 1, Hdr(0))]          \* "ovhdr"

ExpectedWhy(m) ==
  IF m.c = "none" THEN {""}
  ELSE IF m.c = "dropentry" THEN {"SymmetricMultiset", "SymmetricMultiset:SmallFaceMissing"}
  ELSE IF m.c = "nbid" THEN {"SymmetricMultiset", "SymmetricMultiset:SmallFaceMissing"}   \* (tiny entry -> self entry)
  ELSE IF m.c \in {"droplast", "ovcn"} THEN {"CnEqualsListed"}
  ELSE IF m.c = "swaprows" THEN {"RowsInIdOrder"}
  ELSE IF m.c \in {"duprow", "nohdr", "ovhdr", "whdrword"} THEN {"Layout"}
  ELSE IF m.c = "volume" THEN {"VolumesSumToBox"}
  ELSE IF m.c = "outofrange" THEN {"IdsInRange"}
  ELSE IF m.c = "weight" THEN {"WeightsSymmetric"}
  ELSE {"WeightsPositive"}

\* ------------------------------------------------------------ state machine
NmaxSet == {1, 2, 3, 4, 6, 200}

Tr == IF Part = "verdict" THEN ndJsonDeserialize(IOEnv.TRACE_FILE) ELSE << >>

Init ==
  /\ cnb = 0 /\ cw = 0 /\ last = << >>
  /\ IF Part = "verdict"
     THEN /\ g \in 1..Len(Tr) /\ g % NSHARDS = SHARD /\ mut = Tr[g].why /\ fsv = Tr[g].fs
     ELSE /\ g \in 1..Len(Goods)
          /\ LET fs == Render(Goods[g]) IN
             /\ mut \in {m \in Muts(fs) : Applicable(fs, m) /\ (g + m.i + m.k) % NSHARDS = SHARD}
             /\ fsv = Apply(fs, mut)
  /\ why = WhyFiles(fsv)

Read(which, nmax) ==
  LET c  == IF which = "nb" THEN cnb ELSE cw
      ls == IF which = "nb" THEN fsv.nb ELSE fsv.w
  IN  /\ c < Len(ls)
      /\ LET f == CHOOSE x \in Frames(fsv) : OffB(fsv, x) = c
             n == fsv.N[f] IN
         /\ last' = [which |-> which, f |-> f, nmax |-> nmax, m |-> ReadMatrix(ls, c, n, nmax), tell |-> ReadNext(c, n)]
         /\ IF which = "nb" THEN cnb' = ReadNext(c, n) /\ cw' = cw ELSE cw' = ReadNext(c, n) /\ cnb' = cnb
      /\ UNCHANGED <<g, mut, fsv, why>>

Next == /\ Part = "model" /\ mut.c = "none"
        /\ \E which \in {"nb", "w"}, nmax \in NmaxSet : Read(which, nmax)
Spec == Init /\ [][Next]_vars

\* ------------------------------------------------------------ invariants
InvGoodAccepted    == (Part = "model" /\ mut.c = "none") => why = ""
InvCorruptRejected == (Part = "model" /\ mut.c # "none") => why \in ExpectedWhy(mut)
InvVerdict         == Part = "verdict" => why = mut
\* a missing face is classified as the small-face pattern exactly when its weight is small,
\* and tolerating the pattern accepts exactly those files
InvSmallFaceClass ==
  (Part = "model" /\ mut.c = "dropentry") =>
     LET fs == Render(Goods[g])
         w  == Wts(fs, mut.f, mut.i)[mut.k] IN
     /\ (why = "SymmetricMultiset:SmallFaceMissing") <=> (4 * w <= MaxW(fs, mut.f))
     /\ (WhyFilesT(fsv, 1) = "") <=> (4 * w <= MaxW(fs, mut.f))

Reading == Part = "model" /\ last # << >>
LastRows == FrameLines(IF last.which = "nb" THEN fsv.nb ELSE fsv.w, OffB(fsv, last.f), fsv.N[last.f])
\* frames are consumed in order: both cursors sit on frame boundaries
InvFramesInOrder ==
  Part = "model" => \A c \in {cnb, cw} : \E f \in 1..(NF(fsv) + 1) : OffB(fsv, f) = c
InvCnNeverExceedsNmax ==
  Reading => \A i \in 1..Len(last.m) : last.m[i][1] <= last.nmax /\ last.m[i][1] <= LastRows[i].t[2]
InvWidthAndPadding ==
  Reading =>
     LET maxcn == SetMax({LastRows[i].t[2] : i \in 1..Len(LastRows)}) IN
     \A i \in 1..Len(last.m) :
        /\ Len(last.m[i]) = 1 + Min2(maxcn, last.nmax)
        /\ \A k \in 2..Len(last.m[i]) : k - 1 > last.m[i][1] => last.m[i][k] = 0
InvZeroBasedIds ==
  Reading =>
     \A i \in 1..Len(last.m) : \A k \in 2..Len(last.m[i]) : k - 1 <= last.m[i][1] =>
        IF last.which = "nb" THEN /\ last.m[i][k] = LastRows[i].t[k + 1] - 1
                                  /\ last.m[i][k] \in 0..(fsv.N[last.f] - 1)
        ELSE last.m[i][k] = LastRows[i].t[k + 1]
\* an untruncated neighbour matrix is still a symmetric multiset of directed entries
InvReadSymmetric ==
  (Reading /\ last.which = "nb" /\ last.nmax = 200) =>
     \A i, j \in 1..Len(last.m) :
        Cardinality({k \in 2..Len(last.m[i]) : k - 1 <= last.m[i][1] /\ last.m[i][k] = j - 1})
        = Cardinality({k \in 2..Len(last.m[j]) : k - 1 <= last.m[j][1] /\ last.m[j][k] = i - 1})

Case ==
  IF last = << >>
  THEN [t |-> "files", g |-> g, mut |-> mut, fs |-> fsv, why |-> why]
  ELSE [t |-> "read", g |-> g, which |-> last.which, f |-> last.f, nmax |-> last.nmax, m |-> last.m, tell |-> last.tell]
Emit == (Gen /\ Part = "model") => PrintT(ToJson(Case))
=============================================================================
