-------------------------- MODULE TraceLocalOrder --------------------------
(***************************************************************************)
(* Direction B for C17: every record is one input that was run through the *)
(* real code (integers only).  For each record, in order, the trace        *)
(* specification re-derives the discrete decisions and the expectation     *)
(* with the operators of LocalOrder and prints them                        *)
(* ({"rec": k, "exp": ...}); the harness evaluates the terms and compares. *)
(* Records that are not well formed are rejected (`bad`).                  *)
(***************************************************************************)
EXTENDS LocalOrder, TLC, Json, IOUtils

Tr == ndJsonDeserialize(IOEnv.TRACE_FILE)

VARIABLES l, bad
vars == <<l, bad>>

WellFormed(r) ==
  IF r.m = "s2" /\ "lat" \in DOMAIN r THEN S2IsLattice(r) /\ r.nd >= 2 /\ r.rn > 0 /\ r.rd > 0 /\ Len(r.sig) = 1
  ELSE IF r.m = "s2" THEN /\ Len(r.H) = r.d /\ Len(r.types) = Len(r.fr[1]) /\ r.nd >= 2 /\ r.rn > 0 /\ r.rd > 0
                     /\ \A i \in 1..Len(r.types) : r.types[i] \in 1..Len(r.sig)
                     /\ LoFramesWellFormed(r, Len(r.fr))       \* optional per-frame cells Hs / types tys
                     \* optional fr0: the wrapped positions of which fr is an unwrapped image (same system)
                     /\ "fr0" \in DOMAIN r => \A f \in 1..Len(r.fr) : LoUnwrapInvariant(LoFrameH(r, f), r.ppp, r.fr[f], r.fr0[f])
  ELSE IF r.m = "tetra" THEN /\ Len(r.pos) >= 5 /\ Len(r.H) = 3
                             /\ "pos0" \in DOMAIN r => LoUnwrapInvariant(r.H, r.ppp, r.pos, r.pos0)
                             /\ "pos2" \in DOMAIN r => /\ Len(r.pos2) = Len(r.pos) /\ IsLowerTri(r.H2)
                                                        /\ \A k \in 1..3 : r.H2[k][k] = r.H[k][k]
  ELSE IF r.m = "nematic" THEN /\ \A f \in 1..Len(r.fr) : \A i \in 1..Len(r.fr[f]) : Norm2(r.fr[f][i]) = r.C * r.C
                               /\ r.Nmax >= 1
                               /\ r.nl # << >> => \A f \in 1..Len(r.fr) : LoIsPerm(r.roword[f], Len(r.fr[f]))
  ELSE IF r.m = "gyr" THEN Len(r.cloud) >= 2
  ELSE FALSE

S2View(r, f) == S2Prep([d |-> r.d, H |-> LoFrameH(r, f), ppp |-> r.ppp, S |-> r.S, pos |-> r.fr[f], types |-> LoFrameTypes(r, f),
                         sig |-> r.sig, rn |-> r.rn, rd |-> r.rd, nd |-> r.nd])
ExpS2(r) ==
  LET T == Len(r.fr)  n == Len(r.types)  P == [f \in 1..Len(r.fr) |-> S2View(r, f)] IN
  [ contrib |-> [f \in 1..T |-> [i \in 1..n |-> S2Contrib(P[f], i)]],
    tie     |-> [f \in 1..T |-> [i \in 1..n |-> S2Tie(P[f], i)]],
    cls     |-> [f \in 1..T |-> [i \in 1..n |-> S2Class(P[f], i)]],
    s2      |-> [f \in 1..T |-> [i \in 1..n |-> S2Term(P[f], i)]],
    g       |-> IF r.savegr
                THEN [f \in 1..T |-> [i \in 1..n |-> [k \in 1..r.nd |-> S2GT(P[f], i, k)]]]
                ELSE << >> ]

\* a full lattice (S2IsLattice): all particles are equivalent, the row of particle 1 stands for every particle
ExpS2Lat(r) ==
  LET P == S2PrepOne([d |-> r.d, H |-> r.H, ppp |-> r.ppp, S |-> r.S, pos |-> r.fr[1], types |-> r.types,
                      sig |-> r.sig, rn |-> r.rn, rd |-> r.rd, nd |-> r.nd]) IN
  [ lat |-> TRUE, contrib |-> << <<S2Contrib(P, 1)>> >>, tie |-> << <<S2Tie(P, 1)>> >>, cls |-> << <<S2Class(P, 1)>> >>,
    s2 |-> << <<S2Term(P, 1)>> >>, g |-> << >> ]

TetraRows(H, ppp, pos) ==
  LET rt == TeTable(H, ppp, pos)  tt == TeTieTable(H, ppp, pos)  dg == IsDiagonal(H) IN
  [i \in 1..Len(pos) |->
       LET tie == TeTie(rt, tt, dg, i)  b == TeBonds(rt, i) IN
       [ tie |-> tie, four |-> TeFour(rt, i), perfect |-> (~tie /\ TePerfectB(b)),
         q |-> IF tie THEN "tie" ELSE TetraTermB(b) ]]
\* a record with pos2 / H2 is a two-frame trajectory: frame 2 is judged with its own cell
ExpTetra(r) ==
  IF "pos2" \in DOMAIN r
  THEN [ rows |-> TetraRows(r.H, r.ppp, r.pos), rows2 |-> TetraRows(r.H2, r.ppp, r.pos2) ]
  ELSE [ rows |-> TetraRows(r.H, r.ppp, r.pos) ]

\* the lists of frame f as delivered for the argument Nmax of the record
NlOf(r, f) == IF r.nl = << >> THEN << >> ELSE LoTrunc(r.nl[f], r.Nmax)
ExpNem(r) ==
  [ rows   |-> IF r.nl = << >> THEN << >> ELSE [f \in 1..Len(r.fr) |-> LoRows(r.nl[f], r.roword[f])],
    used   |-> [f \in 1..Len(r.fr) |-> IF r.nl = << >> THEN << >> ELSE [i \in 1..Len(r.fr[f]) |-> Len(NlOf(r, f)[i])]],
    order  |-> [f \in 1..Len(r.fr) |-> [i \in 1..Len(r.fr[f]) |-> NmOrderT(r.fr[f], r.C, NlOf(r, f), i)]],
    tensor |-> [f \in 1..Len(r.fr) |-> [i \in 1..Len(r.fr[f]) |-> NmTensorT(r.fr[f], r.C, NlOf(r, f), i)]] ]

ExpGyr(r) ==
  LET x == r.cloud  d == Len(r.cloud[1]) IN
  IF GyTr(GyNum(x)) = 0 THEN [skip |-> TRUE]
  ELSE [ skip    |-> FALSE,
         rg      |-> GyRgT(x, r.S),
         fractal |-> IF GyFractalDefined(x, r.S) THEN GyFractalT(x, r.S) ELSE "undef",
         acyl    |-> IF d = 2 THEN GyAcyl2TBig(x, r.S) ELSE "na",
         asph    |-> "na",
         kappa2  |-> IF d = 3 THEN GyKappa2T(x) ELSE "na" ]

Expected(r) == IF r.m = "s2" /\ "lat" \in DOMAIN r THEN ExpS2Lat(r) ELSE IF r.m = "s2" THEN ExpS2(r) ELSE IF r.m = "tetra" THEN ExpTetra(r)
               ELSE IF r.m = "nematic" THEN ExpNem(r) ELSE ExpGyr(r)

Why(r) == IF ~WellFormed(r) THEN "WellFormed" ELSE ""

Init == l = 1 /\ bad = ""
Step == /\ l <= Len(Tr) /\ bad = ""
        /\ LET w == Why(Tr[l]) IN
           IF w = ""
           THEN /\ PrintT(ToJson([rec |-> l, exp |-> Expected(Tr[l])]))
                /\ l' = l + 1 /\ bad' = ""
           ELSE l' = l /\ bad' = w
Spec == Init /\ [][Step]_vars
Accepted == bad = ""
=============================================================================
